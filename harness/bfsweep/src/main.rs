//! bfsweep — C03(a): exhaustive sweep of `__BindgenBitfieldUnit` (the text bindgen pastes into
//! bindings) against a reference bit-vector model. Output: one JSON object on stdout.
#![allow(dead_code, clippy::all)]

include!("/repo/bindgen/codegen/bitfield_unit.rs");

pub struct Stats {
    /// triples whose field spans more than 64 bits from the start of its first byte
    /// (bit_offset % 8 + width > 64): counted and checked separately
    pub span_over_64_triples: u64,
    pub span_over_64_failed: u64,
    pub span_over_64_example: String,
    pub triples: u64,
    pub checks: u64,
    pub failures: Vec<String>,
    pub n_fail: u64,
    pub seed: u64,
}

impl Stats {
    fn fail(&mut self, sig: &str, msg: String) {
        if msg.contains("[span>64]") {
            self.span_over_64_failed += 1;
            if self.span_over_64_example.is_empty() {
                self.span_over_64_example = format!("{sig} | {msg}");
            }
            return;
        }
        self.n_fail += 1;
        if self.failures.len() < 12 && !self.failures.iter().any(|f| f.starts_with(sig)) {
            self.failures.push(format!("{sig} | {msg}"));
        }
    }
}

// ---- reference model: a vector of 8N bits, LSB-first per byte ------------------------------
fn model_get(storage: &[u8], off: usize, w: usize) -> u64 {
    let mut v = 0u64;
    for i in 0..w {
        let bit = off + i;
        if storage[bit / 8] >> (bit % 8) & 1 == 1 {
            v |= 1u64 << i;
        }
    }
    v
}

fn model_set(storage: &mut [u8], off: usize, w: usize, val: u64) {
    for i in 0..w {
        let bit = off + i;
        let b = (val >> i) & 1;
        if b == 1 {
            storage[bit / 8] |= 1 << (bit % 8);
        } else {
            storage[bit / 8] &= !(1 << (bit % 8));
        }
    }
}

fn xorshift(x: &mut u64) -> u64 {
    *x ^= *x << 13;
    *x ^= *x >> 7;
    *x ^= *x << 17;
    *x
}

fn storages<const N: usize>(seed: u64, salt: u64) -> Vec<[u8; N]> {
    let mut v = vec![[0u8; N], [0xFFu8; N], [0xA5u8; N]];
    let mut x = seed ^ salt.wrapping_mul(0x9E3779B97F4A7C15) | 1;
    for _ in 0..2 {
        let mut s = [0u8; N];
        for b in s.iter_mut() {
            *b = xorshift(&mut x) as u8;
        }
        v.push(s);
    }
    v
}

fn values(w: usize, seed: u64, salt: u64) -> Vec<u64> {
    let mut x = seed ^ salt.wrapping_mul(0xD6E8FEB86659FD93) | 1;
    let ones = if w == 64 { u64::MAX } else { (1u64 << w) - 1 };
    vec![0, 1, ones, 1u64 << (w - 1), u64::MAX, 0xAAAA_AAAA_AAAA_AAAA, 0x5555_5555_5555_5555, xorshift(&mut x), xorshift(&mut x)]
}

fn guarded<T>(f: impl FnOnce() -> T) -> Option<T> {
    std::panic::catch_unwind(std::panic::AssertUnwindSafe(f)).ok()
}

fn check_runtime<const N: usize>(st: &mut Stats) {
    for off in 0..N * 8 {
        for w in 1..=64usize {
            if off + w > N * 8 {
                break;
            }
            st.triples += 1;
            let over = off % 8 + w > 64;
            if over {
                st.span_over_64_triples += 1;
            }
            let tag = if over { " [span>64]" } else { "" };
            let salt = ((N as u64) << 32) | ((off as u64) << 8) | w as u64;
            for s in storages::<N>(st.seed, salt) {
                let unit = __BindgenBitfieldUnit::new(s);
                let want = model_get(&s, off, w);
                let got = guarded(|| unit.get(off, w as u8));
                st.checks += 1;
                if got != Some(want) {
                    st.fail("get", format!("N={N} off={off} w={w} storage={s:02x?}: got {got:x?} want {want:#x}{tag}"));
                }
                let got = guarded(|| unsafe { __BindgenBitfieldUnit::raw_get(&unit as *const _, off, w as u8) });
                st.checks += 1;
                if got != Some(want) {
                    st.fail("raw_get", format!("N={N} off={off} w={w} storage={s:02x?}: got {got:x?} want {want:#x}{tag}"));
                }
                for v in values(w, st.seed, salt) {
                    let mut m = s;
                    model_set(&mut m, off, w, v);
                    let mut u = __BindgenBitfieldUnit::new(s);
                    let ok = guarded(|| u.set(off, w as u8, v)).is_some();
                    st.checks += 1;
                    if !ok || u.storage != m {
                        st.fail("set", format!("N={N} off={off} w={w} val={v:#x} storage={s:02x?}: got {:02x?} (panicked: {}) want {m:02x?}{tag}", u.storage, !ok));
                    }
                    let mut u = __BindgenBitfieldUnit::new(s);
                    let ok = guarded(|| unsafe { __BindgenBitfieldUnit::raw_set(&mut u as *mut _, off, w as u8, v) }).is_some();
                    st.checks += 1;
                    if !ok || u.storage != m {
                        st.fail("raw_set", format!("N={N} off={off} w={w} val={v:#x} storage={s:02x?}: got {:02x?} (panicked: {}) want {m:02x?}{tag}", u.storage, !ok));
                    }
                }
            }
        }
    }
}

pub fn check_const<const N: usize, const OFF: usize, const W: u8>(st: &mut Stats) {
    let w = W as usize;
    let over = OFF % 8 + w > 64;
    let tag = if over { " [span>64]" } else { "" };
    let salt = 0xC0_0000_0000u64 | ((N as u64) << 24) | ((OFF as u64) << 8) | w as u64;
    for s in storages::<N>(st.seed, salt) {
        let unit = __BindgenBitfieldUnit::new(s);
        let want = model_get(&s, OFF, w);
        let got = guarded(|| unit.get_const::<OFF, W>());
        st.checks += 1;
        if got != Some(want) {
            st.fail("get_const", format!("N={N} off={OFF} w={w} storage={s:02x?}: got {got:x?} want {want:#x}{tag}"));
        }
        let got = guarded(|| unsafe { __BindgenBitfieldUnit::<[u8; N]>::raw_get_const::<OFF, W>(&unit as *const _) });
        st.checks += 1;
        if got != Some(want) {
            st.fail("raw_get_const", format!("N={N} off={OFF} w={w} storage={s:02x?}: got {got:x?} want {want:#x}{tag}"));
        }
        for v in values(w, st.seed, salt) {
            let mut m = s;
            model_set(&mut m, OFF, w, v);
            let mut u = __BindgenBitfieldUnit::new(s);
            let ok = guarded(|| u.set_const::<OFF, W>(v)).is_some();
            st.checks += 1;
            if !ok || u.storage != m {
                st.fail("set_const", format!("N={N} off={OFF} w={w} val={v:#x} storage={s:02x?}: got {:02x?} (panicked: {}) want {m:02x?}{tag}", u.storage, !ok));
            }
            let mut u = __BindgenBitfieldUnit::new(s);
            let ok = guarded(|| unsafe { __BindgenBitfieldUnit::<[u8; N]>::raw_set_const::<OFF, W>(&mut u as *mut _, v) }).is_some();
            st.checks += 1;
            if !ok || u.storage != m {
                st.fail("raw_set_const", format!("N={N} off={OFF} w={w} val={v:#x} storage={s:02x?}: got {:02x?} (panicked: {}) want {m:02x?}{tag}", u.storage, !ok));
            }
        }
    }
}

include!(concat!(env!("OUT_DIR"), "/grid.rs"));

fn main() {
    let seed: u64 = std::env::args().nth(1).and_then(|s| s.parse().ok()).unwrap_or(0);
    std::panic::set_hook(Box::new(|_| {}));
    let mut st = Stats { span_over_64_triples: 0, span_over_64_failed: 0, span_over_64_example: String::new(), triples: 0, checks: 0, failures: vec![], n_fail: 0, seed: seed.wrapping_add(0x1234_5678_9ABC_DEF1) };
    // a panic inside the unit under test (e.g. an overflowing shift) is a failure of that entry point
    let r = std::panic::catch_unwind(std::panic::AssertUnwindSafe(|| {
        macro_rules! all_n { ($($n:literal),*) => { $( check_runtime::<$n>(&mut st); )* } }
        all_n!(1, 2, 3, 4, 5, 6, 7, 8, 9, 10, 11, 12, 13, 14, 15, 16);
        run_const_grid(&mut st);
    }));
    let panicked = r.is_err();
    let fails: Vec<String> = st.failures.iter().map(|f| format!("{:?}", f)).collect();
    println!(
        "{{\"span_over_64_triples\": {}, \"span_over_64_failed_checks\": {}, \"span_over_64_example\": {:?}, \"triples\": {}, \"checks\": {}, \"const_instantiations\": {}, \"failed_checks\": {}, \"panicked\": {}, \"failures\": [{}]}}",
        st.span_over_64_triples,
        st.span_over_64_failed,
        st.span_over_64_example,
        st.triples,
        st.checks,
        CONST_INSTANTIATIONS,
        st.n_fail,
        panicked,
        fails.join(", ")
    );
}
