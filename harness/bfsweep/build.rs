// Emits one monomorphic call per point of the const-generic grid (C03a).
use std::io::Write;
fn main() {
    let out = std::path::PathBuf::from(std::env::var("OUT_DIR").unwrap()).join("grid.rs");
    let mut f = std::fs::File::create(out).unwrap();
    let wide = std::env::var("BFSWEEP_WIDE").is_ok();
    writeln!(f, "pub fn run_const_grid(st: &mut Stats) {{").unwrap();
    let mut n_inst = 0usize;
    for shift in 0..8usize {
        for w in 1..=64usize {
            let bytes = (shift + w + 7) / 8;
            // minimal storage, field in the first byte; 16-byte storage, field at first and last position
            let mut points: Vec<(usize, usize)> = vec![(bytes, shift), (16, shift), (16, (16 - bytes) * 8 + shift)];
            if wide {
                for n in bytes..=9 {
                    for start in 0..=(n - bytes) {
                        points.push((n, start * 8 + shift));
                    }
                }
            }
            points.sort();
            points.dedup();
            for (n, off) in points {
                if off + w <= n * 8 && n <= 16 {
                    writeln!(f, "    check_const::<{n}, {off}, {w}>(st);").unwrap();
                    n_inst += 1;
                }
            }
        }
    }
    writeln!(f, "}}\npub const CONST_INSTANTIATIONS: usize = {n_inst};").unwrap();
    println!("cargo:rerun-if-changed=build.rs");
    println!("cargo:rerun-if-env-changed=BFSWEEP_WIDE");
    println!("cargo:rerun-if-changed=/repo/bindgen/codegen/bitfield_unit.rs");
}
