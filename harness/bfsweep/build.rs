fn main(){}
