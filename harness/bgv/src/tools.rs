//! External tool invocation: clang, rustc, nm, linked executables.

use std::io::Read;
use std::path::{Path, PathBuf};
use std::process::{Command, Stdio};
use std::time::Duration;
use wait_timeout::ChildExt;

pub struct RunOut {
    pub status: Option<i32>,
    pub signal: Option<i32>,
    pub timed_out: bool,
    pub stdout: String,
    pub stderr: String,
}

impl RunOut {
    pub fn ok(&self) -> bool {
        self.status == Some(0) && !self.timed_out
    }
}

/// Run a command with a watchdog. Output is captured through temp files to avoid pipe deadlock.
pub fn run(cmd: &mut Command, dir: &Path, timeout_s: u64) -> std::io::Result<RunOut> {
    use std::os::unix::process::ExitStatusExt;
    let tag = format!(
        "{}-{}",
        std::process::id(),
        std::time::SystemTime::now().duration_since(std::time::UNIX_EPOCH).unwrap().as_nanos()
    );
    let so = dir.join(format!(".out-{tag}"));
    let se = dir.join(format!(".err-{tag}"));
    let fo = std::fs::File::create(&so)?;
    let fe = std::fs::File::create(&se)?;
    let mut child = cmd.stdin(Stdio::null()).stdout(fo).stderr(fe).current_dir(dir).spawn()?;
    let st = child.wait_timeout(Duration::from_secs(timeout_s))?;
    let (status, signal, timed_out) = match st {
        Some(s) => (s.code(), s.signal(), false),
        None => {
            let _ = child.kill();
            let _ = child.wait();
            (None, None, true)
        }
    };
    let rd = |p: &PathBuf| {
        let mut s = Vec::new();
        if let Ok(mut f) = std::fs::File::open(p) {
            let _ = f.read_to_end(&mut s);
        }
        let _ = std::fs::remove_file(p);
        String::from_utf8_lossy(&s).into_owned()
    };
    Ok(RunOut { status, signal, timed_out, stdout: rd(&so), stderr: rd(&se) })
}

pub fn clang_bin() -> &'static str {
    "clang"
}

pub fn rustc_bin() -> String {
    // the default toolchain's rustc, bypassing the rustup shim start-up cost when possible
    static P: std::sync::OnceLock<String> = std::sync::OnceLock::new();
    P.get_or_init(|| {
        if let Ok(o) = Command::new("rustup").args(["which", "rustc"]).output() {
            let s = String::from_utf8_lossy(&o.stdout).trim().to_string();
            if o.status.success() && Path::new(&s).exists() {
                return s;
            }
        }
        "rustc".into()
    })
    .clone()
}

pub fn nightly_rustc_bin() -> Option<String> {
    static P: std::sync::OnceLock<Option<String>> = std::sync::OnceLock::new();
    P.get_or_init(|| {
        let o = Command::new("rustup").args(["+nightly", "which", "rustc"]).output().ok()?;
        let s = String::from_utf8_lossy(&o.stdout).trim().to_string();
        if o.status.success() && Path::new(&s).exists() {
            Some(s)
        } else {
            None
        }
    })
    .clone()
}

/// `clang -fsyntax-only` classification. Ok(true) accepted, Ok(false) rejected (first error in .1)
pub fn clang_accepts(dir: &Path, file: &str, args: &[String]) -> Result<(bool, String), String> {
    let mut c = Command::new(clang_bin());
    c.arg("-fsyntax-only").arg("-w").args(args).arg(file);
    let o = run(&mut c, dir, 60).map_err(|e| e.to_string())?;
    if o.timed_out {
        return Err("clang timeout".into());
    }
    if o.signal.is_some() {
        return Err("clang crashed".into());
    }
    let first_err = o
        .stderr
        .lines()
        .find(|l| l.contains("error:"))
        .unwrap_or("")
        .to_string();
    Ok((o.status == Some(0), first_err))
}

/// Compile a C/C++ source to an object file.
pub fn clang_compile(dir: &Path, src: &str, out: &str, args: &[String]) -> Result<RunOut, String> {
    let mut c = Command::new(clang_bin());
    c.arg("-c").arg("-w").args(args).arg(src).arg("-o").arg(out);
    run(&mut c, dir, 120).map_err(|e| e.to_string())
}

/// Compile and run a C program, returning stdout.
pub fn clang_run(dir: &Path, src: &str, args: &[String]) -> Result<String, String> {
    let exe = format!("{src}.exe");
    let mut c = Command::new(clang_bin());
    c.arg("-w").args(args).arg(src).arg("-o").arg(&exe);
    let o = run(&mut c, dir, 120).map_err(|e| e.to_string())?;
    if !o.ok() {
        return Err(format!("clang failed: {}", o.stderr.chars().take(2000).collect::<String>()));
    }
    let mut r = Command::new(dir.join(&exe));
    let o = run(&mut r, dir, 60).map_err(|e| e.to_string())?;
    if !o.ok() {
        return Err(format!("C probe failed to run: status {:?} signal {:?}", o.status, o.signal));
    }
    Ok(o.stdout)
}

pub struct Rustc<'a> {
    pub dir: &'a Path,
    pub edition: &'a str,
    pub nightly: bool,
}

impl<'a> Rustc<'a> {
    fn bin(&self) -> String {
        if self.nightly {
            nightly_rustc_bin().unwrap_or_else(rustc_bin)
        } else {
            rustc_bin()
        }
    }
    /// metadata-only library build: parses, resolves, type-checks, evaluates const assertions
    pub fn check_lib(&self, src: &str) -> Result<RunOut, String> {
        let mut c = Command::new(self.bin());
        c.args(["--edition", self.edition, "--crate-type", "lib", "--emit=metadata", "-Awarnings"])
            .args(["--crate-name", "bgv_case", "-o", "libbgv_case.rmeta"])
            .arg(src);
        run(&mut c, self.dir, 180).map_err(|e| e.to_string())
    }
    /// build an executable, optionally linking objects
    pub fn build_exe(&self, src: &str, exe: &str, objs: &[String], test: bool) -> Result<RunOut, String> {
        let mut c = Command::new(self.bin());
        c.args(["--edition", self.edition, "-Awarnings", "-C", "opt-level=0", "-C", "debuginfo=0"])
            .args(["--crate-name", "bgv_exe", "-o", exe]);
        if test {
            c.arg("--test");
        }
        for o in objs {
            c.arg("-C").arg(format!("link-arg={o}"));
        }
        c.arg(src);
        run(&mut c, self.dir, 300).map_err(|e| e.to_string())
    }
}

pub fn run_exe(dir: &Path, exe: &str, args: &[&str], timeout_s: u64) -> Result<RunOut, String> {
    let mut c = Command::new(dir.join(exe));
    c.args(args);
    run(&mut c, dir, timeout_s).map_err(|e| e.to_string())
}

/// Defined external symbols of an object file.
pub fn nm_defined(dir: &Path, obj: &str) -> Result<Vec<String>, String> {
    let mut c = Command::new("nm");
    c.args(["-g", "--defined-only", "-P", obj]);
    let o = run(&mut c, dir, 30).map_err(|e| e.to_string())?;
    if !o.ok() {
        return Err(format!("nm failed: {}", o.stderr));
    }
    Ok(o.stdout.lines().filter_map(|l| l.split_whitespace().next().map(|s| s.to_string())).collect())
}

/// Compiler error codes in rustc output (E0xxx) and first lines.
pub fn rustc_error_summary(stderr: &str) -> (Vec<String>, String) {
    let mut codes = vec![];
    let mut first = String::new();
    for l in stderr.lines() {
        if l.starts_with("error") {
            if first.is_empty() {
                first = l.to_string();
            }
            if let Some(i) = l.find("[E") {
                if let Some(j) = l[i..].find(']') {
                    codes.push(l[i + 1..i + j].to_string());
                }
            } else if !l.starts_with("error: aborting") {
                codes.push("E----".into());
            }
        }
    }
    (codes, first)
}
