//! G-MUT: token- and line-level mutation of C/C++ header text.

use proptest::prelude::*;
use serde::{Deserialize, Serialize};

#[derive(Clone, Debug, PartialEq, Eq)]
pub enum TokKind {
    Ident,
    Number,
    Str,
    Punct,
    /// whitespace, comments, and whole preprocessor lines
    Trivia,
    Directive,
}

#[derive(Clone, Debug)]
pub struct Tok {
    pub kind: TokKind,
    pub text: String,
}

pub fn lex(src: &str) -> Vec<Tok> {
    let b: Vec<char> = src.chars().collect();
    let mut i = 0;
    let mut out = vec![];
    let mut at_line_start = true;
    while i < b.len() {
        let c = b[i];
        let start = i;
        if c == '\n' {
            out.push(Tok { kind: TokKind::Trivia, text: "\n".into() });
            i += 1;
            at_line_start = true;
            continue;
        }
        if c.is_whitespace() {
            while i < b.len() && b[i].is_whitespace() && b[i] != '\n' {
                i += 1;
            }
            out.push(Tok { kind: TokKind::Trivia, text: b[start..i].iter().collect() });
            continue;
        }
        if c == '/' && i + 1 < b.len() && b[i + 1] == '/' {
            while i < b.len() && b[i] != '\n' {
                i += 1;
            }
            out.push(Tok { kind: TokKind::Trivia, text: b[start..i].iter().collect() });
            continue;
        }
        if c == '/' && i + 1 < b.len() && b[i + 1] == '*' {
            i += 2;
            while i + 1 < b.len() && !(b[i] == '*' && b[i + 1] == '/') {
                i += 1;
            }
            i = (i + 2).min(b.len());
            out.push(Tok { kind: TokKind::Trivia, text: b[start..i].iter().collect() });
            continue;
        }
        if c == '#' && at_line_start {
            // whole directive line incl. continuations
            while i < b.len() {
                if b[i] == '\n' && !(i > 0 && b[i - 1] == '\\') {
                    break;
                }
                i += 1;
            }
            out.push(Tok { kind: TokKind::Directive, text: b[start..i].iter().collect() });
            continue;
        }
        at_line_start = false;
        if c.is_alphabetic() || c == '_' || c == '$' {
            while i < b.len() && (b[i].is_alphanumeric() || b[i] == '_' || b[i] == '$') {
                i += 1;
            }
            out.push(Tok { kind: TokKind::Ident, text: b[start..i].iter().collect() });
            continue;
        }
        if c.is_ascii_digit() || (c == '.' && i + 1 < b.len() && b[i + 1].is_ascii_digit()) {
            while i < b.len() && (b[i].is_alphanumeric() || b[i] == '.' || b[i] == '\'' || ((b[i] == '+' || b[i] == '-') && matches!(b[i - 1], 'e' | 'E' | 'p' | 'P'))) {
                i += 1;
            }
            out.push(Tok { kind: TokKind::Number, text: b[start..i].iter().collect() });
            continue;
        }
        if c == '"' || c == '\'' {
            i += 1;
            while i < b.len() && b[i] != c && b[i] != '\n' {
                if b[i] == '\\' {
                    i += 1;
                }
                i += 1;
            }
            i = (i + 1).min(b.len());
            out.push(Tok { kind: TokKind::Str, text: b[start..i].iter().collect() });
            continue;
        }
        // punctuation: longest match of common operators
        const OPS: &[&str] = &["<<=", ">>=", "...", "->*", "::", "->", "++", "--", "<<", ">>", "<=", ">=", "==", "!=", "&&", "||", "+=", "-=", "*=", "/=", "%=", "&=", "|=", "^=", "##", ".*"];
        let rest: String = b[i..(i + 3).min(b.len())].iter().collect();
        let mut taken = 1;
        for op in OPS {
            if rest.starts_with(op) {
                taken = op.chars().count();
                break;
            }
        }
        i += taken;
        out.push(Tok { kind: TokKind::Punct, text: b[start..i].iter().collect() });
    }
    out
}

pub fn unlex(toks: &[Tok]) -> String {
    let mut s = String::new();
    let mut prev_word = false;
    for t in toks {
        let word = matches!(t.kind, TokKind::Ident | TokKind::Number);
        if word && prev_word {
            s.push(' ');
        }
        s.push_str(&t.text);
        prev_word = word;
    }
    s
}

#[derive(Clone, Debug, Serialize, Deserialize, PartialEq, Eq, Hash)]
pub enum Edit {
    DeleteTok(u16),
    DupTok(u16),
    SwapTok(u16),
    /// replace identifier at pos by the identifier found at src
    ReplaceIdent(u16, u16),
    ReplaceWithKeyword(u16, u8),
    ReplaceLiteral(u16, u8),
    /// splice `len` tokens starting at `from` of the splice source at position `at`
    Splice { from: u16, len: u8, at: u16 },
    DeleteLine(u16),
    DupLine(u16),
    /// delete a balanced-ignorant range of tokens
    DeleteRange(u16, u8),
    /// insert one of DIRECTIVE_LINES before a line
    InsertLine(u16, u8),
}

/// Preprocessor and declaration lines with unusual diagnostics classes: fatal errors (missing
/// include), plain errors, warnings, and lines clang accepts that stress the macro evaluator.
pub const DIRECTIVE_LINES: &[&str] = &[
    "#include \"bgv_no_such_file.h\"",
    "#include <bgv_no_such_dir/none.h>",
    "#error stop here",
    "#warning just a warning",
    "#pragma GCC error \"pragma error\"",
    "#pragma GCC warning \"pragma warning\"",
    "_Static_assert(0, \"never\");",
    "#if 1",
    "#endif",
    "#define BGV_DIV (1/0)",
    "#define BGV_REM (1%0)",
    "#define BGV_SHIFT (1 << 200)",
    "#define BGV_EMPTY",
    "#define BGV_STR \"a\" \"b\"",
    "#define BGV_FN(x) ((x)+1)",
    "#pragma pack(push, 1)",
    "#pragma pack(pop)",
    "#pragma once",
    "#line 7 \"elsewhere.h\"",
    "#undef BGV_EMPTY",
    "#include_next <bgv_none.h>",
    "#pragma clang diagnostic ignored \"-Wall\"",
    "__extension__ typedef __int128 bgv_i128;",
    "typedef int bgv_vec4 __attribute__((vector_size(16)));",
    ";",
];

const KEYWORDS: &[&str] = &[
    "struct", "union", "enum", "typedef", "const", "volatile", "static", "extern", "inline", "unsigned", "signed", "long", "short", "void", "int", "char", "float", "double", "class", "template", "typename", "namespace", "virtual", "public", "private", "operator", "using", "friend", "constexpr", "decltype", "auto", "sizeof", "_Bool", "_Complex", "__int128", "_Atomic", "restrict", "noexcept", "explicit", "mutable", "this", "nullptr", "bool", "wchar_t", "char16_t", "__attribute__", "alignas", "final", "override", "delete", "default",
];
const LITERALS: &[&str] = &["0", "1", "-1", "255", "256", "4294967295", "4294967296", "18446744073709551615", "0x7fffffff", "0x80000000", "1ULL<<63", "0.0", "1e308", "'\\0'", "'\\377'", "\"\"", "\"\\xff\"", "32", "33", "64", "65", "0x1p-1074"];

fn idx(pos: u16, len: usize) -> usize {
    ((pos as usize) * len) >> 16
}

/// indices of non-trivia tokens
fn solid(toks: &[Tok]) -> Vec<usize> {
    toks.iter().enumerate().filter(|(_, t)| !matches!(t.kind, TokKind::Trivia | TokKind::Directive)).map(|(i, _)| i).collect()
}

pub fn apply(src: &str, edits: &[Edit], splice_src: Option<&str>) -> String {
    let mut toks = lex(src);
    let other = splice_src.map(lex).unwrap_or_default();
    for e in edits {
        let s = solid(&toks);
        if s.is_empty() {
            break;
        }
        match e {
            Edit::DeleteTok(p) => {
                let i = s[idx(*p, s.len())];
                toks.remove(i);
            }
            Edit::DupTok(p) => {
                let i = s[idx(*p, s.len())];
                let t = toks[i].clone();
                toks.insert(i, Tok { kind: TokKind::Trivia, text: " ".into() });
                toks.insert(i, t);
            }
            Edit::SwapTok(p) => {
                let k = idx(*p, s.len());
                if k + 1 < s.len() {
                    toks.swap(s[k], s[k + 1]);
                }
            }
            Edit::ReplaceIdent(p, q) => {
                let ids: Vec<usize> = s.iter().copied().filter(|i| toks[*i].kind == TokKind::Ident).collect();
                if !ids.is_empty() {
                    let a = ids[idx(*p, ids.len())];
                    let b = ids[idx(*q, ids.len())];
                    toks[a].text = toks[b].text.clone();
                }
            }
            Edit::ReplaceWithKeyword(p, k) => {
                let ids: Vec<usize> = s.iter().copied().filter(|i| toks[*i].kind == TokKind::Ident).collect();
                if !ids.is_empty() {
                    let a = ids[idx(*p, ids.len())];
                    toks[a].text = KEYWORDS[*k as usize % KEYWORDS.len()].to_string();
                }
            }
            Edit::ReplaceLiteral(p, k) => {
                let lits: Vec<usize> = s.iter().copied().filter(|i| matches!(toks[*i].kind, TokKind::Number | TokKind::Str)).collect();
                if !lits.is_empty() {
                    let a = lits[idx(*p, lits.len())];
                    toks[a].text = LITERALS[*k as usize % LITERALS.len()].to_string();
                    toks[a].kind = TokKind::Number;
                }
            }
            Edit::Splice { from, len, at } => {
                let os = solid(&other);
                if !os.is_empty() {
                    let f = idx(*from, os.len());
                    let l = (*len as usize % 24) + 1;
                    let range: Vec<Tok> = other[os[f]..=os[(f + l - 1).min(os.len() - 1)]].to_vec();
                    let a = s[idx(*at, s.len())];
                    for (k, t) in range.into_iter().enumerate() {
                        toks.insert(a + k, t);
                    }
                }
            }
            Edit::DeleteLine(p) | Edit::DupLine(p) => {
                let text = unlex(&toks);
                let mut lines: Vec<&str> = text.split('\n').collect();
                if !lines.is_empty() {
                    let l = idx(*p, lines.len());
                    if matches!(e, Edit::DeleteLine(_)) {
                        lines.remove(l);
                    } else {
                        let x = lines[l];
                        lines.insert(l, x);
                    }
                }
                let joined = lines.join("\n");
                toks = lex(&joined);
            }
            Edit::InsertLine(p, w) => {
                let text = unlex(&toks);
                let mut lines: Vec<&str> = text.split('\n').collect();
                let l = idx(*p, lines.len().max(1)).min(lines.len());
                lines.insert(l, DIRECTIVE_LINES[*w as usize % DIRECTIVE_LINES.len()]);
                let joined = lines.join("\n");
                toks = lex(&joined);
            }
            Edit::DeleteRange(p, n) => {
                let k = idx(*p, s.len());
                let end = (k + (*n as usize % 12) + 1).min(s.len());
                let (a, b) = (s[k], s[end - 1]);
                toks.drain(a..=b);
            }
        }
    }
    unlex(&toks)
}

pub fn edit_strategy() -> BoxedStrategy<Edit> {
    prop_oneof![
        3 => any::<u16>().prop_map(Edit::DeleteTok),
        2 => any::<u16>().prop_map(Edit::DupTok),
        2 => any::<u16>().prop_map(Edit::SwapTok),
        4 => (any::<u16>(), any::<u16>()).prop_map(|(a, b)| Edit::ReplaceIdent(a, b)),
        3 => (any::<u16>(), any::<u8>()).prop_map(|(a, b)| Edit::ReplaceWithKeyword(a, b)),
        3 => (any::<u16>(), any::<u8>()).prop_map(|(a, b)| Edit::ReplaceLiteral(a, b)),
        3 => (any::<u16>(), any::<u8>(), any::<u16>()).prop_map(|(from, len, at)| Edit::Splice { from, len, at }),
        1 => any::<u16>().prop_map(Edit::DeleteLine),
        1 => any::<u16>().prop_map(Edit::DupLine),
        1 => (any::<u16>(), any::<u8>()).prop_map(|(a, b)| Edit::DeleteRange(a, b)),
        2 => (any::<u16>(), any::<u8>()).prop_map(|(a, b)| Edit::InsertLine(a, b)),
    ]
    .boxed()
}

/// Does `mutant` differ from `original` in a non-trivia token?
pub fn differs_in_tokens(original: &str, mutant: &str) -> bool {
    let f = |s: &str| -> Vec<String> { lex(s).into_iter().filter(|t| t.kind != TokKind::Trivia).map(|t| t.text).collect() };
    f(original) != f(mutant)
}
