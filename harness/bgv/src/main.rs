//! bgv — property-based testing / fuzzing driver for rust-bindgen (see /verif/DESIGN.md)

mod bg;
mod cexprs;
mod cmodel;
mod corpus;
mod mutate;
mod probe;
mod engine;
mod props;
mod rs;
mod tmplgen;
mod tools;
mod worker;
mod zoo;

use engine::Tier;

/// bindgen (and libclang) print diagnostics to stderr; the driver silences fd 2 and keeps
/// its own messages on a duplicate of the original stderr.
pub static NOTE_FD: std::sync::atomic::AtomicI32 = std::sync::atomic::AtomicI32::new(2);

#[macro_export]
macro_rules! note {
    ($($arg:tt)*) => {{
        let s = format!($($arg)*);
        let fd = $crate::NOTE_FD.load(std::sync::atomic::Ordering::Relaxed);
        let line = format!("{s}\n");
        unsafe { libc::write(fd, line.as_ptr() as *const libc::c_void, line.len()); }
    }};
}

fn silence_stderr() {
    if std::env::var_os("BGV_SHOW_STDERR").is_some() {
        return;
    }
    unsafe {
        let saved = libc::dup(2);
        let null = libc::open(b"/dev/null\0".as_ptr() as *const libc::c_char, libc::O_WRONLY);
        if saved >= 0 && null >= 0 {
            libc::dup2(null, 2);
            libc::close(null);
            NOTE_FD.store(saved, std::sync::atomic::Ordering::Relaxed);
        }
    }
}
use std::path::Path;

fn usage() -> ! {
    eprintln!("usage: bgv check <ID> <quick|thorough> | bgv replay <ID> <file> | bgv cli <bindgen args..> | bgv worker");
    std::process::exit(2)
}

fn main() {
    let args: Vec<String> = std::env::args().collect();
    if args.len() < 2 {
        usage();
    }
    // bindgen consults these; make every run independent of the caller's environment
    for v in ["BINDGEN_EXTRA_CLANG_ARGS", "TARGET", "CLANG_PATH"] {
        std::env::remove_var(v);
    }
    match args[1].as_str() {
        "cli" => {
            let a: Vec<String> = std::iter::once("bindgen".to_string()).chain(args[2..].iter().cloned()).collect();
            let (b, mut out, _) = bindgen::builder_from_flags(a.into_iter()).expect("flags");
            match b.generate() {
                Ok(bindings) => {
                    bindings.write(&mut out).expect("write");
                }
                Err(e) => {
                    eprintln!("error: {e:?}");
                    std::process::exit(1);
                }
            }
        }
        "pp" => {
            // debug: bgv pp <file.rs> <merge 0|1> <sort 0|1>
            let text = std::fs::read_to_string(&args[2]).expect("read");
            let out = bindgen::verif::postprocess(&text, args[3] == "1", args[4] == "1");
            println!("{}", out.unwrap_or_else(|| "<<unparseable>>".into()));
        }
        "tokens" => {
            let text = std::fs::read_to_string(&args[2]).expect("read");
            for t in rs::flat_tokens(&text) {
                println!("{t}");
            }
        }
        "worker" => {
            props::worker_main();
        }
        "check" => {
            if args.len() < 4 {
                usage();
            }
            let tier = match args[3].as_str() {
                "quick" => Tier::Quick,
                "thorough" => Tier::Thorough,
                _ => usage(),
            };
            bg::install_quiet_panic_hook();
            silence_stderr();
            let code = props::dispatch_check(&args[2], tier);
            std::process::exit(code);
        }
        "replay" => {
            if args.len() < 4 {
                usage();
            }
            bg::install_quiet_panic_hook();
            let code = props::dispatch_replay(&args[2], Path::new(&args[3]));
            std::process::exit(code);
        }
        _ => usage(),
    }
}
