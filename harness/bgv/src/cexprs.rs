//! Typed C constant-expression model used by C05: integer expressions with C's typing
//! rules on LP64 (so that generated macros are free of undefined behaviour by construction),
//! float expressions, character and string literals, and their C spelling.

use proptest::prelude::*;
use serde::{Deserialize, Serialize};

// ------------------------------------------------------------------------------------------
// integer expressions

#[derive(Clone, Copy, Debug, Serialize, Deserialize, PartialEq, Eq)]
pub enum Radix {
    Dec,
    Hex,
    Oct,
    Bin,
}

#[derive(Clone, Copy, Debug, Serialize, Deserialize, PartialEq, Eq)]
pub enum CastTy {
    Bool,
    SChar,
    UChar,
    Short,
    UShort,
    Int,
    UInt,
    Long,
    ULong,
    LLong,
    ULLong,
}

impl CastTy {
    pub const ALL: &'static [CastTy] = &[
        CastTy::Bool,
        CastTy::SChar,
        CastTy::UChar,
        CastTy::Short,
        CastTy::UShort,
        CastTy::Int,
        CastTy::UInt,
        CastTy::Long,
        CastTy::ULong,
        CastTy::LLong,
        CastTy::ULLong,
    ];
    pub fn c(self, cpp: bool) -> &'static str {
        match self {
            CastTy::Bool => {
                if cpp {
                    "bool"
                } else {
                    "_Bool"
                }
            }
            CastTy::SChar => "signed char",
            CastTy::UChar => "unsigned char",
            CastTy::Short => "short",
            CastTy::UShort => "unsigned short",
            CastTy::Int => "int",
            CastTy::UInt => "unsigned int",
            CastTy::Long => "long",
            CastTy::ULong => "unsigned long",
            CastTy::LLong => "long long",
            CastTy::ULLong => "unsigned long long",
        }
    }
    /// (bits, signed)
    pub fn shape(self) -> (u32, bool) {
        match self {
            CastTy::Bool => (1, false),
            CastTy::SChar => (8, true),
            CastTy::UChar => (8, false),
            CastTy::Short => (16, true),
            CastTy::UShort => (16, false),
            CastTy::Int => (32, true),
            CastTy::UInt => (32, false),
            CastTy::Long | CastTy::LLong => (64, true),
            CastTy::ULong | CastTy::ULLong => (64, false),
        }
    }
    pub fn size(self) -> u64 {
        match self.shape().0 {
            1 | 8 => 1,
            16 => 2,
            32 => 4,
            _ => 8,
        }
    }
}

#[derive(Clone, Copy, Debug, Serialize, Deserialize, PartialEq, Eq)]
pub enum UnOp {
    Neg,
    BitNot,
    LogNot,
    Plus,
}

#[derive(Clone, Copy, Debug, Serialize, Deserialize, PartialEq, Eq)]
pub enum BinOp {
    Add,
    Sub,
    Mul,
    Div,
    Rem,
    Shl,
    Shr,
    And,
    Or,
    Xor,
    LAnd,
    LOr,
    Lt,
    Le,
    Gt,
    Ge,
    Eq,
    Ne,
}

impl BinOp {
    pub const ALL: &'static [BinOp] = &[
        BinOp::Add,
        BinOp::Sub,
        BinOp::Mul,
        BinOp::Div,
        BinOp::Rem,
        BinOp::Shl,
        BinOp::Shr,
        BinOp::And,
        BinOp::Or,
        BinOp::Xor,
        BinOp::LAnd,
        BinOp::LOr,
        BinOp::Lt,
        BinOp::Le,
        BinOp::Gt,
        BinOp::Ge,
        BinOp::Eq,
        BinOp::Ne,
    ];
    pub fn c(self) -> &'static str {
        match self {
            BinOp::Add => "+",
            BinOp::Sub => "-",
            BinOp::Mul => "*",
            BinOp::Div => "/",
            BinOp::Rem => "%",
            BinOp::Shl => "<<",
            BinOp::Shr => ">>",
            BinOp::And => "&",
            BinOp::Or => "|",
            BinOp::Xor => "^",
            BinOp::LAnd => "&&",
            BinOp::LOr => "||",
            BinOp::Lt => "<",
            BinOp::Le => "<=",
            BinOp::Gt => ">",
            BinOp::Ge => ">=",
            BinOp::Eq => "==",
            BinOp::Ne => "!=",
        }
    }
    pub fn is_cexpr(self) -> bool {
        matches!(self, BinOp::Add | BinOp::Sub | BinOp::Mul | BinOp::Div | BinOp::Rem | BinOp::Shl | BinOp::Shr | BinOp::And | BinOp::Or | BinOp::Xor)
    }
}

#[derive(Clone, Debug, Serialize, Deserialize, PartialEq, Eq)]
pub enum IExpr {
    /// value, unsigned suffix, number of `l`s (0..=2), radix, upper-case suffix
    Lit { v: u64, u: bool, l: u8, radix: Radix, upper: bool },
    /// a character constant (byte)
    Chr(u8),
    /// reference to an earlier integer macro (index scaled into what is available)
    Ref(u16),
    Un(UnOp, Box<IExpr>),
    Bin(BinOp, Box<IExpr>, Box<IExpr>),
    Cond(Box<IExpr>, Box<IExpr>, Box<IExpr>),
    Cast(CastTy, Box<IExpr>),
    SizeofTy(CastTy),
}

/// A promoted C integer value: 32 or 64 bits wide, signed or not; `v` is the mathematical value.
#[derive(Clone, Copy, Debug, PartialEq, Eq)]
pub struct V {
    pub bits: u32,
    pub signed: bool,
    pub v: i128,
}

impl V {
    pub fn int(v: i128) -> V {
        V { bits: 32, signed: true, v }
    }
    fn min(self) -> i128 {
        if self.signed {
            -(1i128 << (self.bits - 1))
        } else {
            0
        }
    }
    fn max(self) -> i128 {
        if self.signed {
            (1i128 << (self.bits - 1)) - 1
        } else {
            (1i128 << self.bits) - 1
        }
    }
    fn fits(self, x: i128) -> bool {
        x >= self.min() && x <= self.max()
    }
    /// wrap into this type (conversion to this type)
    fn wrap(self, x: i128) -> V {
        let m = 1i128 << self.bits;
        let mut r = x.rem_euclid(m);
        if self.signed && r > self.max() {
            r -= m;
        }
        V { v: r, ..self }
    }
}

/// usual arithmetic conversions on two promoted operands
fn common(a: V, b: V) -> V {
    let bits = a.bits.max(b.bits);
    let signed = if a.bits == b.bits {
        a.signed && b.signed
    } else if a.bits > b.bits {
        a.signed
    } else {
        b.signed
    };
    V { bits, signed, v: 0 }
}

pub fn lit_type(v: u64, u: bool, l: u8, radix: Radix) -> Option<V> {
    let x = v as i128;
    let cands: Vec<(u32, bool)> = match (u, l > 0, radix == Radix::Dec) {
        (false, false, true) => vec![(32, true), (64, true)],
        (false, false, false) => vec![(32, true), (32, false), (64, true), (64, false)],
        (true, false, _) => vec![(32, false), (64, false)],
        (false, true, true) => vec![(64, true)],
        (false, true, false) => vec![(64, true), (64, false)],
        (true, true, _) => vec![(64, false)],
    };
    for (bits, signed) in cands {
        let t = V { bits, signed, v: 0 };
        if t.fits(x) {
            return Some(V { v: x, ..t });
        }
    }
    None
}

/// Evaluate with C semantics; `Err` means the expression is not well defined (overflow,
/// shift out of range, division by zero, unrepresentable literal) and must not be generated.
pub fn eval(e: &IExpr, refs: &[V]) -> Result<V, ()> {
    Ok(match e {
        IExpr::Lit { v, u, l, radix, .. } => lit_type(*v, *u, *l, *radix).ok_or(())?,
        IExpr::Chr(c) => V::int(*c as i8 as i128),
        IExpr::Ref(i) => {
            if refs.is_empty() {
                return Err(());
            }
            refs[(*i as usize * refs.len()) >> 16]
        }
        IExpr::SizeofTy(t) => V { bits: 64, signed: false, v: t.size() as i128 },
        IExpr::Cast(t, a) => {
            let a = eval(a, refs)?;
            let (bits, signed) = t.shape();
            let small = if bits == 1 {
                V::int((a.v != 0) as i128)
            } else {
                V { bits, signed, v: 0 }.wrap(a.v)
            };
            // integer promotion of the result
            if bits < 32 {
                V::int(small.v)
            } else {
                small
            }
        }
        IExpr::Un(op, a) => {
            let a = eval(a, refs)?;
            match op {
                UnOp::Plus => a,
                UnOp::LogNot => V::int((a.v == 0) as i128),
                UnOp::BitNot => {
                    if a.signed {
                        V { v: !a.v, ..a }
                    } else {
                        a.wrap(!a.v)
                    }
                }
                UnOp::Neg => {
                    if a.signed {
                        if !a.fits(-a.v) {
                            return Err(());
                        }
                        V { v: -a.v, ..a }
                    } else {
                        a.wrap(-a.v)
                    }
                }
            }
        }
        IExpr::Cond(c, a, b) => {
            let c = eval(c, refs)?;
            let a = eval(a, refs)?;
            let b = eval(b, refs)?;
            let t = common(a, b);
            t.wrap(if c.v != 0 { a.v } else { b.v })
        }
        IExpr::Bin(op, a, b) => {
            let a = eval(a, refs)?;
            let b = eval(b, refs)?;
            match op {
                BinOp::LAnd => V::int((a.v != 0 && b.v != 0) as i128),
                BinOp::LOr => V::int((a.v != 0 || b.v != 0) as i128),
                BinOp::Shl | BinOp::Shr => {
                    if b.v < 0 || b.v >= a.bits as i128 {
                        return Err(());
                    }
                    if *op == BinOp::Shl {
                        if a.signed {
                            if a.v < 0 || !a.fits(a.v << b.v) {
                                return Err(());
                            }
                            V { v: a.v << b.v, ..a }
                        } else {
                            a.wrap(a.v << b.v)
                        }
                    } else {
                        // arithmetic shift of negative values (what clang does)
                        V { v: a.v >> b.v, ..a }
                    }
                }
                _ => {
                    let t = common(a, b);
                    let x = t.wrap(a.v).v;
                    let y = t.wrap(b.v).v;
                    let arith = |r: i128| -> Result<V, ()> {
                        if t.signed {
                            if t.fits(r) {
                                Ok(V { v: r, ..t })
                            } else {
                                Err(())
                            }
                        } else {
                            Ok(t.wrap(r))
                        }
                    };
                    match op {
                        BinOp::Add => arith(x + y)?,
                        BinOp::Sub => arith(x - y)?,
                        BinOp::Mul => match x.checked_mul(y) {
                            Some(r) => arith(r)?,
                            None if t.signed => return Err(()),
                            None => t.wrap(((x as u128).wrapping_mul(y as u128) & (u64::MAX as u128)) as i128),
                        },
                        BinOp::Div => {
                            if y == 0 {
                                return Err(());
                            }
                            arith(x / y)?
                        }
                        BinOp::Rem => {
                            if y == 0 || (t.signed && x == t.min() && y == -1) {
                                return Err(());
                            }
                            arith(x % y)?
                        }
                        BinOp::And => t.wrap(x & y),
                        BinOp::Or => t.wrap(x | y),
                        BinOp::Xor => t.wrap(x ^ y),
                        BinOp::Lt => V::int((x < y) as i128),
                        BinOp::Le => V::int((x <= y) as i128),
                        BinOp::Gt => V::int((x > y) as i128),
                        BinOp::Ge => V::int((x >= y) as i128),
                        BinOp::Eq => V::int((x == y) as i128),
                        BinOp::Ne => V::int((x != y) as i128),
                        _ => unreachable!(),
                    }
                }
            }
        }
    })
}

/// The value an evaluator gets that ignores C typing and computes in wrapping signed 64-bit
/// arithmetic on the operator subset {+ - ~ * / % << >> & | ^}; `None` when the expression
/// uses anything else. This only classifies inputs (known-finding class "untyped 64-bit
/// arithmetic"); it is never an oracle.
pub fn eval_untyped(e: &IExpr, refs: &[Option<i64>]) -> Option<i64> {
    Some(match e {
        IExpr::Lit { v, .. } => *v as i64,
        // character constants do not take part in arithmetic there
        IExpr::Chr(_) => return None,
        IExpr::Ref(i) => {
            if refs.is_empty() {
                return None;
            }
            refs[(*i as usize * refs.len()) >> 16]?
        }
        IExpr::SizeofTy(_) | IExpr::Cast(..) | IExpr::Cond(..) => return None,
        IExpr::Un(op, a) => {
            let a = eval_untyped(a, refs)?;
            match op {
                UnOp::Plus => a,
                UnOp::Neg => a.wrapping_neg(),
                UnOp::BitNot => !a,
                UnOp::LogNot => return None,
            }
        }
        IExpr::Bin(op, a, b) => {
            let a = eval_untyped(a, refs)?;
            let b = eval_untyped(b, refs)?;
            match op {
                BinOp::Add => a.wrapping_add(b),
                BinOp::Sub => a.wrapping_sub(b),
                BinOp::Mul => a.wrapping_mul(b),
                BinOp::Div => {
                    if b == 0 {
                        return None;
                    }
                    a.wrapping_div(b)
                }
                BinOp::Rem => {
                    if b == 0 {
                        return None;
                    }
                    a.wrapping_rem(b)
                }
                BinOp::Shl => a.wrapping_shl(b as u32),
                BinOp::Shr => a.wrapping_shr(b as u32),
                BinOp::And => a & b,
                BinOp::Or => a | b,
                BinOp::Xor => a ^ b,
                _ => return None,
            }
        }
    })
}

/// Make `e` well defined: any node whose evaluation is undefined is replaced by its first
/// well-defined operand (or the literal 1).
pub fn repair(e: IExpr, refs: &[V]) -> IExpr {
    let e = match e {
        IExpr::Lit { v, u, l, radix, upper } => {
            if lit_type(v, u, l, radix).is_some() {
                IExpr::Lit { v, u, l, radix, upper }
            } else {
                // too large for the signed candidates: make it unsigned
                IExpr::Lit { v, u: true, l, radix, upper }
            }
        }
        IExpr::Ref(i) => {
            if refs.is_empty() {
                IExpr::Lit { v: 1, u: false, l: 0, radix: Radix::Dec, upper: false }
            } else {
                IExpr::Ref(i)
            }
        }
        IExpr::Un(op, a) => IExpr::Un(op, Box::new(repair(*a, refs))),
        IExpr::Cast(t, a) => IExpr::Cast(t, Box::new(repair(*a, refs))),
        IExpr::Bin(op, a, b) => IExpr::Bin(op, Box::new(repair(*a, refs)), Box::new(repair(*b, refs))),
        IExpr::Cond(c, a, b) => IExpr::Cond(Box::new(repair(*c, refs)), Box::new(repair(*a, refs)), Box::new(repair(*b, refs))),
        other => other,
    };
    if eval(&e, refs).is_ok() {
        return e;
    }
    match e {
        IExpr::Un(_, a) => *a,
        IExpr::Bin(_, a, _) => *a,
        IExpr::Cond(_, a, _) => *a,
        IExpr::Cast(_, a) => *a,
        _ => IExpr::Lit { v: 1, u: false, l: 0, radix: Radix::Dec, upper: false },
    }
}

pub fn render_lit(v: u64, u: bool, l: u8, radix: Radix, upper: bool) -> String {
    let mut s = match radix {
        Radix::Dec => format!("{v}"),
        Radix::Hex => {
            if upper {
                format!("0X{v:X}")
            } else {
                format!("0x{v:x}")
            }
        }
        Radix::Oct => format!("0{v:o}"),
        Radix::Bin => format!("0b{v:b}"),
    };
    let mut suf = String::new();
    if u {
        suf.push('u');
    }
    for _ in 0..l {
        suf.push('l');
    }
    if upper {
        suf = suf.to_uppercase();
    }
    s.push_str(&suf);
    s
}

pub fn render_char(c: u8) -> String {
    match c {
        b'\n' => "'\\n'".into(),
        b'\t' => "'\\t'".into(),
        b'\r' => "'\\r'".into(),
        0 => "'\\0'".into(),
        b'\'' => "'\\''".into(),
        b'\\' => "'\\\\'".into(),
        0x20..=0x7e if c != b'?' => format!("'{}'", c as char),
        _ => {
            if c % 2 == 0 {
                format!("'\\x{c:02x}'")
            } else {
                format!("'\\{c:03o}'")
            }
        }
    }
}

/// C spelling, fully parenthesised; `names[i]` are the macro names `Ref` can resolve to.
pub fn render(e: &IExpr, names: &[String], cpp: bool) -> String {
    match e {
        IExpr::Lit { v, u, l, radix, upper } => render_lit(*v, *u, *l, *radix, *upper),
        IExpr::Chr(c) => render_char(*c),
        IExpr::Ref(i) => names[(*i as usize * names.len()) >> 16].clone(),
        IExpr::SizeofTy(t) => format!("sizeof({})", t.c(cpp)),
        IExpr::Cast(t, a) => format!("(({}){})", t.c(cpp), render_atom(a, names, cpp)),
        IExpr::Un(op, a) => {
            let o = match op {
                UnOp::Neg => "-",
                UnOp::BitNot => "~",
                UnOp::LogNot => "!",
                UnOp::Plus => "+",
            };
            format!("{o}{}", render_atom(a, names, cpp))
        }
        IExpr::Bin(op, a, b) => format!("({} {} {})", render(a, names, cpp), op.c(), render(b, names, cpp)),
        IExpr::Cond(c, a, b) => format!("({} ? {} : {})", render(c, names, cpp), render(a, names, cpp), render(b, names, cpp)),
    }
}

fn render_atom(e: &IExpr, names: &[String], cpp: bool) -> String {
    match e {
        IExpr::Bin(..) | IExpr::Cond(..) | IExpr::Cast(..) => render(e, names, cpp),
        // `- -1` and `-(-1)`: never let two signs touch
        IExpr::Un(..) => format!("({})", render(e, names, cpp)),
        _ => render(e, names, cpp),
    }
}

/// Does the expression itself contain an operand of unsigned type (a literal typed unsigned,
/// a cast to an unsigned type, sizeof)? References are the caller's business.
pub fn has_unsigned_operand(e: &IExpr) -> bool {
    match e {
        IExpr::Lit { v, u, l, radix, .. } => lit_type(*v, *u, *l, *radix).map(|t| !t.signed).unwrap_or(true),
        IExpr::Chr(_) | IExpr::Ref(_) => false,
        IExpr::SizeofTy(_) => true,
        IExpr::Cast(t, a) => !t.shape().1 || has_unsigned_operand(a),
        IExpr::Un(_, a) => has_unsigned_operand(a),
        IExpr::Bin(_, a, b) => has_unsigned_operand(a) || has_unsigned_operand(b),
        IExpr::Cond(c, a, b) => has_unsigned_operand(c) || has_unsigned_operand(a) || has_unsigned_operand(b),
    }
}

/// indices (into a pool of `n` earlier integer macros) that `e` refers to
pub fn ref_indices(e: &IExpr, n: usize, out: &mut Vec<usize>) {
    match e {
        IExpr::Ref(i) if n > 0 => out.push((*i as usize * n) >> 16),
        IExpr::Un(_, a) | IExpr::Cast(_, a) => ref_indices(a, n, out),
        IExpr::Bin(_, a, b) => {
            ref_indices(a, n, out);
            ref_indices(b, n, out);
        }
        IExpr::Cond(c, a, b) => {
            ref_indices(c, n, out);
            ref_indices(a, n, out);
            ref_indices(b, n, out);
        }
        _ => {}
    }
}

pub fn features(e: &IExpr, out: &mut std::collections::BTreeSet<&'static str>) {
    match e {
        IExpr::Lit { u, l, radix, .. } => {
            if *u {
                out.insert("u-suffix");
            }
            if *l > 0 {
                out.insert("l-suffix");
            }
            out.insert(match radix {
                Radix::Dec => "dec",
                Radix::Hex => "hex",
                Radix::Oct => "oct",
                Radix::Bin => "bin",
            });
        }
        IExpr::Chr(_) => {
            out.insert("char-in-expr");
        }
        IExpr::Ref(_) => {
            out.insert("macro-ref");
        }
        IExpr::SizeofTy(_) => {
            out.insert("sizeof");
        }
        IExpr::Cast(_, a) => {
            out.insert("cast");
            features(a, out);
        }
        IExpr::Un(op, a) => {
            out.insert(match op {
                UnOp::Neg => "neg",
                UnOp::BitNot => "bitnot",
                UnOp::LogNot => "lognot",
                UnOp::Plus => "plus",
            });
            features(a, out);
        }
        IExpr::Bin(op, a, b) => {
            out.insert(match op {
                BinOp::Add | BinOp::Sub => "add-sub",
                BinOp::Mul | BinOp::Div | BinOp::Rem => "mul-div-rem",
                BinOp::Shl | BinOp::Shr => "shift",
                BinOp::And | BinOp::Or | BinOp::Xor => "bitwise",
                BinOp::LAnd | BinOp::LOr => "logical",
                _ => "comparison",
            });
            features(a, out);
            features(b, out);
        }
        IExpr::Cond(c, a, b) => {
            out.insert("conditional");
            features(c, out);
            features(a, out);
            features(b, out);
        }
    }
}

const BOUNDARY: &[u64] = &[
    0,
    1,
    2,
    3,
    7,
    8,
    10,
    31,
    32,
    63,
    64,
    100,
    127,
    128,
    255,
    256,
    1000,
    32767,
    32768,
    65535,
    65536,
    0x7fff_ffff,
    0x8000_0000,
    0xffff_ffff,
    0x1_0000_0000,
    0x7fff_ffff_ffff_ffff,
    0x8000_0000_0000_0000,
    0xffff_ffff_ffff_ffff,
];

pub fn lit_strategy() -> BoxedStrategy<IExpr> {
    let value = prop_oneof![
        4 => (0..BOUNDARY.len()).prop_map(|i| BOUNDARY[i]),
        2 => 0u64..300,
        1 => any::<u32>().prop_map(|x| x as u64),
        1 => any::<u64>(),
        1 => (0u32..64).prop_map(|k| 1u64 << k),
        1 => (1u32..64).prop_map(|k| (1u64 << k) - 1),
    ];
    let radix = prop_oneof![4 => Just(Radix::Dec), 3 => Just(Radix::Hex), 1 => Just(Radix::Oct), 1 => Just(Radix::Bin)];
    (value, prop::bool::weighted(0.25), prop_oneof![4 => Just(0u8), 1 => Just(1u8), 1 => Just(2u8)], radix, any::<bool>())
        .prop_map(|(v, u, l, radix, upper)| IExpr::Lit { v, u, l, radix, upper })
        .boxed()
}

pub fn iexpr_strategy() -> BoxedStrategy<IExpr> {
    let leaf = prop_oneof![
        8 => lit_strategy(),
        2 => any::<u16>().prop_map(IExpr::Ref),
        1 => any::<u8>().prop_map(IExpr::Chr),
        1 => (0..CastTy::ALL.len()).prop_map(|i| IExpr::SizeofTy(CastTy::ALL[i])),
    ];
    leaf.prop_recursive(4, 16, 3, |inner| {
        // the operator subset that bindgen's evaluator supports is weighted up, so that most
        // macros end up emitted (and compared) rather than omitted
        let binop = prop_oneof![
            10 => (0usize..10).prop_map(|i| BinOp::ALL[i]),
            2 => (10usize..BinOp::ALL.len()).prop_map(|i| BinOp::ALL[i]),
        ];
        prop_oneof![
            8 => (binop, inner.clone(), inner.clone()).prop_map(|(o, a, b)| IExpr::Bin(o, Box::new(a), Box::new(b))),
            3 => (prop_oneof![3 => Just(UnOp::Neg), 3 => Just(UnOp::BitNot), 1 => Just(UnOp::LogNot), 1 => Just(UnOp::Plus)], inner.clone())
                .prop_map(|(o, a)| IExpr::Un(o, Box::new(a))),
            1 => (inner.clone(), inner.clone(), inner.clone()).prop_map(|(c, a, b)| IExpr::Cond(Box::new(c), Box::new(a), Box::new(b))),
            1 => ((0..CastTy::ALL.len()), inner).prop_map(|(t, a)| IExpr::Cast(CastTy::ALL[t], Box::new(a))),
        ]
    })
    .boxed()
}

// ------------------------------------------------------------------------------------------
// float expressions

pub const FLOAT_LITS: &[&str] = &[
    "0.0",
    "1.0",
    "1.5",
    "0.1",
    "2.",
    ".5",
    "1e3",
    "1.5e-3",
    "3.4028235e38",
    "1e39",
    "1e-46",
    "1.7976931348623157e308",
    "4.9e-324",
    "123456789.125",
    "16777217.0",
    "0.30000000000000004",
    "3.141592653589793",
    "2.718281828459045",
    "1E+2",
    "6.02214076e23",
];

#[derive(Clone, Debug, Serialize, Deserialize, PartialEq)]
pub enum FExpr {
    /// index into FLOAT_LITS, suffix: 0 none, 1 f, 2 F, 3 l, 4 L
    Lit(usize, u8),
    Int(u32),
    Ref(u16),
    Neg(Box<FExpr>),
    /// 0 + 1 - 2 * 3 /
    Bin(u8, Box<FExpr>, Box<FExpr>),
}

fn f_int_typed(e: &FExpr) -> bool {
    match e {
        FExpr::Int(_) => true,
        FExpr::Lit(..) | FExpr::Ref(_) => false,
        FExpr::Neg(a) => f_int_typed(a),
        FExpr::Bin(_, a, b) => f_int_typed(a) && f_int_typed(b),
    }
}

/// Integers only take part next to a floating operand, so that the macro has a floating type
/// in C and no integer division can be undefined.
pub fn ffix(e: FExpr) -> FExpr {
    fn go(e: FExpr) -> FExpr {
        match e {
            FExpr::Neg(a) => FExpr::Neg(Box::new(go(*a))),
            FExpr::Bin(o, a, b) => {
                let (mut a, b) = (go(*a), go(*b));
                if f_int_typed(&a) && f_int_typed(&b) {
                    a = FExpr::Lit(2, 0);
                }
                FExpr::Bin(o, Box::new(a), Box::new(b))
            }
            other => other,
        }
    }
    let e = go(e);
    if f_int_typed(&e) {
        FExpr::Lit(2, 0)
    } else {
        e
    }
}

pub fn frender(e: &FExpr, names: &[String]) -> String {
    match e {
        FExpr::Lit(i, s) => format!("{}{}", FLOAT_LITS[*i % FLOAT_LITS.len()], ["", "f", "F", "l", "L"][*s as usize % 5]),
        FExpr::Int(v) => format!("{v}"),
        FExpr::Ref(i) => {
            if names.is_empty() {
                "1.0".into()
            } else {
                names[(*i as usize * names.len()) >> 16].clone()
            }
        }
        FExpr::Neg(a) => format!("-({})", frender(a, names)),
        FExpr::Bin(o, a, b) => format!("({} {} {})", frender(a, names), ["+", "-", "*", "/"][*o as usize % 4], frender(b, names)),
    }
}

/// (uses float-typed operands, uses long double operands, has arithmetic)
pub fn fprecision(e: &FExpr, refs: &[(bool, bool, bool)]) -> (bool, bool, bool) {
    match e {
        FExpr::Lit(_, s) => (matches!(s % 5, 1 | 2), matches!(s % 5, 3 | 4), false),
        FExpr::Int(_) => (false, false, false),
        FExpr::Ref(i) => {
            if refs.is_empty() {
                (false, false, false)
            } else {
                refs[(*i as usize * refs.len()) >> 16]
            }
        }
        FExpr::Neg(a) => fprecision(a, refs),
        FExpr::Bin(_, a, b) => {
            let x = fprecision(a, refs);
            let y = fprecision(b, refs);
            (x.0 || y.0, x.1 || y.1, true)
        }
    }
}

pub fn fexpr_strategy() -> BoxedStrategy<FExpr> {
    let leaf = prop_oneof![
        6 => (0..FLOAT_LITS.len(), prop_oneof![5 => Just(0u8), 1 => 1u8..5]).prop_map(|(i, s)| FExpr::Lit(i, s)),
        1 => (0u32..1000).prop_map(FExpr::Int),
        2 => any::<u16>().prop_map(FExpr::Ref),
    ];
    leaf.prop_recursive(3, 8, 2, |inner| {
        prop_oneof![
            3 => (0u8..4, inner.clone(), inner.clone()).prop_map(|(o, a, b)| FExpr::Bin(o, Box::new(a), Box::new(b))),
            1 => inner.prop_map(|a| FExpr::Neg(Box::new(a))),
        ]
    })
    .boxed()
}

// ------------------------------------------------------------------------------------------
// strings

#[derive(Clone, Debug, Serialize, Deserialize, PartialEq, Eq)]
pub enum SChar {
    Plain(u8),
    /// n t r 0 \\ " ' a b f v
    Esc(u8),
    Hex(u8),
    Oct(u8),
    Utf8(char),
}

#[derive(Clone, Debug, Serialize, Deserialize, PartialEq, Eq)]
pub enum SPart {
    Lit(Vec<SChar>),
    Ref(u16),
}

const ESCS: &[(u8, u8)] = &[(b'n', b'\n'), (b't', b'\t'), (b'r', b'\r'), (b'0', 0), (b'\\', b'\\'), (b'"', b'"'), (b'\'', b'\''), (b'a', 7), (b'b', 8), (b'f', 12), (b'v', 11)];

fn plain_ok(c: u8) -> bool {
    (0x20..=0x7e).contains(&c) && c != b'"' && c != b'\\' && c != b'?'
}

/// C spelling of the parts and the bytes they denote (without the terminating NUL).
pub fn srender(parts: &[SPart], names: &[String], values: &[Vec<u8>]) -> (String, Vec<u8>) {
    let mut text = String::new();
    let mut bytes = vec![];
    for p in parts {
        if !text.is_empty() {
            text.push(' ');
        }
        match p {
            SPart::Ref(i) => {
                if names.is_empty() {
                    text.push_str("\"\"");
                } else {
                    let k = (*i as usize * names.len()) >> 16;
                    text.push_str(&names[k]);
                    bytes.extend_from_slice(&values[k]);
                }
            }
            SPart::Lit(cs) => {
                text.push('"');
                for c in cs {
                    match c {
                        SChar::Plain(b) => {
                            let b = if plain_ok(*b) { *b } else { b'a' + (*b % 26) };
                            text.push(b as char);
                            bytes.push(b);
                        }
                        SChar::Esc(k) => {
                            let (ch, v) = ESCS[*k as usize % ESCS.len()];
                            text.push('\\');
                            text.push(ch as char);
                            bytes.push(v);
                        }
                        SChar::Hex(v) => {
                            // a hex escape swallows following hex digits: close the literal
                            text.push_str(&format!("\\x{v:02x}\" \""));
                            bytes.push(*v);
                        }
                        SChar::Oct(v) => {
                            text.push_str(&format!("\\{v:03o}"));
                            bytes.push(*v);
                        }
                        SChar::Utf8(ch) => {
                            let ch = if (*ch as u32) < 0x80 || ch.is_control() { 'é' } else { *ch };
                            text.push(ch);
                            let mut buf = [0u8; 4];
                            bytes.extend_from_slice(ch.encode_utf8(&mut buf).as_bytes());
                        }
                    }
                }
                text.push('"');
            }
        }
    }
    (text, bytes)
}

pub fn sparts_strategy() -> BoxedStrategy<Vec<SPart>> {
    let ch = prop_oneof![
        10 => (0x20u8..0x7f).prop_map(SChar::Plain),
        2 => (0u8..ESCS.len() as u8).prop_map(SChar::Esc),
        1 => any::<u8>().prop_map(SChar::Hex),
        1 => any::<u8>().prop_map(SChar::Oct),
        1 => prop_oneof![Just('é'), Just('ß'), Just('√'), Just('日'), Just('😀')].prop_map(SChar::Utf8),
    ];
    let part = prop_oneof![
        5 => proptest::collection::vec(ch, 0..12).prop_map(SPart::Lit),
        1 => any::<u16>().prop_map(SPart::Ref),
    ];
    proptest::collection::vec(part, 1..4).boxed()
}
