//! C13 — builder configuration <-> command-line flags round trip.
//! G-BUILDER: sequences of builder calls (table below, checked against options/mod.rs),
//! oracle: b1 -> flags -> b2 -> flags' (list equality) and generate(b1) == generate(b2);
//! flag <-> method equivalence for every table row with a documented flag; defaults.

use crate::bg::{self, BgResult};
use crate::engine::{fnv, Env, Outcome, Property, Tier};
use crate::worker::{self, Reply, ServerIo};
use proptest::prelude::*;
use serde::{Deserialize, Serialize};
use serde_json::{json, Value};
use std::path::Path;
use std::str::FromStr;

pub struct C13;

#[derive(Clone, Debug, Serialize, Deserialize, PartialEq, Eq, Hash)]
pub enum Op {
    /// nullary builder method
    Nullary(String),
    /// method(bool)
    Bool(String, bool),
    /// method(string-like): regex sets and plain strings
    Str(String, String),
    /// method(path) — value is relative to the scratch dir
    PathArg(String, String),
    EnumStyle(String),
    MacroType(String),
    AliasStyle(String),
    UnionStyle(String),
    Formatter(String),
    Visibility(String),
    RustTarget(String),
    RustEdition(String),
    ModuleRawLine(String, String),
    OverrideAbi(String, String),
    CodegenConfig(u32),
    Depfile(String, String),
    RustfmtConfig(Option<String>),
    ClangArg(String),
    FieldAttr(String, String, String),
    /// `.header(extra_<k>.h)`: one more input header (the worker writes three of them)
    Header(u8),
}

pub const NULLARY: &[(&str, &str)] = &[
    ("emit_builtins", "--builtins"),
    ("emit_clang_ast", "--emit-clang-ast"),
    ("emit_ir", "--emit-ir"),
    ("enable_cxx_namespaces", "--enable-cxx-namespaces"),
    ("enable_function_attribute_detection", "--enable-function-attribute-detection"),
    ("disable_name_namespacing", "--disable-name-namespacing"),
    ("disable_nested_struct_naming", "--disable-nested-struct-naming"),
    ("disable_header_comment", "--disable-header-comment"),
    ("use_core", "--use-core"),
    ("no_convert_floats", "--no-convert-floats"),
    ("ignore_functions", "--ignore-functions"),
    ("ignore_methods", "--ignore-methods"),
    ("conservative_inline_namespaces", "--conservative-inline-namespaces"),
    ("disable_untagged_union", "--disable-untagged-union"),
    ("emit_diagnostics", "--emit-diagnostics"),
    ("clang_macro_fallback", "--clang-macro-fallback"),
];

/// (method, flag, value of `doit` for which the flag is the documented equivalent)
pub const BOOLS: &[(&str, &str, bool)] = &[
    ("use_specific_virtual_function_receiver", "--use-specific-virtual-function-receiver", true),
    ("use_distinct_char16_t", "--use-distinct-char16-t", true),
    ("represent_cxx_operators", "--represent-cxx-operators", true),
    ("layout_tests", "--no-layout-tests", false),
    ("impl_debug", "--impl-debug", true),
    ("impl_partialeq", "--impl-partialeq", true),
    ("derive_copy", "--no-derive-copy", false),
    ("derive_debug", "--no-derive-debug", false),
    ("derive_default", "--with-derive-default", true),
    ("derive_hash", "--with-derive-hash", true),
    ("derive_partialord", "--with-derive-partialord", true),
    ("derive_ord", "--with-derive-ord", true),
    ("derive_partialeq", "--with-derive-partialeq", true),
    ("derive_eq", "--with-derive-eq", true),
    ("time_phases", "--time-phases", true),
    ("generate_comments", "--no-doc-comments", false),
    ("generate_cxx_nonnull_references", "--nonnull-references", true),
    ("generate_inline_functions", "--generate-inline-functions", true),
    ("allowlist_recursively", "--no-recursive-allowlist", false),
    ("objc_extern_crate", "--objc-extern-crate", true),
    ("generate_block", "--generate-block", true),
    ("generate_cstr", "--generate-cstr", true),
    ("block_extern_crate", "--block-extern-crate", true),
    ("trust_clang_mangling", "--distrust-clang-mangling", false),
    ("detect_include_paths", "--no-include-path-detection", false),
    ("fit_macro_constants", "--fit-macro-constant-types", true),
    ("prepend_enum_name", "--no-prepend-enum-name", false),
    ("record_matches", "--no-record-matches", false),
    ("size_t_is_usize", "--no-size_t-is-usize", false),
    ("rustfmt_bindings", "--no-rustfmt-bindings", false),
    ("array_pointers_in_arguments", "--use-array-pointers-in-arguments", true),
    ("dynamic_link_require_all", "--dynamic-link-require-all", true),
    ("respect_cxx_access_specs", "--respect-cxx-access-specs", true),
    ("translate_enum_integer_types", "--translate-enum-integer-types", true),
    ("c_naming", "--c-naming", true),
    ("explicit_padding", "--explicit-padding", true),
    ("vtable_generation", "--vtable-generation", true),
    ("sort_semantically", "--sort-semantically", true),
    ("merge_extern_blocks", "--merge-extern-blocks", true),
    ("wrap_unsafe_ops", "--wrap-unsafe-ops", true),
    ("flexarray_dst", "--flexarray-dst", true),
    ("wrap_static_fns", "--wrap-static-fns", true),
    ("generate_deleted_functions", "--generate-deleted-functions", true),
    ("generate_pure_virtual_functions", "--generate-pure-virtual-functions", true),
    ("generate_private_functions", "--generate-private-functions", true),
];

/// string-valued methods: (method, flag, is_regex)
pub const STRS: &[(&str, &str, bool)] = &[
    ("blocklist_type", "--blocklist-type", true),
    ("blocklist_function", "--blocklist-function", true),
    ("blocklist_item", "--blocklist-item", true),
    ("blocklist_file", "--blocklist-file", true),
    ("blocklist_var", "--blocklist-var", true),
    ("opaque_type", "--opaque-type", true),
    ("allowlist_type", "--allowlist-type", true),
    ("allowlist_function", "--allowlist-function", true),
    ("allowlist_var", "--allowlist-var", true),
    ("allowlist_file", "--allowlist-file", true),
    ("allowlist_item", "--allowlist-item", true),
    ("bitfield_enum", "--bitfield-enum", true),
    ("newtype_enum", "--newtype-enum", true),
    ("newtype_global_enum", "--newtype-global-enum", true),
    ("rustified_enum", "--rustified-enum", true),
    ("rustified_non_exhaustive_enum", "--rustified-non-exhaustive-enum", true),
    ("constified_enum_module", "--constified-enum-module", true),
    ("constified_enum", "--constified-enum", true),
    ("type_alias", "--normal-alias", true),
    ("new_type_alias", "--new-type-alias", true),
    ("new_type_alias_deref", "--new-type-alias-deref", true),
    ("bindgen_wrapper_union", "--bindgen-wrapper-union", true),
    ("manually_drop_union", "--manually-drop-union", true),
    ("no_partialeq", "--no-partialeq", true),
    ("no_copy", "--no-copy", true),
    ("no_debug", "--no-debug", true),
    ("no_default", "--no-default", true),
    ("no_hash", "--no-hash", true),
    ("must_use_type", "--must-use-type", true),
    ("ctypes_prefix", "--ctypes-prefix", false),
    ("anon_fields_prefix", "--anon-fields-prefix", false),
    ("raw_line", "--raw-line", false),
    ("extern_fn_block_attrs", "--extern-fn-block-attrs", false),
    ("wasm_import_module_name", "--wasm-import-module-name", false),
    ("dynamic_library_name", "--dynamic-loading", false),
    ("wrap_static_fns_suffix", "--wrap-static-fns-suffix", false),
];

pub const PATHS: &[(&str, &str)] = &[
    ("emit_ir_graphviz", "--emit-ir-graphviz"),
    ("wrap_static_fns_path", "--wrap-static-fns-path"),
    ("clang_macro_fallback_build_dir", "--clang-macro-fallback-build-dir"),
];

const ENUM_STYLES: &[&str] = &["bitfield", "newtype", "newtype_global", "rust", "rust_non_exhaustive", "moduleconsts", "consts", "bitfield_global"];
const MACRO_TYPES: &[&str] = &["signed", "unsigned"];
const ALIAS_STYLES: &[&str] = &["type_alias", "new_type", "new_type_deref"];
const UNION_STYLES: &[&str] = &["bindgen_wrapper", "manually_drop"];
const FORMATTERS: &[&str] = &["none", "rustfmt", "prettyplease"];
const VISIBILITIES: &[&str] = &["private", "crate", "public"];
const ABIS: &[&str] = &["C", "stdcall", "efiapi", "fastcall", "thiscall", "vectorcall", "aapcs", "win64", "C-unwind", "system"];
const TARGETS: &[&str] = &["1.51", "1.59", "1.64", "1.68.1", "1.71", "1.73", "1.77", "1.82", "1.85.0", "nightly"];
const EDITIONS: &[&str] = &["2018", "2021", "2024"];

/// Methods that exist on Builder but are outside the round trip by design (DESIGN C13).
const EXCLUDED_METHODS: &[&str] = &[
    "command_line_flags",
    "header",
    "headers",
    "clang_args",
    "header_contents",
    "parse_callbacks",
    "with_rustfmt",
    "generate",
    "dump_preprocessed_input",
];

fn enum_style(s: &str) -> Option<bindgen::EnumVariation> {
    use bindgen::EnumVariation as E;
    Some(match s {
        "bitfield" => E::NewType { is_bitfield: true, is_global: false },
        "bitfield_global" => E::NewType { is_bitfield: true, is_global: true },
        "newtype" => E::NewType { is_bitfield: false, is_global: false },
        "newtype_global" => E::NewType { is_bitfield: false, is_global: true },
        "rust" => E::Rust { non_exhaustive: false },
        "rust_non_exhaustive" => E::Rust { non_exhaustive: true },
        "moduleconsts" => E::ModuleConsts,
        "consts" => E::Consts,
        _ => return None,
    })
}

pub fn apply(b: bindgen::Builder, op: &Op, dir: &Path) -> Result<bindgen::Builder, String> {
    let p = |rel: &str| dir.join(rel);
    Ok(match op {
        Op::Nullary(m) => match m.as_str() {
            "emit_builtins" => b.emit_builtins(),
            "emit_clang_ast" => b.emit_clang_ast(),
            "emit_ir" => b.emit_ir(),
            "enable_cxx_namespaces" => b.enable_cxx_namespaces(),
            "enable_function_attribute_detection" => b.enable_function_attribute_detection(),
            "disable_name_namespacing" => b.disable_name_namespacing(),
            "disable_nested_struct_naming" => b.disable_nested_struct_naming(),
            "disable_header_comment" => b.disable_header_comment(),
            "use_core" => b.use_core(),
            "no_convert_floats" => b.no_convert_floats(),
            "ignore_functions" => b.ignore_functions(),
            "ignore_methods" => b.ignore_methods(),
            "conservative_inline_namespaces" => b.conservative_inline_namespaces(),
            "disable_untagged_union" => b.disable_untagged_union(),
            "emit_diagnostics" => b.emit_diagnostics(),
            "clang_macro_fallback" => b.clang_macro_fallback(),
            _ => return Err(format!("unknown nullary {m}")),
        },
        Op::Bool(m, v) => {
            let v = *v;
            match m.as_str() {
                "use_specific_virtual_function_receiver" => b.use_specific_virtual_function_receiver(v),
                "use_distinct_char16_t" => b.use_distinct_char16_t(v),
                "represent_cxx_operators" => b.represent_cxx_operators(v),
                "layout_tests" => b.layout_tests(v),
                "impl_debug" => b.impl_debug(v),
                "impl_partialeq" => b.impl_partialeq(v),
                "derive_copy" => b.derive_copy(v),
                "derive_debug" => b.derive_debug(v),
                "derive_default" => b.derive_default(v),
                "derive_hash" => b.derive_hash(v),
                "derive_partialord" => b.derive_partialord(v),
                "derive_ord" => b.derive_ord(v),
                "derive_partialeq" => b.derive_partialeq(v),
                "derive_eq" => b.derive_eq(v),
                "time_phases" => b.time_phases(v),
                "generate_comments" => b.generate_comments(v),
                "generate_cxx_nonnull_references" => b.generate_cxx_nonnull_references(v),
                "generate_inline_functions" => b.generate_inline_functions(v),
                "allowlist_recursively" => b.allowlist_recursively(v),
                "objc_extern_crate" => b.objc_extern_crate(v),
                "generate_block" => b.generate_block(v),
                "generate_cstr" => b.generate_cstr(v),
                "block_extern_crate" => b.block_extern_crate(v),
                "trust_clang_mangling" => b.trust_clang_mangling(v),
                "detect_include_paths" => b.detect_include_paths(v),
                "fit_macro_constants" => b.fit_macro_constants(v),
                "prepend_enum_name" => b.prepend_enum_name(v),
                "record_matches" => b.record_matches(v),
                "size_t_is_usize" => b.size_t_is_usize(v),
                #[allow(deprecated)]
                "rustfmt_bindings" => b.rustfmt_bindings(v),
                "array_pointers_in_arguments" => b.array_pointers_in_arguments(v),
                "dynamic_link_require_all" => b.dynamic_link_require_all(v),
                "respect_cxx_access_specs" => b.respect_cxx_access_specs(v),
                "translate_enum_integer_types" => b.translate_enum_integer_types(v),
                "c_naming" => b.c_naming(v),
                "explicit_padding" => b.explicit_padding(v),
                "vtable_generation" => b.vtable_generation(v),
                "sort_semantically" => b.sort_semantically(v),
                "merge_extern_blocks" => b.merge_extern_blocks(v),
                "wrap_unsafe_ops" => b.wrap_unsafe_ops(v),
                "flexarray_dst" => b.flexarray_dst(v),
                "wrap_static_fns" => b.wrap_static_fns(v),
                "generate_deleted_functions" => b.generate_deleted_functions(v),
                "generate_pure_virtual_functions" => b.generate_pure_virtual_functions(v),
                "generate_private_functions" => b.generate_private_functions(v),
                _ => return Err(format!("unknown bool {m}")),
            }
        }
        Op::Str(m, s) => {
            let s = s.as_str();
            match m.as_str() {
                "blocklist_type" => b.blocklist_type(s),
                "blocklist_function" => b.blocklist_function(s),
                "blocklist_item" => b.blocklist_item(s),
                "blocklist_file" => b.blocklist_file(s),
                "blocklist_var" => b.blocklist_var(s),
                "opaque_type" => b.opaque_type(s),
                "allowlist_type" => b.allowlist_type(s),
                "allowlist_function" => b.allowlist_function(s),
                "allowlist_var" => b.allowlist_var(s),
                "allowlist_file" => b.allowlist_file(s),
                "allowlist_item" => b.allowlist_item(s),
                "bitfield_enum" => b.bitfield_enum(s),
                "newtype_enum" => b.newtype_enum(s),
                "newtype_global_enum" => b.newtype_global_enum(s),
                "rustified_enum" => b.rustified_enum(s),
                "rustified_non_exhaustive_enum" => b.rustified_non_exhaustive_enum(s),
                "constified_enum_module" => b.constified_enum_module(s),
                "constified_enum" => b.constified_enum(s),
                "type_alias" => b.type_alias(s),
                "new_type_alias" => b.new_type_alias(s),
                "new_type_alias_deref" => b.new_type_alias_deref(s),
                "bindgen_wrapper_union" => b.bindgen_wrapper_union(s),
                "manually_drop_union" => b.manually_drop_union(s),
                "no_partialeq" => b.no_partialeq(s),
                "no_copy" => b.no_copy(s),
                "no_debug" => b.no_debug(s),
                "no_default" => b.no_default(s),
                "no_hash" => b.no_hash(s),
                "must_use_type" => b.must_use_type(s),
                "ctypes_prefix" => b.ctypes_prefix(s),
                "anon_fields_prefix" => b.anon_fields_prefix(s),
                "raw_line" => b.raw_line(s),
                "extern_fn_block_attrs" => b.extern_fn_block_attrs(s),
                "wasm_import_module_name" => b.wasm_import_module_name(s),
                "dynamic_library_name" => b.dynamic_library_name(s),
                "wrap_static_fns_suffix" => b.wrap_static_fns_suffix(s),
                _ => return Err(format!("unknown str {m}")),
            }
        }
        Op::PathArg(m, rel) => match m.as_str() {
            "emit_ir_graphviz" => b.emit_ir_graphviz(p(rel).to_str().unwrap()),
            "wrap_static_fns_path" => b.wrap_static_fns_path(p(rel)),
            "clang_macro_fallback_build_dir" => b.clang_macro_fallback_build_dir(p(rel)),
            _ => return Err(format!("unknown path {m}")),
        },
        Op::EnumStyle(s) => b.default_enum_style(enum_style(s).ok_or("enum style")?),
        Op::MacroType(s) => b.default_macro_constant_type(bindgen::MacroTypeVariation::from_str(s).map_err(|e| e.to_string())?),
        Op::AliasStyle(s) => b.default_alias_style(bindgen::AliasVariation::from_str(s).map_err(|e| e.to_string())?),
        Op::UnionStyle(s) => b.default_non_copy_union_style(bindgen::NonCopyUnionStyle::from_str(s).map_err(|e| e.to_string())?),
        Op::Formatter(s) => b.formatter(bindgen::Formatter::from_str(s)?),
        Op::Visibility(s) => b.default_visibility(bindgen::FieldVisibilityKind::from_str(s)?),
        Op::RustTarget(s) => b.rust_target(bindgen::RustTarget::from_str(s).map_err(|e| e.to_string())?),
        Op::RustEdition(s) => b.rust_edition(bindgen::RustEdition::from_str(s).map_err(|e| e.to_string())?),
        Op::ModuleRawLine(m, l) => b.module_raw_line(m.as_str(), l.as_str()),
        Op::OverrideAbi(abi, re) => b.override_abi(bindgen::Abi::from_str(abi)?, re.as_str()),
        Op::CodegenConfig(bits) => b.with_codegen_config(bindgen::CodegenConfig::from_bits_truncate(*bits)),
        Op::Depfile(target, rel) => b.depfile(target.as_str(), p(rel)),
        Op::RustfmtConfig(rel) => b.rustfmt_configuration_file(rel.as_ref().map(|r| p(r))),
        Op::ClangArg(a) => b.clang_arg(a.as_str()),
        Op::Header(k) => b.header(dir.join(format!("extra_{}.h", k % 3)).to_str().unwrap()),
        Op::FieldAttr(t, f, a) => b.field_attribute(t.as_str(), f.as_str(), a.as_str()),
    })
}

/// The command-line spelling that documents the same setting, if there is one.
pub fn cli_form(op: &Op, dir: &Path) -> Option<Vec<String>> {
    let p = |rel: &str| dir.join(rel).to_str().unwrap().to_string();
    match op {
        // documented as requiring --experimental
        Op::Nullary(m) if m == "emit_diagnostics" => Some(vec!["--emit-diagnostics".into(), "--experimental".into()]),
        Op::Nullary(m) => NULLARY.iter().find(|x| x.0 == m).map(|x| vec![x.1.to_string()]),
        Op::Bool(m, v) => BOOLS.iter().find(|x| x.0 == m && x.2 == *v).map(|x| vec![x.1.to_string()]),
        Op::Str(m, s) => STRS.iter().find(|x| x.0 == m).map(|x| vec![x.1.to_string(), s.clone()]),
        Op::PathArg(m, rel) => PATHS.iter().find(|x| x.0 == m).map(|x| vec![x.1.to_string(), p(rel)]),
        // the global bit-field newtype has no command-line spelling
        Op::EnumStyle(s) if s == "bitfield_global" => None,
        Op::EnumStyle(s) => Some(vec!["--default-enum-style".into(), s.clone()]),
        Op::MacroType(s) => Some(vec!["--default-macro-constant-type".into(), s.clone()]),
        Op::AliasStyle(s) => Some(vec!["--default-alias-style".into(), s.clone()]),
        Op::UnionStyle(s) => Some(vec!["--default-non-copy-union-style".into(), s.clone()]),
        Op::Formatter(s) => Some(vec!["--formatter".into(), s.clone()]),
        Op::Visibility(s) => Some(vec!["--default-visibility".into(), s.clone()]),
        Op::RustTarget(s) => Some(vec!["--rust-target".into(), s.clone()]),
        Op::RustEdition(s) => Some(vec!["--rust-edition".into(), s.clone()]),
        Op::ModuleRawLine(m, l) => Some(vec!["--module-raw-line".into(), m.clone(), l.clone()]),
        Op::OverrideAbi(abi, re) => Some(vec!["--override-abi".into(), format!("{re}={abi}")]),
        Op::CodegenConfig(bits) => {
            let names = ["functions", "types", "vars", "methods", "constructors", "destructors"];
            let sel: Vec<&str> = names.iter().enumerate().filter(|(i, _)| bits & (1 << i) != 0).map(|(_, n)| *n).collect();
            Some(vec!["--generate".into(), sel.join(",")])
        }
        Op::Depfile(_, _) => None, // the CLI derives the depfile target from --output
        Op::RustfmtConfig(Some(rel)) => Some(vec!["--rustfmt-configuration-file".into(), p(rel)]),
        Op::RustfmtConfig(None) => None,
        Op::ClangArg(_) => None,
        Op::Header(_) => None,
        Op::FieldAttr(t, f, a) => Some(vec!["--field-attr".into(), format!("{t}::{f}={a}")]),
    }
}

pub const HEADER_CPP: &str = r#"
#define MACRO_A 1
#define MACRO_B 0xffffffffff
#define MACRO_S "str"
namespace ns { struct Inner { int x; float f; }; namespace deep { enum E2 { E2_A, E2_B = 5 }; } }
enum E { E_A, E_B = 2, E_C = -1 };
enum class EC : unsigned char { A, B };
union U { int i; float f; char c[5]; };
struct NonCopy { ~NonCopy(); int v; };
union UN { NonCopy n; int i; };
typedef int MyInt;
typedef struct Foo { int a; MyInt b; E e; union U u; struct { int p, q; }; unsigned bf : 3; int arr[40]; } Foo;
template <typename T> struct Tmpl { T t; T* p; };
struct Bar : Foo { Tmpl<int> ti; ns::Inner inner; virtual void vm(); virtual ~Bar(); private: int priv; };
struct Fam { int n; int data[]; };
/// doc comment
int foo_fn(int a, const char* s, int arr[3]);
[[nodiscard]] int must(int);
void foo_other(Foo* f, Bar& b);
static inline int st_inline(int x) { return x + 1; }
extern int global_var;
extern const char *const cstr_var;
class WithMethods { public: WithMethods(); ~WithMethods(); int m(int) const; static int sm(); void deleted() = delete; virtual int pv() = 0; private: void hidden(); };
"#;

pub const HEADER_C: &str = r#"
#define MACRO_A 1
#define MACRO_NEG -5
#define MACRO_S "str"
enum E { E_A, E_B = 2, E_C = -1 };
union U { int i; float f; char c[5]; };
typedef int MyInt;
typedef struct Foo { int a; MyInt b; enum E e; union U u; struct { int p, q; }; unsigned bf : 3; int arr[40]; struct Nested { char n; } nested; } Foo;
struct Fam { int n; int data[]; };
struct Fwd;
int foo_fn(int a, const char* s, int arr[3]);
void foo_other(Foo* f, struct Fwd* fw);
static inline int st_inline(int x) { return x + 1; }
extern int global_var;
extern const char *const cstr_var;
typedef void (*Callback)(int, Foo*);
"#;

fn name_pool() -> Vec<&'static str> {
    vec!["Foo", "Bar", "foo_fn", "ns::Inner", "E", "EC", "U", "UN", "MACRO_A", "Tmpl", ".*", "Foo|Bar", "foo_.*", "[A-Z].*", "E_.*", "MyInt", "global_var", "Fo", "oo", "WithMethods", "Callback"]
}
fn awkward_pool() -> Vec<&'static str> {
    vec!["with space", "quo\"te", "sq'd", "a=b", "\u{fc}n\u{ef}", "", "tab\there", "$x", "back\\slash", "#hash", "a,b", "::core::ffi", "x y=z"]
}
fn dash_pool() -> Vec<&'static str> {
    vec!["-x", "--foo", "-", "-I."]
}
fn rust_item_pool() -> Vec<&'static str> {
    vec!["pub const RAW: u8 = 1;", "use core::ffi as cffi;", "#[allow(dead_code)] fn raw() {}", "// just a comment", "pub type RawT = u16;"]
}

fn str_value(is_regex: bool, method: &'static str) -> BoxedStrategy<String> {
    let names = name_pool();
    let awk = awkward_pool();
    let dash = dash_pool();
    let items = rust_item_pool();
    if method == "raw_line" {
        return prop_oneof![
            32 => (0..items.len()).prop_map(move |i| items[i].to_string()),
            8 => (0..awk.len()).prop_map(move |i| awk[i].to_string()),
            1 => (0..dash.len()).prop_map(move |i| dash[i].to_string()),
        ]
        .boxed();
    }
    if is_regex {
        prop_oneof![
            40 => (0..names.len()).prop_map(move |i| names[i].to_string()),
            8 => (0..awk.len()).prop_map(move |i| awk[i].to_string()),
            1 => (0..dash.len()).prop_map(move |i| dash[i].to_string()),
        ]
        .boxed()
    } else {
        let idents = vec!["pfx", "crate::ffi", "::core::ffi", "my_mod", "__anon", "lib", "_w"];
        prop_oneof![
            24 => (0..idents.len()).prop_map(move |i| idents[i].to_string()),
            12 => (0..awk.len()).prop_map(move |i| awk[i].to_string()),
            1 => (0..dash.len()).prop_map(move |i| dash[i].to_string()),
        ]
        .boxed()
    }
}

pub fn op_strategy() -> BoxedStrategy<Op> {
    let pick = |v: &'static [&'static str]| (0..v.len()).prop_map(move |i| v[i].to_string());
    prop_oneof![
        6 => (0..NULLARY.len()).prop_map(|i| Op::Nullary(NULLARY[i].0.to_string())),
        14 => (0..BOOLS.len(), any::<bool>()).prop_map(|(i, v)| Op::Bool(BOOLS[i].0.to_string(), v)),
        14 => (0..STRS.len()).prop_flat_map(|i| str_value(STRS[i].2, STRS[i].0).prop_map(move |s| Op::Str(STRS[i].0.to_string(), s))),
        2 => (0..PATHS.len(), prop_oneof![Just("out dir/f"), Just("plain"), Just("a=b/c")]).prop_map(|(i, r)| Op::PathArg(PATHS[i].0.to_string(), r.to_string())),
        3 => pick(ENUM_STYLES).prop_map(Op::EnumStyle),
        1 => pick(MACRO_TYPES).prop_map(Op::MacroType),
        2 => pick(ALIAS_STYLES).prop_map(Op::AliasStyle),
        1 => pick(UNION_STYLES).prop_map(Op::UnionStyle),
        4 => pick(FORMATTERS).prop_map(Op::Formatter),
        1 => pick(VISIBILITIES).prop_map(Op::Visibility),
        2 => pick(TARGETS).prop_map(Op::RustTarget),
        1 => pick(EDITIONS).prop_map(Op::RustEdition),
        2 => (prop_oneof![Just("ns"), Just("ns::deep"), Just("root"), Just("with space")], (0..rust_item_pool().len())).prop_map(|(m, i)| Op::ModuleRawLine(m.to_string(), rust_item_pool()[i].to_string())),
        2 => (pick(ABIS), prop_oneof![Just("foo_fn"), Just("foo_.*"), Just(".*"), Just("a=b"), Just("must")]).prop_map(|(a, r)| Op::OverrideAbi(a, r.to_string())),
        2 => (0u32..64).prop_map(Op::CodegenConfig),
        1 => (prop_oneof![Just("out.rs"), Just("my target"), Just("t\\x")], prop_oneof![Just("dep.d"), Just("dir with space/dep.d")]).prop_map(|(t, p)| Op::Depfile(t.to_string(), p.to_string())),
        1 => prop_oneof![Just(None), Just(Some("rustfmt.toml".to_string()))].prop_map(Op::RustfmtConfig),
        2 => prop_oneof![Just("-DX=1"), Just("-I."), Just("-std=c++17"), Just("-DY=\"a b\""), Just("-Wall")].prop_map(|s| Op::ClangArg(s.to_string())),
        2 => (0u8..3).prop_map(Op::Header),
        1 => (prop_oneof![Just("Foo"), Just("ns::Inner"), Just(".*")], prop_oneof![Just("a"), Just("x"), Just(".*")], prop_oneof![Just("#[allow(dead_code)]"), Just("#[cfg(all())]"), Just("a=b")]).prop_map(|(t, f, a)| Op::FieldAttr(t.to_string(), f.to_string(), a.to_string())),
    ]
    .boxed()
}

/// Extra flags only reachable through the CLI (they install callbacks with `cli_args`).
fn cli_only_strategy() -> BoxedStrategy<Vec<String>> {
    let one = prop_oneof![
        Just(vec!["--with-derive-custom".to_string(), "Foo=Clone".to_string()]),
        Just(vec!["--with-derive-custom-struct".to_string(), "Foo|Bar=PartialOrd,Hash".to_string()]),
        Just(vec!["--with-derive-custom-enum".to_string(), "E=Hash".to_string()]),
        Just(vec!["--with-derive-custom-union".to_string(), "U=Clone".to_string()]),
        // regex parts that contain '=' themselves (item names never do, so each is equivalent
        // to the plain spelling in `equiv_plain`)
        Just(vec!["--with-derive-custom".to_string(), "Foo|a=b=Clone".to_string()]),
        Just(vec!["--with-derive-custom-struct".to_string(), "[F=]oo|Bar=PartialOrd,Hash".to_string()]),
        Just(vec!["--with-derive-custom-enum".to_string(), "E|x=y=Hash".to_string()]),
        Just(vec!["--with-derive-custom-union".to_string(), "U|=z=Clone".to_string()]),
        Just(vec!["--with-attribute-custom".to_string(), "Foo=#[allow(dead_code)]".to_string()]),
        Just(vec!["--with-attribute-custom-struct".to_string(), "Foo=#[cfg(all())]".to_string()]),
        Just(vec!["--with-attribute-custom-enum".to_string(), "E=#[allow(unused)]".to_string()]),
        Just(vec!["--with-attribute-custom-union".to_string(), "U=#[allow(unused)]".to_string()]),
        Just(vec!["--prefix-link-name".to_string(), "pfx_".to_string()]),
    ];
    prop_oneof![
        3 => Just(vec![]),
        1 => proptest::collection::vec(one, 1..3).prop_map(|mut v| {
            // single-valued flags may not repeat
            let mut seen_prefix = false;
            v.retain(|f| {
                if f[0] == "--prefix-link-name" {
                    if seen_prefix {
                        return false;
                    }
                    seen_prefix = true;
                }
                true
            });
            v.concat()
        })
    ]
    .boxed()
}

/// REGEX=DERIVES values whose regex contains '=' -> the spelling without it that matches the
/// same items (no item name contains '='), so both must have the same effect on the bindings.
fn equiv_plain(v: &str) -> Option<&'static str> {
    match v {
        "Foo|a=b=Clone" => Some("Foo=Clone"),
        "[F=]oo|Bar=PartialOrd,Hash" => Some("Foo|Bar=PartialOrd,Hash"),
        "E|x=y=Hash" => Some("E=Hash"),
        "U|=z=Clone" => Some("U=Clone"),
        _ => None,
    }
}

const EQ_PREFIXES: &[(&str, &str)] = &[
    ("--with-derive-custom", "Foo|a=b=Clone"),
    ("--with-derive-custom-struct", "[F=]oo|Bar=PartialOrd,Hash"),
    ("--with-derive-custom-enum", "E|x=y=Hash"),
    ("--with-derive-custom-union", "U|=z=Clone"),
    ("--with-derive-custom", "Foo=Clone"),
    ("--with-derive-custom-struct", "Foo|Bar=PartialOrd,Hash"),
    ("--with-derive-custom-enum", "E=Hash"),
    ("--with-derive-custom-union", "U=Clone"),
];

#[derive(Clone, Debug, Serialize, Deserialize)]
pub struct Case {
    pub cpp: bool,
    pub cli_prefix: Vec<String>,
    pub ops: Vec<Op>,
    /// when true and ops is a single op with a documented flag: also check flag <-> method
    pub check_cli_form: bool,
}

fn is_dash_value(op: &Op) -> bool {
    let d = |s: &String| s.starts_with('-');
    match op {
        Op::Str(_, s) => d(s),
        Op::ModuleRawLine(a, b) => d(a) || d(b),
        Op::OverrideAbi(_, r) => d(r),
        Op::FieldAttr(a, ..) => d(a),
        _ => false,
    }
}

// ---------------------------------------------------------------------------------------------
// worker side

fn res_json(r: &BgResult) -> Value {
    match r {
        BgResult::Ok(s) => json!({"k": "ok", "v": s}),
        BgResult::Err(s) => json!({"k": "err", "v": s}),
        BgResult::Panic(s) => json!({"k": "panic", "v": s}),
    }
}

/// Extra input headers for `Op::Header`: order-sensitive (each sees which of the others came first).
pub fn write_extra_headers(dir: &Path) {
    for k in 0..3 {
        let mut t = format!("#ifndef BGV_EXTRA_{k}\n#define BGV_EXTRA_{k} {k}\n");
        for j in 0..3 {
            if j != k {
                t.push_str(&format!("#ifdef BGV_EXTRA_{j}\ntypedef int extra_{k}_after_{j};\n#endif\n"));
            }
        }
        t.push_str(&format!("#ifdef MACRO_A\ntypedef int extra_{k}_after_main;\n#endif\nstruct Extra{k} {{ int v{k}; }};\n#endif\n"));
        std::fs::write(dir.join(format!("extra_{k}.h")), t).ok();
    }
}

pub fn worker_c13(req: &Value, _io: &mut ServerIo) -> Value {
    let dir = Path::new(req["dir"].as_str().unwrap()).to_path_buf();
    let case: Case = match serde_json::from_value(req["case"].clone()) {
        Ok(c) => c,
        Err(e) => return json!({"error": format!("bad case: {e}")}),
    };
    std::fs::create_dir_all(&dir).ok();
    let _ = std::env::set_current_dir(&dir);
    let hname = if case.cpp { "in.hpp" } else { "in.h" };
    std::fs::write(dir.join(hname), if case.cpp { HEADER_CPP } else { HEADER_C }).ok();
    std::fs::write(dir.join("rustfmt.toml"), "max_width = 70\n").ok();
    write_extra_headers(&dir);
    let header = dir.join(hname).to_str().unwrap().to_string();
    let progress = |v: &Value| {
        let _ = std::fs::write(dir.join("progress.json"), v.to_string());
    };
    // b1: CLI-only prefix through the CLI, then builder calls
    let mut a0: Vec<String> = vec!["bindgen".into()];
    a0.extend(case.cli_prefix.iter().cloned());
    a0.push(header.clone());
    progress(&json!({"stage": "prefix-parse", "args": a0}));
    let mut b1 = match bindgen::builder_from_flags(a0.into_iter()) {
        Ok(x) => x.0,
        Err(e) => return json!({"error": format!("prefix flags: {e}")}),
    };
    for op in &case.ops {
        let r = std::panic::catch_unwind(std::panic::AssertUnwindSafe(|| apply(b1.clone(), op, &dir)));
        b1 = match r {
            Ok(Ok(b)) => b,
            Ok(Err(e)) => return json!({"error": format!("apply {op:?}: {e}")}),
            Err(_) => return json!({"builder_panic": format!("{op:?}: {}", bg::take_last_panic().unwrap_or_default())}),
        };
    }
    let flags1 = b1.command_line_flags();
    progress(&json!({"stage": "reparse", "flags1": flags1}));
    let mut a1: Vec<String> = vec!["bindgen".into()];
    a1.extend(flags1.iter().cloned());
    let b2 = match std::panic::catch_unwind(std::panic::AssertUnwindSafe(|| bindgen::builder_from_flags(a1.into_iter()))) {
        Ok(Ok(x)) => x.0,
        Ok(Err(e)) => return json!({"flags1": flags1, "reparse_error": e.to_string()}),
        Err(_) => return json!({"flags1": flags1, "reparse_error": format!("panic: {}", bg::take_last_panic().unwrap_or_default())}),
    };
    let flags2 = b2.command_line_flags();
    progress(&json!({"stage": "generate", "flags1": flags1, "flags2": flags2}));
    let r1 = bg::generate_with(b1.clone());
    let r2 = bg::generate_with(b2);
    let mut out = json!({"flags1": flags1, "flags2": flags2, "r1": res_json(&r1), "r2": res_json(&r2)});
    if case.cli_prefix.iter().any(|f| equiv_plain(f).is_some()) {
        let mut ae: Vec<String> = vec!["bindgen".into()];
        ae.extend(case.cli_prefix.iter().map(|f| equiv_plain(f).map(|s| s.to_string()).unwrap_or_else(|| f.clone())));
        ae.push(header.clone());
        progress(&json!({"stage": "prefix-parse", "args": ae}));
        if let Ok(x) = bindgen::builder_from_flags(ae.into_iter()) {
            let mut be = x.0;
            let mut ok = true;
            for op in &case.ops {
                match std::panic::catch_unwind(std::panic::AssertUnwindSafe(|| apply(be.clone(), op, &dir))) {
                    Ok(Ok(b)) => be = b,
                    _ => {
                        ok = false;
                        break;
                    }
                }
            }
            if ok {
                out["r_eq"] = res_json(&bg::generate_with(be));
            }
        }
    }
    if case.check_cli_form && case.ops.len() == 1 && case.cli_prefix.is_empty() {
        if let Some(form) = cli_form(&case.ops[0], &dir) {
            let mut a3: Vec<String> = vec!["bindgen".into(), header.clone()];
            a3.extend(form.iter().cloned());
            progress(&json!({"stage": "cli-form-parse", "flags1": flags1, "cli_form": form}));
            match bindgen::builder_from_flags(a3.into_iter()) {
                Ok(x) => {
                    let b3 = x.0;
                    let flags3 = b3.command_line_flags();
                    let r3 = bg::generate_with(b3);
                    out["cli_form"] = json!(form);
                    out["flags3"] = json!(flags3);
                    out["r3"] = res_json(&r3);
                }
                Err(e) => {
                    out["cli_form"] = json!(form);
                    out["cli_form_error"] = json!(e.to_string());
                }
            }
        }
    }
    out
}

// ---------------------------------------------------------------------------------------------

fn builder_methods_in_source() -> Vec<String> {
    let text = std::fs::read_to_string("/repo/bindgen/options/mod.rs").unwrap_or_default();
    let re = regex::Regex::new(r"pub fn ([a-z_0-9]+)\s*[<(]").unwrap();
    let mut v: Vec<String> = re.captures_iter(&text).map(|c| c[1].to_string()).collect();
    v.sort();
    v.dedup();
    v
}

fn table_methods() -> Vec<String> {
    let mut v: Vec<String> = vec![];
    v.extend(NULLARY.iter().map(|x| x.0.to_string()));
    v.extend(BOOLS.iter().map(|x| x.0.to_string()));
    v.extend(STRS.iter().map(|x| x.0.to_string()));
    v.extend(PATHS.iter().map(|x| x.0.to_string()));
    for m in ["default_enum_style", "default_macro_constant_type", "default_alias_style", "default_non_copy_union_style", "formatter", "default_visibility", "rust_target", "rust_edition", "module_raw_line", "override_abi", "with_codegen_config", "depfile", "rustfmt_configuration_file", "clang_arg", "field_attribute"] {
        v.push(m.to_string());
    }
    v
}

fn singles() -> Vec<Op> {
    let mut v = vec![];
    for n in NULLARY {
        v.push(Op::Nullary(n.0.into()));
    }
    for b in BOOLS {
        v.push(Op::Bool(b.0.into(), true));
        v.push(Op::Bool(b.0.into(), false));
    }
    for s in STRS {
        let val = if s.0 == "raw_line" || s.0 == "extern_fn_block_attrs" {
            if s.0 == "raw_line" { "pub const RAW: u8 = 1;" } else { "#[allow(dead_code)]" }
        } else if s.2 {
            "Foo"
        } else {
            "pfx"
        };
        v.push(Op::Str(s.0.into(), val.into()));
        if s.2 {
            v.push(Op::Str(s.0.into(), "foo_.*|E|U|MyInt".into()));
        }
    }
    for p in PATHS {
        v.push(Op::PathArg(p.0.into(), "plain".into()));
    }
    for s in ENUM_STYLES {
        v.push(Op::EnumStyle(s.to_string()));
    }
    for s in MACRO_TYPES {
        v.push(Op::MacroType(s.to_string()));
    }
    for s in ALIAS_STYLES {
        v.push(Op::AliasStyle(s.to_string()));
    }
    for s in UNION_STYLES {
        v.push(Op::UnionStyle(s.to_string()));
    }
    for s in FORMATTERS {
        v.push(Op::Formatter(s.to_string()));
    }
    for s in VISIBILITIES {
        v.push(Op::Visibility(s.to_string()));
    }
    for s in TARGETS {
        v.push(Op::RustTarget(s.to_string()));
    }
    for s in EDITIONS {
        v.push(Op::RustEdition(s.to_string()));
    }
    for a in ABIS {
        v.push(Op::OverrideAbi(a.to_string(), "foo_.*".into()));
    }
    for bits in [0u32, 1, 2, 4, 8, 16, 32, 63, 3, 10] {
        v.push(Op::CodegenConfig(bits));
    }
    v.push(Op::ModuleRawLine("ns".into(), "pub const RAW: u8 = 1;".into()));
    v.push(Op::Depfile("out.rs".into(), "dep.d".into()));
    v.push(Op::RustfmtConfig(Some("rustfmt.toml".into())));
    v.push(Op::ClangArg("-DX=1".into()));
    v.push(Op::Header(0));
    v.push(Op::FieldAttr("Foo".into(), "a".into(), "#[allow(dead_code)]".into()));
    v.push(Op::FieldAttr("Foo".into(), "a".into(), "#[doc = \"the a field\"]".into()));
    v
}

fn res_of(v: &Value) -> String {
    format!("{}:{}", v["k"].as_str().unwrap_or("?"), v["v"].as_str().unwrap_or(""))
}

fn clap_arg_of(stderr: &str) -> String {
    // "error: unexpected argument '--type-alias' found" / "error: a value is required for '--generate <GENERATE>'"
    let l = stderr.lines().find(|l| l.starts_with("error:")).unwrap_or("");
    let arg = l.split('\'').nth(1).unwrap_or("?");
    let arg = arg.split(' ').next().unwrap_or(arg);
    let kind = if l.contains("unexpected argument") {
        "unexpected-argument"
    } else if l.contains("a value is required") {
        "value-required"
    } else if l.contains("invalid value") {
        "invalid-value"
    } else if l.contains("cannot be used with") {
        "conflict"
    } else {
        "other"
    };
    if arg.starts_with("--") {
        format!("{kind}/{arg}")
    } else {
        // the offending token is a value; identify the class, not the text
        format!("{kind}/<value>")
    }
}

impl Property for C13 {
    type Case = Case;
    fn id(&self) -> &'static str {
        "C13"
    }
    fn rule(&self) -> String {
        "fixed: every table row alone with each enumerated value (singles, both C and C++ header) incl. flag<->method equivalence, the default configuration, and boolean pairs (seeded sample in quick, all in thorough); generated: sequences of 1..25 builder calls + optional CLI-only callback flags, string arguments from name/regex/awkward/leading-dash pools. Non-trivial = >=3 distinct option kinds of >=2 argument kinds whose flag list differs from the default's; distinct by flag-list hash".into()
    }
    fn assumptions(&self) -> Vec<String> {
        vec![
            "builder methods not expressible on the CLI by design are excluded: header_contents, with_rustfmt, arbitrary parse_callbacks, headers/clang_args (covered by header/clang_arg)".into(),
            "each configuration is exercised on two fixed feature-triggering headers (C and C++)".into(),
        ]
    }
    fn parallelism(&self) -> usize {
        16
    }
    fn extra_coverage(&self) -> std::collections::BTreeMap<String, Value> {
        let src = builder_methods_in_source();
        let table = table_methods();
        let uncovered: Vec<&String> = src.iter().filter(|m| !table.contains(m) && !EXCLUDED_METHODS.contains(&m.as_str())).collect();
        let stale: Vec<&String> = table.iter().filter(|m| !src.contains(m)).collect();
        let mut m = std::collections::BTreeMap::new();
        m.insert("builder_methods_in_source".into(), json!(src.len()));
        m.insert("builder_methods_in_table".into(), json!(table.len()));
        m.insert("builder_methods_uncovered".into(), json!(uncovered));
        m.insert("table_rows_without_method".into(), json!(stale));
        m
    }
    fn strategy(&self, _tier: Tier) -> BoxedStrategy<Case> {
        (any::<bool>(), cli_only_strategy(), proptest::collection::vec(op_strategy(), 1..25))
            .prop_map(|(cpp, cli_prefix, ops)| Case { cpp, cli_prefix, ops, check_cli_form: false })
            .boxed()
    }
    fn generated(&self, tier: Tier) -> usize {
        tier.pick(900, 30000)
    }
    fn fixed_cases(&self, tier: Tier) -> Vec<Case> {
        let mut v = vec![];
        for cpp in [false, true] {
            v.push(Case { cpp, cli_prefix: vec![], ops: vec![], check_cli_form: false });
            for op in singles() {
                v.push(Case { cpp, cli_prefix: vec![], ops: vec![op], check_cli_form: true });
            }
        }
        // CLI-only callback flags alone: the round trip, and (for regexes containing '=') the
        // equivalent-spelling relation
        for cpp in [false, true] {
            for (f, val) in EQ_PREFIXES {
                v.push(Case { cpp, cli_prefix: vec![f.to_string(), val.to_string()], ops: vec![], check_cli_form: false });
            }
        }
        // boolean pairs
        let mut bools: Vec<Op> = NULLARY.iter().map(|n| Op::Nullary(n.0.into())).collect();
        bools.extend(BOOLS.iter().map(|b| Op::Bool(b.0.into(), b.2)));
        let mut k = 0u64;
        for i in 0..bools.len() {
            for j in i + 1..bools.len() {
                k += 1;
                let take = match tier {
                    Tier::Thorough => true,
                    Tier::Quick => fnv(&format!("{i}-{j}")) % 8 == 0,
                };
                if take {
                    v.push(Case { cpp: k % 2 == 0, cli_prefix: vec![], ops: vec![bools[i].clone(), bools[j].clone()], check_cli_form: false });
                }
            }
        }
        v
    }

    fn evaluate(&self, case: &Case, env: &Env) -> Outcome {
        let mut out = Outcome::new();
        let req = json!({"op": "c13", "dir": env.dir.to_str().unwrap(), "case": case});
        let reply = worker::call(&req, 120);
        let dash = case.ops.iter().any(is_dash_value);
        if dash {
            out.class("has-leading-dash-value");
        }
        if !case.cli_prefix.is_empty() {
            out.class("has-cli-only-callback-flags");
        }
        out.class(format!("ops:{}", match case.ops.len() { 0 => "0", 1 => "1", 2 => "2", 3..=9 => "3-9", _ => "10+" }));
        let v = match reply {
            Reply::Ok(v) => v,
            Reply::Timeout => return out.inconclusive("worker timeout"),
            Reply::Died { status, signal, stderr, .. } => {
                // clap calls exit(2) on a parse error: that is an outcome of the round trip
                let progress: Value = std::fs::read_to_string(env.dir.join("progress.json")).ok().and_then(|s| serde_json::from_str(&s).ok()).unwrap_or(Value::Null);
                let stage = progress["stage"].as_str().unwrap_or("?").to_string();
                if status == Some(2) && stderr.contains("error:") && (stage == "reparse" || stage == "cli-form-parse") {
                    let what = clap_arg_of(&stderr);
                    let sig = if stage == "reparse" {
                        if dash && what.ends_with("<value>") || (dash && what.starts_with("unexpected-argument")) {
                            "flags-unparseable/leading-dash-value".to_string()
                        } else {
                            format!("flags-unparseable/{what}")
                        }
                    } else {
                        format!("cli-form-rejected/{what}")
                    };
                    out.fail(sig, format!("stage {stage}: clap rejected {}: {}", progress.get("flags1").or(progress.get("cli_form")).map(|f| f.to_string()).unwrap_or_default(), stderr.lines().find(|l| l.starts_with("error:")).unwrap_or("")));
                    return out;
                }
                if stage == "prefix-parse" {
                    return out.inconclusive(format!("generator produced CLI-only flags clap rejects: {stderr}"));
                }
                out.fail(format!("worker-died/{stage}/status-{status:?}-signal-{signal:?}"), format!("{}", stderr.chars().take(800).collect::<String>()));
                return out;
            }
        };
        if let Some(e) = v.get("error") {
            return out.inconclusive(format!("harness: {e}"));
        }
        if let Some(p) = v.get("builder_panic") {
            // a builder method that panics on its argument is C12's domain, not a round-trip fact
            out.class("builder-method-panicked");
            let _ = p;
            return out;
        }
        let flags1: Vec<String> = serde_json::from_value(v["flags1"].clone()).unwrap_or_default();
        if let Some(e) = v.get("reparse_error") {
            out.fail("flags-unparseable/error-value", format!("{flags1:?}: {e}"));
            return out;
        }
        let flags2: Vec<String> = serde_json::from_value(v["flags2"].clone()).unwrap_or_default();
        if flags1 != flags2 {
            let d = flags1.iter().zip(flags2.iter()).position(|(a, b)| a != b).unwrap_or(flags1.len().min(flags2.len()));
            // identify the option whose flag appears on one side only (else the flag whose value changed)
            let only1 = flags1.iter().find(|f| f.starts_with("--") && !flags2.contains(f));
            let only2 = flags2.iter().find(|f| f.starts_with("--") && !flags1.contains(f));
            let key = only1
                .or(only2)
                .cloned()
                .unwrap_or_else(|| flags1[..d.min(flags1.len())].iter().rev().find(|f| f.starts_with("--")).cloned().unwrap_or_default());
            out.fail(format!("flags-differ/{key}"), format!("first difference at {d}:\n  flags : {flags1:?}\n  flags': {flags2:?}"));
        }
        // every CLI-only flag given must survive into the flag list
        for f in case.cli_prefix.iter().filter(|f| f.starts_with("--")) {
            if !flags1.contains(f) {
                out.fail(format!("cli-flag-lost/{f}"), format!("given {:?}, command_line_flags() = {flags1:?}", case.cli_prefix));
            }
        }
        let (r1, r2) = (res_of(&v["r1"]), res_of(&v["r2"]));
        let last_enum_style = case.ops.iter().rev().find_map(|o| if let Op::EnumStyle(s) = o { Some(s.as_str()) } else { None });
        if r1 != r2 && last_enum_style == Some("bitfield_global") {
            out.fail("bindings-differ/enum-style-bitfield-global", format!("default_enum_style(NewType{{is_bitfield:true,is_global:true}}) is written as `--default-enum-style bitfield`; flags {flags1:?}"));
        } else if r1 != r2 {
            out.fail("bindings-differ/roundtrip", format!("flags {flags1:?}\n b1: {}\n b2: {}", r1.chars().take(400).collect::<String>(), r2.chars().take(400).collect::<String>()));
        }
        if v.get("r_eq").is_some() {
            out.class("cli-only-regex-containing-equals");
            let re = res_of(&v["r_eq"]);
            if re != r1 {
                out.fail("cli-flag-effect/derive-regex-containing-equals", format!("{:?} and its equivalent spelling without '=' in the regex generate different bindings\n with '=': {}\n plain   : {}", case.cli_prefix, r1.chars().take(600).collect::<String>(), re.chars().take(600).collect::<String>()));
            }
        }
        if let Some(e) = v.get("cli_form_error") {
            out.fail("cli-form-rejected/error-value", format!("{:?}: {e}", v["cli_form"]));
        }
        if let Some(f3) = v.get("flags3") {
            let flags3: Vec<String> = serde_json::from_value(f3.clone()).unwrap_or_default();
            let m = match &case.ops[0] {
                Op::Nullary(m) | Op::Bool(m, _) | Op::Str(m, _) | Op::PathArg(m, _) => m.clone(),
                other => format!("{other:?}").split('(').next().unwrap_or("?").to_string(),
            };
            // the C++ header needs no extra clang args here (extension decides), so lists are comparable
            if flags3 != flags1 {
                out.fail(format!("flag-vs-method/flags/{m}"), format!("method: {flags1:?}\n flag {:?}: {flags3:?}", v["cli_form"]));
            }
            let r3 = res_of(&v["r3"]);
            if r3 != r1 {
                out.fail(format!("flag-vs-method/bindings/{m}"), format!("flag {:?} and method {m} generate different bindings", v["cli_form"]));
            }
        }
        // non-triviality
        let kinds: std::collections::BTreeSet<String> = case.ops.iter().map(|o| format!("{o:?}").split('(').next().unwrap_or("").to_string()).collect();
        let names: std::collections::BTreeSet<String> = case.ops.iter().map(|o| format!("{o:?}").split(&['(', ','][..]).take(2).collect::<Vec<_>>().join("/")).collect();
        if names.len() >= 3 && kinds.len() >= 2 && flags1.len() > 4 {
            out.nontrivial(format!("{:x}", fnv(&flags1.join("\u{1}"))));
        }
        out.sample = Some(json!({"cpp": case.cpp, "ops": case.ops.len(), "flags": flags1.iter().map(|f| f.replace(env.dir.to_str().unwrap(), "{DIR}")).collect::<Vec<_>>(), "bindings_equal": r1 == r2}));
        out
    }
}
