//! C01 — generated bindings compile for every accepted header and option set.
//! Validity predicate: `rustc --edition E --crate-type lib --emit=metadata` accepts the emitted
//! text (parses, resolves, type-checks, evaluates every const assertion); old-style `#[test]`
//! layout functions are additionally compiled with `--test` and executed.

use crate::bg::{self, BgInput, BgResult};
use crate::cmodel::*;
use crate::corpus;
use crate::engine::{fnv, Env, Outcome, Property, Tier};
use crate::mutate::{self, Edit};
use crate::props::{c02, c07};
use crate::tools;
use proptest::prelude::*;
use serde::{Deserialize, Serialize};
use serde_json::json;
use std::collections::BTreeSet;
use std::path::Path;

pub struct C01;

#[derive(Clone, Debug, Serialize, Deserialize)]
pub enum Source {
    Gen(Program),
    Cpp(c07::Graph),
    Zoo { cpp: bool, picks: Vec<u16> },
    Mut { header: String, edits: Vec<Edit>, splice_from: Option<String> },
    /// literal header text (regression corpus / known-finding replays)
    Text { name: String, text: String, clang_args: Vec<String> },
}

#[derive(Clone, Debug, Serialize, Deserialize)]
pub struct Case {
    pub source: Source,
    pub flags: Vec<String>,
    pub callbacks: Vec<String>,
    #[serde(default)]
    pub keep_known: bool,
}

/// Systematic family: declarations that make bindgen emit one of its helper types
/// (`__IncompleteArrayField`, `__BindgenBitfieldUnit`, `__BindgenUnionField`, `__BindgenComplex`,
/// `__BindgenFloat16`, opaque array helpers) placed only inside namespaces of several depths, with
/// and without C++ namespaces enabled: the helper has to be emitted wherever the use is.
fn helper_in_namespace_grid() -> Vec<Case> {
    let bodies: &[(&str, &[&str])] = &[
        ("struct Pkt { unsigned short len; unsigned char payload[]; };", &[]),
        ("struct Zl { int n; char tail[0]; };", &[]),
        ("struct Bf { int a : 3; unsigned b : 9; long long c : 40; };", &[]),
        ("union Un { int a; float b; char c[5]; };", &["--default-non-copy-union-style", "bindgen_wrapper", "--no-derive-copy"]),
        ("union Un2 { int a; float b; };", &["--disable-untagged-union"]),
        ("struct Cx { _Complex double z; _Complex float w; };", &[]),
        ("struct Hf { __fp16 h; int k; };", &[]),
        ("struct Big { char c; long double l; } __attribute__((packed)); struct Op { Big b[40]; };", &["--opaque-type", ".*Op"]),
    ];
    let wraps: &[(&str, &str)] = &[("namespace outer { ", " }"), ("namespace a { namespace b { ", " } }"), ("namespace a { inline namespace v1 { ", " } }"), ("namespace { ", " }"), ("", "")];
    let mut v = vec![];
    for (bi, (body, extra)) in bodies.iter().enumerate() {
        for (wi, (open, close)) in wraps.iter().enumerate() {
            for ns in [true, false] {
                let mut flags: Vec<String> = extra.iter().map(|f| f.to_string()).collect();
                if ns {
                    flags.push("--enable-cxx-namespaces".into());
                }
                v.push(Case { source: Source::Text { name: format!("helper_ns_{bi}_{wi}.hpp"), text: format!("{open}{body}{close}\n"), clang_args: vec!["-x".into(), "c++".into(), "-std=c++14".into()] }, flags, callbacks: vec![], keep_known: false });
            }
        }
    }
    v
}

/// Systematic family: every enum declaration form x awkward enumerator names (Rust keywords,
/// primitive type names) x repeated / negative / wide values, under every enum style with and
/// without name prepending. The random generator reaches (style, keyword, duplicate) triples rarely.
fn enum_grid() -> Vec<Case> {
    use crate::cmodel::{Comp, Decl, EnumDecl, Field, FieldTy, Prim, Program, Ty, KEYWORD_ENUMERATORS};
    let mut cases = vec![];
    let styles = ["consts", "moduleconsts", "rust", "rust_non_exhaustive", "newtype", "newtype_global", "bitfield"];
    // three programs with different keyword placements
    for round in 0..3usize {
        let kw = |k: usize| KEYWORD_ENUMERATORS[(round * 11 + k * 3) % KEYWORD_ENUMERATORS.len()].to_string();
        let mut decls = vec![];
        let forms: [(Option<&str>, Option<&str>); 3] = [(Some("Named"), None), (None, Some("Typedefd_t")), (Some("Both"), Some("Both_t"))];
        for (fi, (tag, td)) in forms.iter().enumerate() {
            // plain first, then a keyword that repeats the first value, a keyword with a fresh value,
            // a plain repeat, a negative and a wide value
            let variants = vec![
                (format!("G{round}_{fi}_A"), Some(0)),
                (format!("G{round}_{fi}_B"), Some(1)),
                (kw(fi * 2), Some(0)),
                (kw(fi * 2 + 1), Some(7)),
                (format!("G{round}_{fi}_DUP"), Some(1)),
                (format!("G{round}_{fi}_NEG"), if fi == 1 { Some(-3) } else { None }),
                (format!("G{round}_{fi}_WIDE"), if fi == 2 { Some(1i128 << 40) } else { None }),
            ];
            decls.push(Decl::Enum(EnumDecl { tag: tag.map(|t| format!("{t}{round}")), variants, underlying: if fi == 0 && round == 1 { Some(Prim::UChar) } else { None }, typedef_name: td.map(|t| format!("{t}{round}")) }));
        }
        // an enum whose only enumerators are keywords with one repeated value
        decls.push(Decl::Enum(EnumDecl { tag: Some(format!("AllKw{round}")), variants: vec![(kw(7), None), (kw(8), None), (kw(9), Some(0))], underlying: None, typedef_name: None }));
        // a user of the enums
        let fields = (0..4).map(|k| Field { name: format!("e{k}"), ty: FieldTy::Ty(Ty::Named(k)), bits: None, align: None }).collect();
        decls.push(Decl::Comp(Comp { is_union: false, tag: Some(format!("UsesEnums{round}")), fields, packed: false, aligned: None, pragma_pack: None, typedef_name: None }));
        let mut prog = Program { decls };
        prog.normalise();
        for st in styles {
            for prepend in [true, false] {
                let mut flags: Vec<String> = vec!["--default-enum-style".into(), st.into()];
                if !prepend {
                    flags.push("--no-prepend-enum-name".into());
                }
                if round == 2 {
                    flags.push("--with-derive-default".into());
                }
                cases.push(Case { source: Source::Gen(prog.clone()), flags, callbacks: vec![], keep_known: false });
            }
        }
    }
    cases
}

/// Systematic family: typedefs of scalars, of typedefs, of pointers, of structs and of arrays,
/// used as constant variables with initialisers, extern variables, members, parameters and
/// return types, under the three alias styles (globally and per pattern).
fn alias_grid() -> Vec<Case> {
    use crate::cmodel::{ArrLen, Comp, Decl, Field, FieldTy, FuncDecl, Prim, Program, Ty};
    let td = |name: &str, ty: Ty| Decl::Typedef { name: name.to_string(), ty, aligned: None };
    let mut decls = vec![
        td("Handle", Ty::Prim(Prim::UInt)),                                                               // 0
        td("Handle2", Ty::Named(0)),                                                                      // 1
        td("Real", Ty::Prim(Prim::Double)),                                                               // 2
        td("IntPtr", Ty::Ptr { to: Box::new(Ty::Prim(Prim::Int)), is_const: false }),                     // 3
        Decl::Comp(Comp { is_union: false, tag: Some("Rec".into()), fields: vec![Field { name: "h".into(), ty: FieldTy::Ty(Ty::Named(0)), bits: None, align: None }, Field { name: "r".into(), ty: FieldTy::Ty(Ty::Named(2)), bits: None, align: None }], packed: false, aligned: None, pragma_pack: None, typedef_name: None }), // 4
        td("RecAlias", Ty::Named(4)),                                                                     // 5
        td("Triple", Ty::Array { of: Box::new(Ty::Named(0)), dims: vec![ArrLen::Fixed(3)] }),            // 6
        td("Flag", Ty::Prim(Prim::Bool)),                                                                 // 7
        td("Small", Ty::Prim(Prim::SChar)),                                                               // 8
    ];
    for (k, (t, v)) in [(0usize, 4294967i32), (1, 7), (2, 3), (7, 1), (8, -5), (0, 0)].iter().enumerate() {
        decls.push(Decl::Var { name: format!("K{k}"), ty: Ty::Named(*t), is_const: true, init: Some(*v) });
    }
    decls.push(Decl::Var { name: "g_handle".into(), ty: Ty::Named(1), is_const: false, init: None });
    decls.push(Decl::Var { name: "g_rec".into(), ty: Ty::Named(5), is_const: true, init: None });
    decls.push(Decl::Comp(Comp {
        is_union: false,
        tag: Some("Uses".into()),
        fields: vec![
            Field { name: "a".into(), ty: FieldTy::Ty(Ty::Named(1)), bits: None, align: None },
            Field { name: "p".into(), ty: FieldTy::Ty(Ty::Named(3)), bits: None, align: None },
            Field { name: "t".into(), ty: FieldTy::Ty(Ty::Named(6)), bits: None, align: None },
            Field { name: "bits".into(), ty: FieldTy::Ty(Ty::Prim(Prim::UInt)), bits: Some(5), align: None },
            Field { name: "rec".into(), ty: FieldTy::Ty(Ty::Named(5)), bits: None, align: None },
        ],
        packed: false,
        aligned: None,
        pragma_pack: None,
        typedef_name: None,
    }));
    decls.push(Decl::Func(FuncDecl { name: "open_it".into(), ret: Ty::Named(0), params: vec![("path".into(), Ty::Ptr { to: Box::new(Ty::Prim(Prim::Char)), is_const: true }), ("h".into(), Ty::Named(1)), ("r".into(), Ty::Named(5))], variadic: false, is_static_inline: false }));
    let mut prog = Program { decls };
    prog.normalise();
    let mut cases = vec![];
    let styles: [&[&str]; 6] = [
        &["--default-alias-style", "type_alias"],
        &["--default-alias-style", "new_type"],
        &["--default-alias-style", "new_type_deref"],
        &["--new-type-alias", "Handle.*", "--new-type-alias-deref", "Re.*"],
        &["--default-alias-style", "new_type", "--normal-alias", "Handle2", "--new-type-alias-deref", "Flag"],
        &["--default-alias-style", "new_type_deref", "--with-derive-default", "--with-derive-hash", "--with-derive-partialeq"],
    ];
    for st in styles {
        cases.push(Case { source: Source::Gen(prog.clone()), flags: st.iter().map(|s| s.to_string()).collect(), callbacks: vec![], keep_known: false });
    }
    cases
}

const DERIVE_ALL: &[&str] = &["--with-derive-default", "--with-derive-hash", "--with-derive-partialeq", "--with-derive-eq", "--with-derive-partialord", "--with-derive-ord"];

const EXTRA_FLAGS: &[&[&str]] = &[
    &["--sort-semantically"],
    &["--merge-extern-blocks"],
    &["--wrap-unsafe-ops"],
    &["--generate-cstr"],
    &["--no-prepend-enum-name"],
    &["--ctypes-prefix", "::core::ffi"],
    &["--use-array-pointers-in-arguments"],
    &["--generate-inline-functions"],
    &["--vtable-generation"],
    &["--respect-cxx-access-specs"],
    &["--must-use-type", ".*"],
    &["--raw-line", "pub const RAW_LINE_ITEM: u8 = 1;"],
    &["--module-raw-line", "root", "pub const MODULE_RAW_ITEM: u8 = 2;"],
    &["--rust-target", "1.51"],
    &["--rust-target", "1.59"],
    &["--rust-target", "1.70"],
    &["--rust-target", "1.77"],
    &["--rust-target", "1.85", "--rust-edition", "2024"],
    &["--rust-target", "1.85", "--rust-edition", "2018"],
    &["--rust-edition", "2018"],
    &["--fit-macro-constant-types"],
    &["--default-macro-constant-type", "signed"],
    &["--enable-function-attribute-detection"],
    &["--no-doc-comments"],
    &["--generate-deleted-functions"],
    &["--generate-private-functions"],
    &["--generate-pure-virtual-functions"],
    &["--conservative-inline-namespaces"],
    &["--no-convert-floats"],
    &["--distrust-clang-mangling"],
    &["--override-abi", ".*=C-unwind"],
];

// `item:keyword` is not drawn: renaming a type to a keyword collides with mangled field and
// parameter names of the same spelling, which is the user's doing
const CALLBACKS: &[&str] = &["item:prefix", "item:suffix", "field:prefix", "field:suffix", "variant:prefix", "variant:suffix", "fnvar:prefix", "fnvar:suffix"];

pub fn flags_strategy() -> BoxedStrategy<Vec<String>> {
    let all: Vec<&'static [&'static str]> = c02::PRESENTATION_FLAGS.iter().chain(EXTRA_FLAGS.iter()).copied().collect();
    let n = all.len();
    proptest::collection::vec(0..n, 0..6)
        .prop_map(move |idx| {
            let mut flags: Vec<String> = vec![];
            let mut seen: BTreeSet<&str> = BTreeSet::new();
            for i in idx {
                let group = all[i];
                let single_valued = ["--rust-target", "--rust-edition", "--default-enum-style", "--default-alias-style", "--default-non-copy-union-style", "--ctypes-prefix", "--anon-fields-prefix", "--default-visibility", "--default-macro-constant-type"];
                let _ = &single_valued;
                if group.iter().any(|f| f.starts_with("--") && seen.contains(f)) {
                    continue;
                }
                // nightly-only output is compiled in the thorough tier only (see DESIGN): skip here
                if group.contains(&"nightly") {
                    continue;
                }
                for f in group.iter() {
                    if f.starts_with("--") {
                        seen.insert(f);
                    }
                    flags.push(f.to_string());
                }
            }
            // known finding: `--override-abi` to an ABI the selected target lacks turns function
            // pointers into zero-sized blobs; keep the override for targets that have C-unwind
            if let Some(p) = flags.iter().position(|f| f == "--override-abi") {
                let t = flags.iter().position(|f| f == "--rust-target").and_then(|i| flags.get(i + 1)).and_then(|t| t.split('.').nth(1).and_then(|m| m.parse::<u32>().ok()));
                if t.map(|m| m < 71).unwrap_or(false) {
                    flags.drain(p..p + 2);
                }
            }
            // `--module-raw-line root` only makes sense with namespaces on
            if let Some(p) = flags.iter().position(|f| f == "--module-raw-line") {
                if !flags.iter().any(|f| f == "--enable-cxx-namespaces") {
                    flags.drain(p..p + 3);
                }
            }
            flags
        })
        .boxed()
}

fn edition_of(flags: &[String]) -> &'static str {
    let ed = flags.iter().position(|f| f == "--rust-edition").and_then(|i| flags.get(i + 1)).map(|s| s.as_str());
    match ed {
        Some("2018") => "2018",
        Some("2024") => "2024",
        Some(_) => "2021",
        None => {
            // newest edition of the selected target
            let t = flags.iter().position(|f| f == "--rust-target").and_then(|i| flags.get(i + 1)).map(|s| s.as_str());
            let minor: u32 = t.and_then(|t| t.split('.').nth(1)).and_then(|m| m.parse().ok()).unwrap_or(82);
            if minor >= 85 {
                "2024"
            } else if minor >= 56 {
                "2021"
            } else {
                "2018"
            }
        }
    }
}

/// Normalise a rustc error message into a class: error code + message skeleton without names.
pub fn error_class(stderr: &str) -> (String, String) {
    for l in stderr.lines() {
        if l.starts_with("error") && !l.starts_with("error: aborting") {
            let code = l.find("[E").and_then(|i| l[i..].find(']').map(|j| l[i + 1..i + j].to_string())).unwrap_or_else(|| "E----".into());
            let msg = l.splitn(2, ": ").nth(1).unwrap_or("");
            let mut skel = String::new();
            let mut in_tick = false;
            let mut tick = String::new();
            for c in msg.chars() {
                if c == '`' {
                    in_tick = !in_tick;
                    if in_tick {
                        tick.clear();
                    } else {
                        // keep trait names, drop everything else that is quoted
                        const KEEP: &[&str] = &["Debug", "Default", "Clone", "Copy", "Hash", "PartialEq", "Eq", "PartialOrd", "Ord", "#[repr(align)]"];
                        if KEEP.contains(&tick.as_str()) {
                            skel.push_str(&tick);
                        } else if let Some(tr) = KEEP.iter().find(|k| tick.ends_with(&format!(": {k}"))) {
                            skel.push_str(&format!("_:{tr}"));
                        } else if tick == "==" || tick == "<" || tick == "!=" {
                            skel.push_str(&tick);
                        } else {
                            skel.push('_');
                        }
                    }
                    continue;
                }
                if in_tick {
                    tick.push(c);
                } else if !c.is_ascii_digit() {
                    skel.push(c);
                }
            }
            let mut skel: String = skel.split_whitespace().take(8).collect::<Vec<_>>().join("-");
            if code == "E0308" {
                // "mismatched types" says nothing: add what was expected and found, keeping the names
                // of bindgen's helper types and dropping user names
                if let Some(label) = stderr.lines().skip_while(|x| *x != l).find(|x| x.contains("^ expected ") || x.contains("^ expected")) {
                    let text = label.split('^').last().unwrap_or("").trim();
                    let mut out = String::new();
                    let mut in_tick = false;
                    let mut tick = String::new();
                    for c in text.chars() {
                        if c == '`' {
                            in_tick = !in_tick;
                            if !in_tick {
                                const HELPERS: &[&str] = &["__BindgenBitfieldUnit", "ManuallyDrop", "__BindgenUnionField", "__IncompleteArrayField", "__BindgenOpaqueArray", "Option", "fn"];
                                let kept: Vec<&str> = HELPERS.iter().copied().filter(|h| tick.contains(h)).collect();
                                out.push_str(&if kept.is_empty() { "_".to_string() } else { kept.join("+") });
                                tick.clear();
                            }
                            continue;
                        }
                        if in_tick {
                            tick.push(c);
                        } else if !c.is_ascii_digit() {
                            out.push(c);
                        }
                    }
                    skel = format!("{skel}:{}", out.split_whitespace().take(8).collect::<Vec<_>>().join("-"));
                }
            }
            return (code, skel);
        }
    }
    ("E----".into(), "?".into())
}

impl C01 {
    fn build_input(&self, case: &Case, dir: &Path, out: &mut Outcome) -> Result<(BgInput, String, Vec<String>), String> {
        let mut flags: Vec<String> = vec!["--no-include-path-detection".into(), "--formatter=none".into()];
        match &case.source {
            Source::Gen(p) => {
                let mut p = p.clone();
                p.normalise();
                if !case.keep_known {
                    out.excluded_known += p.strip_unrepresentable();
                }
                let text = p.render();
                flags.extend(case.flags.iter().cloned());
                Ok((BgInput { files: vec![("in.h".into(), text.clone())], headers: vec!["in.h".into()], flags, clang_args: vec!["-std=gnu11".into()], callbacks: case.callbacks.clone() }, text, vec!["-std=gnu11".into()]))
            }
            Source::Cpp(g) => {
                let mut g = g.clone();
                g.cpp = true;
                g.normalise();
                let order = g.order_from_prios(&[]);
                let text = g.render(&order);
                flags.extend(case.flags.iter().cloned());
                let ca: Vec<String> = vec!["-x".into(), "c++".into(), "-std=c++14".into()];
                Ok((BgInput { files: vec![("in.hpp".into(), text.clone())], headers: vec!["in.hpp".into()], flags, clang_args: ca.clone(), callbacks: case.callbacks.clone() }, text, ca))
            }
            Source::Zoo { cpp, picks } => {
                let text = if *cpp { crate::zoo::render(crate::zoo::ZOO_CPP, picks) } else { crate::zoo::render(crate::zoo::ZOO_C, picks) };
                flags.extend(case.flags.iter().cloned());
                let (file, ca): (&str, Vec<String>) = if *cpp { ("zoo.hpp", vec!["-std=c++17".into()]) } else { ("zoo.h", vec![]) };
                Ok((BgInput { files: vec![(file.into(), text.clone())], headers: vec![file.into()], flags, clang_args: ca.clone(), callbacks: case.callbacks.clone() }, text, ca))
            }
            Source::Text { name, text, clang_args } => {
                flags.extend(case.flags.iter().cloned());
                Ok((BgInput { files: vec![(name.clone(), text.clone())], headers: vec![name.clone()], flags, clang_args: clang_args.clone(), callbacks: case.callbacks.clone() }, text.clone(), clang_args.clone()))
            }
            Source::Mut { header, edits, splice_from } => {
                let h = corpus::load_one(&Path::new(corpus::HEADERS_DIR).join(header)).ok_or("no such header")?;
                let other = splice_from.as_ref().and_then(|s| corpus::load_one(&Path::new(corpus::HEADERS_DIR).join(s))).map(|o| o.text);
                let text = if edits.is_empty() { h.text.clone() } else { mutate::apply(&h.text, edits, other.as_deref()) };
                let mut input = h.input_with_text(&text);
                input.flags.retain(|f| f != "--represent-cxx-operators" && f != "--use-distinct-char16-t");
                input.flags.push("--no-include-path-detection".into());
                let _ = dir;
                let ca = input.clang_args.clone();
                Ok((input, text, ca))
            }
        }
    }
}

/// Root-cause class of a failed layout assertion, from the model of the input.
fn layout_class(case: &Case, text: &str, stderr: &str) -> Option<String> {
    match &case.source {
        Source::Gen(p) => {
            let mut p = p.clone();
            p.normalise();
            if !case.keep_known {
                p.strip_unrepresentable();
            }
            Some(format!("layout-assertion/{}", first_failing_class_c(&p, stderr)))
        }
        Source::Text { .. } | Source::Zoo { .. } | Source::Mut { .. } => {
            let mut feats: Vec<&str> = vec![];
            if (stderr.contains("template specialization") || stderr.contains("_open0_")) && !stderr.contains("[\"Size of N") {
                return Some("layout-assertion/template-instantiation".into());
            }
            // restrict to the line (zoo snippet) that mentions the failing type
            let failing = failing_type_name_exact(stderr);
            let failing = failing.trim_start_matches("struct_").trim_start_matches("union_").trim_start_matches("enum_").to_string();
            let line = text.lines().find(|l| !failing.is_empty() && l.contains(&failing)).unwrap_or(text);
            // mutants of repository headers: the declaration of the failing type
            let decl_region: String = if matches!(case.source, Source::Mut { .. }) && !failing.is_empty() {
                match text.find(&format!("{failing} {{")).or_else(|| text.find(&format!("{failing}\n{{"))) {
                    Some(i) => {
                        let rest = &text[i..];
                        let end = rest.find("};").or_else(|| rest.find("}")).map(|e| {
                            // include trailing attributes up to the semicolon
                            rest[e..].find(';').map(|s| e + s + 1).unwrap_or(e + 1)
                        });
                        let start = text[..i].rfind(';').map(|x| x + 1).unwrap_or(0);
                        text[start..i + end.unwrap_or(rest.len())].to_string()
                    }
                    None => text.to_string(),
                }
            } else {
                String::new()
            };
            let text = if matches!(case.source, Source::Zoo { .. }) {
                line
            } else if matches!(case.source, Source::Mut { .. }) {
                decl_region.as_str()
            } else {
                text
            };
            if text.contains("virtual public") || text.contains(": virtual ") {
                // (text sources are not analysed further: virtual inheritance somewhere in the
                // declaration region is attributed to the known base-subobject finding)
                return Some("layout-assertion/cpp-base-with-virtual-bases".into());
            }
            if text.contains(": public") && text.contains('~') {
                return Some("layout-assertion/cpp-non-pod-base-tail-padding".into());
            }
            if text.contains("aligned(") {
                feats.push("aligned");
            }
            if text.contains("packed") {
                feats.push("packed");
            }
            if text.contains("#pragma pack") {
                feats.push("pragma-pack");
            }
            if text.contains("union ") {
                feats.push("union");
            }
            // packed together with an explicit alignment is one root cause whatever else is present
            if feats.contains(&"aligned") && feats.contains(&"packed") {
                return Some("layout-assertion/aligned+packed".into());
            }
            Some(format!("layout-assertion/{}", if feats.is_empty() { failing_type_name(stderr) } else { feats.join("+") }))
        }
        Source::Cpp(g) => {
            let mut g = g.clone();
            g.cpp = true;
            g.normalise();
            // a failing *instantiation* assertion of a template with bit-fields: known class
            // (the generic struct of a template has no layout of its own: neither the padding of
            // bit-field units nor the storage of virtual bases is represented)
            if (stderr.contains("template specialization") || stderr.contains("_open0_")) && g.nodes.iter().any(|n| matches!(n.kind, c07::NodeKind::Template) && (n.fields.iter().any(|f| matches!(f, c07::FieldKind::Bitfield(_))) || (n.virtual_bases && !n.bases.is_empty()))) {
                return Some("layout-assertion/template-instantiation".into());
            }
            let n = failing_cpp_class(stderr)?;
            let node = g.nodes.get(n)?;
            let poly = g.polymorphic();
            let _ = node;
            // the class itself, or anything it holds by value (members, instantiations, bases), derives
            // from a non-POD base whose tail padding C++ reuses
            let through_alias = |b: usize| if let c07::NodeKind::AliasTemplate(t) = &g.nodes[b].kind { *t } else { b };
            let has_non_pod_base = |k: usize| g.nodes[k].bases.iter().chain(g.nodes[k].tbases.iter().map(|(b, _)| b)).map(|b| through_alias(*b)).any(|b| g.nodes[b].dtor || poly[b] || !g.nodes[b].bases.is_empty() || !g.nodes[b].tbases.is_empty());
            let mut seen = std::collections::BTreeSet::new();
            let mut work = vec![n];
            let mut non_pod_base = false;
            while let Some(k) = work.pop() {
                if !seen.insert(k) {
                    continue;
                }
                if has_non_pod_base(k) {
                    non_pod_base = true;
                    break;
                }
                let (by_value, _) = g.deps(k);
                work.extend(by_value);
            }
            // a class that derives from a class with virtual bases: the base subobject has the
            // base's non-virtual size, the bindings embed the complete object (known finding);
            // a class that merely has virtual bases itself is laid out correctly
            let has_vb = |k: usize| g.nodes[k].virtual_bases && !g.nodes[k].bases.is_empty();
            let mut anc = std::collections::BTreeSet::new();
            let mut work: Vec<usize> = g.nodes[n].bases.iter().copied().chain(g.nodes[n].tbases.iter().map(|(b, _)| *b)).collect();
            while let Some(k) = work.pop() {
                if anc.insert(k) {
                    work.extend(g.nodes[k].bases.iter().copied());
                    work.extend(g.nodes[k].tbases.iter().map(|(b, _)| *b));
                }
            }
            let base_with_vb = anc.iter().any(|b| has_vb(*b));
            // the same empty class as a base more than once (directly and through another base):
            // C++ may not give two subobjects of one type the same address, so the empty-base
            // optimisation is off for the second one; bindgen gives both no storage (known finding)
            let is_empty = |k: usize| matches!(g.nodes[k].kind, c07::NodeKind::Class) && g.nodes[k].fields.is_empty() && !g.nodes[k].virtual_method && g.nodes[k].bases.is_empty() && g.nodes[k].tbases.is_empty();
            fn count_bases(g: &c07::Graph, k: usize, counts: &mut std::collections::BTreeMap<usize, usize>, depth: usize) {
                if depth > 12 {
                    return;
                }
                for b in g.nodes[k].bases.iter().copied().chain(g.nodes[k].tbases.iter().map(|(b, _)| *b)) {
                    let b = if let c07::NodeKind::AliasTemplate(t) = &g.nodes[b].kind { *t } else { b };
                    *counts.entry(b).or_default() += 1;
                    count_bases(g, b, counts, depth + 1);
                }
            }
            let repeated_empty_base = seen.iter().chain(std::iter::once(&n)).any(|k| {
                let mut counts = std::collections::BTreeMap::new();
                count_bases(&g, *k, &mut counts, 0);
                counts.iter().any(|(b, c)| *c >= 2 && is_empty(*b))
            });
            Some(if repeated_empty_base {
                "layout-assertion/cpp-repeated-empty-base".into()
            } else if base_with_vb {
                "layout-assertion/cpp-base-with-virtual-bases".into()
            } else if has_vb(n) && !non_pod_base {
                "layout-assertion/cpp-virtual-base".into()
            } else if non_pod_base {
                "layout-assertion/cpp-non-pod-base-tail-padding".into()
            } else {
                "layout-assertion/cpp-class".into()
            })
        }
    }
}

fn failing_type_name_exact(stderr: &str) -> String {
    for l in stderr.lines() {
        for pat in ["[\"Size of ", "[\"Alignment of ", "[\"Offset of field: "] {
            if let Some(i) = l.find(pat) {
                return l[i + pat.len()..].chars().take_while(|c| c.is_alphanumeric() || *c == '_').collect();
            }
        }
    }
    String::new()
}

fn failing_type_name(stderr: &str) -> String {
    for l in stderr.lines() {
        for pat in ["[\"Size of ", "[\"Alignment of ", "[\"Offset of field: ", "[\"Size of template specialization: ", "[\"Align of template specialization: "] {
            if let Some(i) = l.find(pat) {
                let rest = &l[i + pat.len()..];
                let name: String = rest.chars().take_while(|c| c.is_alphanumeric() || *c == '_').collect();
                return name.trim_end_matches(char::is_numeric).to_string();
            }
        }
    }
    "?".into()
}

/// Feature class of the generated C type named in the first failed layout assertion.
fn first_failing_class_c(p: &Program, stderr: &str) -> String {
    let name = {
        let mut n = String::new();
        'outer: for l in stderr.lines() {
            for pat in ["[\"Size of ", "[\"Alignment of ", "[\"Offset of field: "] {
                if let Some(i) = l.find(pat) {
                    n = l[i + pat.len()..].chars().take_while(|c| c.is_alphanumeric() || *c == '_' || *c == '$').collect();
                    break 'outer;
                }
            }
        }
        n
    };
    for d in &p.decls {
        if let Decl::Comp(c) = d {
            let rn = d.rust_name().unwrap_or_default();
            if name == rn || name.starts_with(&format!("{rn}_")) || name == format!("struct_{rn}") || name == format!("union_{rn}") {
                let mut feats: BTreeSet<&str> = BTreeSet::new();
                fn walk(c: &Comp, f: &mut BTreeSet<&'static str>) {
                    if c.packed { f.insert("packed"); }
                    if c.aligned.is_some() { f.insert("aligned"); }
                    if c.pragma_pack.is_some() { f.insert("pragma-pack"); }
                    if c.is_union { f.insert("union"); }
                    for fl in &c.fields {
                        if fl.bits.is_some() { f.insert("bitfield"); }
                        if fl.align.is_some() { f.insert("member-aligned"); }
                        if let FieldTy::Inline(ic) = &fl.ty { walk(ic, f); }
                    }
                }
                walk(c, &mut feats);
                return if feats.is_empty() { "plain".into() } else { feats.into_iter().collect::<Vec<_>>().join("+") };
            }
        }
    }
    "?".into()
}

/// Index k of the class `N{k}` named in the first failed layout assertion.
fn failing_cpp_class(stderr: &str) -> Option<usize> {
    for l in stderr.lines() {
        for pat in ["[\"Size of N", "[\"Alignment of N", "[\"Offset of field: N", "[\"Size of struct_N", "[\"Size of union_N", "[\"Alignment of struct_N", "[\"Alignment of union_N", "[\"Offset of field: struct_N", "[\"Offset of field: union_N"] {
            if let Some(i) = l.find(pat) {
                let rest = &l[i + pat.len()..];
                let num: String = rest.chars().take_while(|c| c.is_ascii_digit()).collect();
                if let Ok(n) = num.parse() {
                    return Some(n);
                }
            }
        }
    }
    None
}

/// Repository headers whose output is documented not to be self-contained, or that target
/// another platform than the host.
fn repo_header_usable(h: &corpus::RepoHeader) -> bool {
    let bad_flags = ["--objc-extern-crate", "--generate-block", "--block-extern-crate", "--dynamic-loading", "--no-recursive-allowlist", "--disable-name-namespacing", "--disable-nested-struct-naming", "--represent-cxx-operators", "--use-distinct-char16-t", "--raw-line", "--module-raw-line", "--ctypes-prefix", "--with-derive-custom", "--with-attribute-custom", "--blocklist", "--opaque-type", "--no-partialeq", "--no-copy", "--no-debug", "--no-default", "--no-hash", "--allowlist", "--wrap-static-fns", "--rust-target", "--bitfield-enum", "--with-derive-custom-struct", "--field-attr"];
    if h.flags.iter().any(|f| bad_flags.iter().any(|b| f.starts_with(b))) {
        return false;
    }
    if h.clang_args.iter().any(|a| a.contains("objective-c") || (a.starts_with("--target=") && !a.contains("x86_64-unknown-linux"))) {
        return false;
    }
    h.parse_callbacks.is_none() && !h.text.contains("rustbindgen")
}

impl Property for C01 {
    type Case = Case;
    fn id(&self) -> &'static str {
        "C01"
    }
    fn rule(&self) -> String {
        "generated: C programs from the full G-C model (types incl. bit-fields, packed/aligned, flexible arrays, keyword and '$' identifiers, enums, typedef chains, function pointers, functions, globals, macros), C++ class/template graphs (inheritance, virtual methods, destructors, templates with used/unused parameters, alias templates, unions), compositions of unusual declarations (attribute zoo), and token/line mutants of repository headers that clang still accepts; crossed with 0..5 option groups drawn from 59 (derives, impl-debug/partialeq, enum/alias/union styles, namespaces, c-naming, explicit padding, use-core, ctypes-prefix, layout tests off, sort/merge passes, wrap-unsafe-ops, cstr, rust targets 1.51..1.85, editions 2018/2021/2024, raw lines, custom derives, ABI override) and 0..1 renaming callbacks (item/field/variant/function, prefix/suffix/keyword-producing). Non-trivial = output defining >=3 items of >=2 kinds under a non-default option set; distinct by hash(header, flags, callbacks)".into()
    }
    fn assumptions(&self) -> Vec<String> {
        vec![
            "rustc 1.95 is the only stable compiler present: acceptance for old --rust-target values is checked with it, in the selected edition (C14 checks that nothing newer than the target is used)".into(),
            "options documented as producing non-self-contained output are not drawn (no-recursive-allowlist, disable-name-namespacing, dynamic-loading, objc/block crates, represent-cxx-operators, use-distinct-char16_t)".into(),
            "nightly-only output (--rust-target nightly) is not compiled".into(),
        ]
    }
    fn shrink_steps(&self) -> usize {
        60
    }
    fn max_shrunk_signatures(&self) -> usize {
        4
    }
    fn strategy(&self, _tier: Tier) -> BoxedStrategy<Case> {
        let names: Vec<String> = corpus::load_all().into_iter().filter(repo_header_usable).map(|h| h.name).collect();
        let n = names.len();
        let names2 = names.clone();
        let src = prop_oneof![
            4 => program_strategy(GenCfg::everything()).prop_map(Source::Gen),
            2 => prop_oneof![c07::graph_strategy(8).boxed(), c07::graph_strategy_tb(8).boxed()].prop_map(Source::Cpp),
            2 => (any::<bool>(), proptest::collection::vec(any::<u16>(), 1..7)).prop_map(|(cpp, picks)| Source::Zoo { cpp, picks }),
            3 => (0..n, proptest::collection::vec(mutate::edit_strategy(), 1..4), 0..n).prop_map(move |(h, edits, s)| {
                let uses_splice = edits.iter().any(|e| matches!(e, Edit::Splice { .. }));
                Source::Mut { header: names[h].clone(), edits, splice_from: if uses_splice { Some(names2[s].clone()) } else { None } }
            }),
        ];
        (src, flags_strategy(), prop_oneof![3 => Just(vec![]), 1 => (0..CALLBACKS.len()).prop_map(|i| vec![CALLBACKS[i].to_string()])], any::<bool>())
            .prop_map(|(source, flags, callbacks, derive_all)| {
                // repository flag lines already carry their own options: mutants keep them
                let mut flags = if matches!(source, Source::Mut { .. }) { vec![] } else { flags };
                // class graphs: half of them with every derive requested (a derive through a base
                // or instantiation that lacks the trait does not compile)
                if derive_all && matches!(source, Source::Cpp(_) | Source::Zoo { .. }) {
                    for f in DERIVE_ALL {
                        if !flags.iter().any(|x| x == f) {
                            flags.push(f.to_string());
                        }
                    }
                }
                let callbacks = if matches!(source, Source::Gen(_)) { callbacks } else { callbacks.into_iter().filter(|c| !c.starts_with("item:")).collect() };
                Case { source, flags, callbacks, keep_known: false }
            })
            .boxed()
    }
    fn generated(&self, tier: Tier) -> usize {
        tier.pick(600, 12000)
    }
    fn fixed_cases(&self, _tier: Tier) -> Vec<Case> {
        let mut v: Vec<Case> = corpus::load_all().into_iter().filter(repo_header_usable).map(|h| Case { source: Source::Mut { header: h.name, edits: vec![], splice_from: None }, flags: vec![], callbacks: vec![], keep_known: false }).collect();
        v.extend(enum_grid());
        v.extend(alias_grid());
        v.extend(helper_in_namespace_grid());
        // C07's chains of class templates (root feature x links x concrete end) with every derive
        for c in c07::chain_grid() {
            if let c07::Case::Dag { graph, .. } = c {
                v.push(Case { source: Source::Cpp(graph), flags: DERIVE_ALL.iter().map(|f| f.to_string()).collect(), callbacks: vec![], keep_known: false });
            }
        }
        v
    }
    fn evaluate(&self, case: &Case, env: &Env) -> Outcome {
        let mut out = Outcome::new();
        let (input, text, cargs) = match self.build_input(case, &env.dir, &mut out) {
            Ok(x) => x,
            Err(e) => return out.inconclusive(e),
        };
        bg::write_files(&env.dir, &input.files);
        // mutants must still be accepted by clang
        if let Source::Mut { edits, .. } = &case.source {
            if !edits.is_empty() {
                let mut ca: Vec<String> = vec!["-nostdlibinc".into()];
                ca.extend(cargs.iter().cloned());
                match tools::clang_accepts(&env.dir, &input.headers[0], &ca) {
                    Ok((true, _)) => {}
                    Ok((false, _)) => {
                        out.class("mutant-rejected-by-clang (dropped)");
                        return out;
                    }
                    Err(e) => return out.inconclusive(e),
                }
            }
        }
        // mutants can crash libclang itself (e.g. `Bar: Bar();` inside a class template makes
        // clang_getCursorReferenced dereference null): a pre-flight in an isolated worker keeps
        // such an input from taking the whole run down; crashes are C12's subject
        if matches!(&case.source, Source::Mut { edits, .. } if !edits.is_empty()) {
            let pf = env.dir.join("preflight");
            let req = serde_json::json!({"op": "gen", "dir": pf.to_str().unwrap(), "input": input, "ops": []});
            bg::write_files(&pf, &input.files);
            match crate::worker::call(&req, 120) {
                crate::worker::Reply::Ok(_) => {}
                _ => {
                    out.class("generation-crashed-in-preflight (C12)");
                    return out;
                }
            }
        }
        let bindings = match bg::generate(&input, &env.dir) {
            BgResult::Ok(t) => t,
            BgResult::Err(e) if e.contains("ClangDiagnostic") => {
                // generator produced something clang rejects: not this property's subject
                out.class("header-rejected-by-clang");
                return out.inconclusive(format!("rejected by clang: {}\n{text}", e.chars().take(300).collect::<String>()));
            }
            other => {
                out.class("generation-failed (C12)");
                let _ = other;
                return out;
            }
        };
        let edition = edition_of(&input.flags);
        std::fs::write(env.dir.join("b.rs"), format!("#![allow(warnings)]\n{bindings}")).ok();
        let rc = tools::Rustc { dir: &env.dir, edition, nightly: false };
        let o = match rc.check_lib("b.rs") {
            Ok(o) => o,
            Err(e) => return out.inconclusive(e),
        };
        let kind = match &case.source {
            Source::Gen(_) => "gen-c",
            Source::Cpp(_) => "gen-cpp",
            Source::Zoo { cpp: true, .. } => "zoo-cpp",
            Source::Zoo { .. } => "zoo-c",
            Source::Text { .. } => "text",
            Source::Mut { edits, .. } if edits.is_empty() => "repo",
            Source::Mut { .. } => "mutant",
        };
        out.class(format!("source:{kind}"));
        if !o.ok() {
            let (code, mut skel) = error_class(&o.stderr);
            // refine classes whose root cause is visible in the notes
            if code == "E0588" && o.stderr.contains("__BindgenOpaqueArray") {
                skel = "packed-type-contains-aligned-opaque-array-helper".into();
            }
            if code == "E0080" {
                if let Some(c) = layout_class(case, &text, &o.stderr) {
                    skel = c;
                }
            }
            out.class(format!("rejected-by-rustc:{kind}"));
            out.fail(
                format!("rustc-rejects/{code}/{skel}"),
                format!("[{kind}] flags {:?} callbacks {:?} edition {edition}:\n{}\n--- header ---\n{}", input.flags, case.callbacks, o.stderr.chars().take(1800).collect::<String>(), text.chars().take(3000).collect::<String>()),
            );
            return out;
        }
        // old-style layout tests are functions: build the test harness and run them
        if bindings.contains("# [test]") || bindings.contains("#[test]") {
            let o = match rc.build_exe("b.rs", "b_tests.exe", &[], true) {
                Ok(o) => o,
                Err(e) => return out.inconclusive(e),
            };
            if !o.ok() {
                let (code, skel) = error_class(&o.stderr);
                out.fail(format!("rustc-rejects-test-build/{code}/{skel}"), format!("[{kind}] flags {:?}:\n{}", input.flags, o.stderr.chars().take(1500).collect::<String>()));
                return out;
            }
            match tools::run_exe(&env.dir, "b_tests.exe", &[], 120) {
                Ok(r) if !r.ok() => {
                    let failed: Vec<&str> = r.stdout.lines().filter(|l| l.contains("FAILED") || l.contains("panicked")).take(5).collect();
                    let mut sig = "layout-test-fn-fails".to_string();
                    let old_target = input.flags.iter().position(|f| f == "--rust-target").and_then(|i| input.flags.get(i + 1)).and_then(|t| t.split('.').nth(1).and_then(|m| m.parse::<u32>().ok())).map(|m| m < 71).unwrap_or(false);
                    if old_target && input.flags.iter().any(|f| f == "--override-abi") {
                        sig = "layout-test-fn-fails/override-abi-unavailable-fn-pointer".into();
                    } else {
                        // same root-cause classes as for the const-block form
                        let pseudo: String = failed.iter().filter_map(|l| l.split("bindgen_test_layout_").nth(1)).map(|r| format!("[\"Size of {}\"]\n", r.split(' ').next().unwrap_or(""))).collect();
                        if let Some(c) = layout_class(case, &text, &pseudo) {
                            sig = format!("rustc-rejects/E0080/{c}");
                        }
                    }
                    out.fail(sig, format!("[{kind}] flags {:?}: {failed:?}\n--- header ---\n{}", input.flags, text.chars().take(3000).collect::<String>()));
                }
                Ok(_) => out.class("ran-layout-test-fns"),
                Err(e) => return out.inconclusive(e),
            }
        }
        // non-triviality
        if let Ok(inv) = crate::rs::inventory(&bindings) {
            let kinds: BTreeSet<&str> = inv.items.iter().map(|i| i.kind.as_str()).collect();
            if inv.items.len() >= 3 && kinds.len() >= 2 && (!case.flags.is_empty() || !case.callbacks.is_empty() || kind == "repo" || kind == "mutant") {
                out.nontrivial(format!("{:x}", fnv(&format!("{text}{:?}{:?}", input.flags, case.callbacks))));
            }
        }
        if !case.callbacks.is_empty() {
            out.class("with-renaming-callback");
        }
        out.sample = Some(json!({"kind": kind, "flags": input.flags, "callbacks": case.callbacks, "edition": edition, "header_head": text.chars().take(400).collect::<String>()}));
        out
    }
}
