//! C09 — allowlisting yields a self-contained, minimal, consistent subset of bindings.
//! Generated declaration graphs with a known dependency relation; roots picked by generated
//! regular expressions of the five allowlist kinds (plus blocklists and --no-recursive-allowlist).
//! Oracle: (a) every matching item and (b) its model closure are emitted, (c) nothing outside
//! the closure is, (d) every emitted item is token-identical to the same item of the full
//! bindings, (e) the allowlisted module compiles on its own whenever the full one does.

use crate::bg::{self, BgInput, BgResult};
use crate::cmodel::*;
use crate::engine::{fnv, Env, Outcome, Property, Tier};
use crate::rs::{self, Inventory};
use crate::tools;
use proptest::prelude::*;
use serde::{Deserialize, Serialize};
use serde_json::json;
use std::collections::{BTreeMap, BTreeSet};

pub struct C09;

#[derive(Clone, Copy, Debug, Serialize, Deserialize, PartialEq, Eq)]
pub enum Form {
    Literal,
    /// `X.*`
    PrefixStar,
    /// `X|Y`
    Alternation,
    /// last character replaced by a class: `N1[0-2]`
    CharClass,
    /// `(X)`
    Group,
    /// `X(_t)?`
    OptionalSuffix,
    /// `.*X` (suffix match)
    StarSuffix,
}

#[derive(Clone, Debug, Serialize, Deserialize)]
pub struct Root {
    pub pick: u16,
    pub other: u16,
    pub form: Form,
    /// use --allowlist-item instead of the kind-specific flag
    pub as_item: bool,
}

#[derive(Clone, Debug, Serialize, Deserialize)]
pub struct Case {
    pub prog: Program,
    pub roots: Vec<Root>,
    /// declarations blocklisted at the same time (scaled picks)
    pub blocklist: Vec<u16>,
    pub no_recursive: bool,
    /// the first k declarations live in `first.h`; allowlist that file instead of names
    pub by_file: Option<u8>,
    pub flags: Vec<String>,
    #[serde(default)]
    pub keep_known: bool,
    /// snippets with unusual reference edges appended after the program (index into TAIL_SNIPPETS)
    #[serde(default)]
    pub tail: Vec<u8>,
}

#[derive(Clone, Copy, Debug, PartialEq, Eq, PartialOrd, Ord)]
enum Kind {
    Type,
    Func,
    Var,
}

#[derive(Clone, Debug)]
struct ItemSpec {
    c_name: String,
    kind: Kind,
    decl: usize,
    /// `typedef struct X {..} X_t;`: the alias item (refers to the tag item of the same decl)
    is_alias: bool,
}

/// Declarations whose references run over the less common IR edges (vector element types,
/// function types, arrays of array typedefs, bit-fields of enum type, pointees, signatures of
/// function-pointer variables ..). `{j}` makes the names unique; each entry lists
/// (name, kind, names it refers to).
struct Snippet {
    text: &'static str,
    items: &'static [(&'static str, char, &'static [&'static str])],
}

const TAIL_SNIPPETS: &[Snippet] = &[
    Snippet { text: "typedef float X{j}e;\ntypedef X{j}e X{j}v __attribute__((vector_size(16)));\nstruct X{j}s { X{j}v v; };\n", items: &[("X{j}e", 't', &[]), ("X{j}v", 't', &["X{j}e"]), ("X{j}s", 't', &["X{j}v"])] },
    Snippet { text: "typedef int X{j}e;\ntypedef X{j}e X{j}ft(X{j}e, char);\nstruct X{j}s { X{j}ft *f; };\n", items: &[("X{j}e", 't', &[]), ("X{j}ft", 't', &["X{j}e"]), ("X{j}s", 't', &["X{j}ft"])] },
    Snippet { text: "typedef short X{j}e;\nX{j}e (*X{j}f(void))[3];\n", items: &[("X{j}e", 't', &[]), ("X{j}f", 'f', &["X{j}e"])] },
    Snippet { text: "enum X{j}e { X{j}e_A, X{j}e_B };\nstruct X{j}s { enum X{j}e e : 3; int rest : 5; };\n", items: &[("X{j}e", 't', &[]), ("X{j}s", 't', &["X{j}e"])] },
    Snippet { text: "typedef long X{j}e;\ntypedef X{j}e X{j}a[2];\nstruct X{j}s { X{j}a a[3]; };\n", items: &[("X{j}e", 't', &[]), ("X{j}a", 't', &["X{j}e"]), ("X{j}s", 't', &["X{j}a"])] },
    Snippet { text: "struct X{j}i;\nstruct X{j}s { struct X{j}i **pp; };\n", items: &[("X{j}i", 't', &[]), ("X{j}s", 't', &["X{j}i"])] },
    Snippet { text: "typedef unsigned X{j}e;\nstruct X{j}s { union { X{j}e e; char c; } u; struct { X{j}e *p; }; };\n", items: &[("X{j}e", 't', &[]), ("X{j}s", 't', &["X{j}e"])] },
    Snippet { text: "typedef double X{j}e;\ntypedef struct { int k; } X{j}p;\nvoid X{j}f(X{j}e first, ...);\nextern X{j}e (*X{j}g)(X{j}p *, int);\n", items: &[("X{j}e", 't', &[]), ("X{j}p", 't', &[]), ("X{j}f", 'f', &["X{j}e"]), ("X{j}g", 'v', &["X{j}e", "X{j}p"])] },
    Snippet { text: "typedef int X{j}e;\nstruct X{j}s { const volatile X{j}e e; X{j}e (*cb)(const X{j}e *); };\nextern const struct X{j}s X{j}g[2];\n", items: &[("X{j}e", 't', &[]), ("X{j}s", 't', &["X{j}e"]), ("X{j}g", 'v', &["X{j}s"])] },
    Snippet { text: "typedef float X{j}e;\nstruct X{j}s { _Complex float c; X{j}e r; };\ntypedef struct X{j}s X{j}t;\nX{j}t *X{j}f(X{j}t);\n", items: &[("X{j}e", 't', &[]), ("X{j}s", 't', &["X{j}e"]), ("X{j}t", 't', &["X{j}s"]), ("X{j}f", 'f', &["X{j}t"])] },
    // constants with an evaluated initialiser still need their declared type
    Snippet { text: "typedef unsigned short X{j}e;\nstatic const X{j}e X{j}g = 8080;\n", items: &[("X{j}e", 't', &[]), ("X{j}g", 'v', &["X{j}e"])] },
    Snippet { text: "enum X{j}n { X{j}n_A, X{j}n_B };\nstatic const enum X{j}n X{j}h = X{j}n_B;\n", items: &[("X{j}n", 't', &[]), ("X{j}h", 'v', &["X{j}n"])] },
    Snippet { text: "typedef double X{j}d;\nstatic const X{j}d X{j}k = 1.5;\ntypedef signed char X{j}c;\nstatic const X{j}c X{j}m = -3;\n", items: &[("X{j}d", 't', &[]), ("X{j}k", 'v', &["X{j}d"]), ("X{j}c", 't', &[]), ("X{j}m", 'v', &["X{j}c"])] },
    Snippet { text: "typedef int X{j}e;\nstatic const X{j}e X{j}arr[2] = {1, 2};\ntypedef X{j}e X{j}e2;\nstatic const X{j}e2 X{j}q = 7;\n", items: &[("X{j}e", 't', &[]), ("X{j}arr", 'v', &["X{j}e"]), ("X{j}e2", 't', &["X{j}e"]), ("X{j}q", 'v', &["X{j}e2"])] },
    // a typedef that is only the declared type of a bit-field; a parameter called `this`
    Snippet { text: "typedef unsigned X{j}e;\ntypedef unsigned char X{j}m;\nstruct X{j}s { X{j}e flags : 3; X{j}m mode : 2; int rest : 5; };\n", items: &[("X{j}e", 't', &[]), ("X{j}m", 't', &[]), ("X{j}s", 't', &["X{j}e", "X{j}m"])] },
    Snippet { text: "struct X{j}w { int k; };\nstruct X{j}c { int z; };\nint X{j}f(struct X{j}w *this, struct X{j}c *self, int n);\nextern int (*X{j}g)(struct X{j}w *this);\n", items: &[("X{j}w", 't', &[]), ("X{j}c", 't', &[]), ("X{j}f", 'f', &["X{j}w", "X{j}c"]), ("X{j}g", 'v', &["X{j}w"])] },
];

/// Every item of every snippet as the only root, on an otherwise empty header, with the
/// kind-specific flag and with `--allowlist-item`, recursively and not.
fn snippet_grid() -> Vec<Case> {
    let mut v = vec![];
    for (s, sn) in TAIL_SNIPPETS.iter().enumerate() {
        let n = sn.items.len();
        for i in 0..n {
            for as_item in [false, true] {
                for no_recursive in [false, true] {
                    let pick = (((i << 16) + (1 << 15)) / n) as u16;
                    v.push(Case {
                        prog: Program { decls: vec![] },
                        roots: vec![Root { pick, other: pick, form: Form::Literal, as_item }],
                        blocklist: vec![],
                        no_recursive,
                        by_file: None,
                        flags: vec![],
                        keep_known: false,
                        tail: vec![s as u8],
                    });
                }
            }
        }
    }
    v
}

fn tern(mut i: usize) -> String {
    if i == 0 {
        return "0".into();
    }
    let mut s = vec![];
    while i > 0 {
        s.push(b'0' + (i % 3) as u8);
        i /= 3;
    }
    s.reverse();
    String::from_utf8(s).unwrap()
}

/// Short names in which many are proper prefixes of others (N1, N10, N11, N100 ..).
fn rename(p: &mut Program) {
    for (i, d) in p.decls.iter_mut().enumerate() {
        let base = format!("N{}", tern(i));
        match d {
            Decl::Comp(c) => match (&mut c.tag, &mut c.typedef_name) {
                (Some(t), Some(td)) => {
                    *t = base.clone();
                    *td = format!("{base}_t");
                }
                (Some(t), None) => *t = base,
                (None, Some(td)) => *td = base,
                (None, None) => c.tag = Some(base),
            },
            Decl::Enum(e) => {
                for (k, (n, _)) in e.variants.iter_mut().enumerate() {
                    *n = format!("{base}_V{k}");
                }
                match (&mut e.tag, &mut e.typedef_name) {
                    (Some(t), Some(td)) => {
                        *t = base.clone();
                        *td = format!("{base}_t");
                    }
                    (Some(t), None) => *t = base,
                    (None, Some(td)) => *td = base,
                    (None, None) => e.tag = Some(base),
                }
            }
            Decl::Typedef { name, .. } | Decl::Var { name, .. } | Decl::Macro { name, .. } => *name = base,
            Decl::Func(f) => f.name = base,
            Decl::Opaque { tag } => *tag = base,
        }
    }
}

fn items_of(p: &Program) -> Vec<ItemSpec> {
    let mut v = vec![];
    for (i, d) in p.decls.iter().enumerate() {
        let mut two = |tag: &Option<String>, td: &Option<String>| match (tag, td) {
            (Some(t), Some(a)) => {
                v.push(ItemSpec { c_name: t.clone(), kind: Kind::Type, decl: i, is_alias: false });
                v.push(ItemSpec { c_name: a.clone(), kind: Kind::Type, decl: i, is_alias: true });
            }
            (Some(t), None) | (None, Some(t)) => v.push(ItemSpec { c_name: t.clone(), kind: Kind::Type, decl: i, is_alias: false }),
            _ => {}
        };
        match d {
            Decl::Comp(c) => two(&c.tag, &c.typedef_name),
            Decl::Enum(e) => two(&e.tag, &e.typedef_name),
            Decl::Typedef { name, .. } => v.push(ItemSpec { c_name: name.clone(), kind: Kind::Type, decl: i, is_alias: false }),
            Decl::Opaque { tag } => v.push(ItemSpec { c_name: tag.clone(), kind: Kind::Type, decl: i, is_alias: false }),
            Decl::Func(f) => v.push(ItemSpec { c_name: f.name.clone(), kind: Kind::Func, decl: i, is_alias: false }),
            Decl::Var { name, .. } | Decl::Macro { name, .. } => v.push(ItemSpec { c_name: name.clone(), kind: Kind::Var, decl: i, is_alias: false }),
        }
    }
    v
}

/// declarations a declaration refers to (any way: by value, through pointers, in signatures)
fn refs_of(p: &Program, i: usize) -> BTreeSet<usize> {
    let mut out = BTreeSet::new();
    fn comp(c: &Comp, out: &mut BTreeSet<usize>) {
        for f in &c.fields {
            match &f.ty {
                FieldTy::Ty(t) => t.named_refs(out, false),
                FieldTy::Inline(ic) => comp(ic, out),
            }
        }
    }
    match &p.decls[i] {
        Decl::Comp(c) => comp(c, &mut out),
        Decl::Typedef { ty, .. } | Decl::Var { ty, .. } => ty.named_refs(&mut out, false),
        Decl::Func(f) => {
            f.ret.named_refs(&mut out, false);
            for (_, t) in &f.params {
                t.named_refs(&mut out, false);
            }
        }
        _ => {}
    }
    out
}

const FLAG_GROUPS: &[&[&str]] = &[
    &["--with-derive-default"],
    &["--with-derive-hash", "--with-derive-partialeq", "--with-derive-eq"],
    &["--impl-debug"],
    &["--no-layout-tests"],
    &["--default-enum-style", "rust"],
    &["--default-enum-style", "newtype"],
    &["--default-enum-style", "moduleconsts"],
    &["--sort-semantically"],
    &["--merge-extern-blocks"],
    &["--rust-target", "1.64"],
    &["--default-alias-style", "new_type"],
];

fn flags_strategy() -> BoxedStrategy<Vec<String>> {
    proptest::collection::vec(0..FLAG_GROUPS.len(), 0..3)
        .prop_map(|idx| {
            let mut flags: Vec<String> = vec![];
            let mut seen: BTreeSet<&str> = BTreeSet::new();
            for i in idx {
                let g = FLAG_GROUPS[i];
                if seen.contains(g[0]) {
                    continue;
                }
                seen.insert(g[0]);
                flags.extend(g.iter().map(|s| s.to_string()));
            }
            flags
        })
        .boxed()
}

fn is_helper(name: &str) -> bool {
    Inventory::is_helper(name) || name.starts_with("__Bindgen") || name.starts_with("__IncompleteArrayField") || name.starts_with("_bindgen_ty_") || name.starts_with("__BindgenComplex") || name == "__BindgenFloat16" || name.starts_with("__u128") || name.starts_with("__int128")
}

impl Property for C09 {
    type Case = Case;
    fn id(&self) -> &'static str {
        "C09"
    }
    fn rule(&self) -> String {
        "generated C programs of 3..20 declarations (structs/unions with nested members, enums, typedefs, functions, variables, macros, forward declarations) renamed so that many names are proper prefixes of others (N1, N10, N11, N1_t ..); 1..3 root patterns in seven regular-expression forms (literal, prefix.*, alternation, character class, group, optional suffix, .*suffix) over the kind-specific flags or --allowlist-item, or --allowlist-file over a leading run of declarations; 0..2 simultaneous blocklists; --no-recursive-allowlist in a quarter of the cases; 0..2 derive/style/postprocessing options. Expected roots come from the `regex` crate applied to whole names; the closure from the generator's own reference relation. Non-trivial = a root whose closure contains at least one declaration that is not a root, or a literal root that is a proper prefix of another name; distinct by (header, flags)".into()
    }
    fn assumptions(&self) -> Vec<String> {
        vec![
            "C only: namespaces and methods of the quantifier are exercised through repository headers in C12/C01, not here".into(),
            "item identity between the two outputs is (kind, name); nested and enumerator items are owned by the declaration whose name prefixes theirs".into(),
            "the compile step is differential: an error class that the full bindings show too is C01's subject".into(),
        ]
    }
    fn strategy(&self, _tier: Tier) -> BoxedStrategy<Case> {
        let form = prop_oneof![4 => Just(Form::Literal), 2 => Just(Form::PrefixStar), 2 => Just(Form::Alternation), 2 => Just(Form::CharClass), 1 => Just(Form::Group), 1 => Just(Form::OptionalSuffix), 1 => Just(Form::StarSuffix)];
        let root = (any::<u16>(), any::<u16>(), form, proptest::bool::weighted(0.3)).prop_map(|(pick, other, form, as_item)| Root { pick, other, form, as_item });
        (
            program_strategy(GenCfg { keyword_names: false, ..GenCfg::everything() }),
            proptest::collection::vec(root, 1..4),
            proptest::collection::vec(any::<u16>(), 0..3),
            proptest::bool::weighted(0.25),
            proptest::option::weighted(0.12, 1u8..5),
            flags_strategy(),
            proptest::collection::vec(0u8..TAIL_SNIPPETS.len() as u8, 0..3),
        )
            .prop_map(|(prog, roots, blocklist, no_recursive, by_file, flags, tail)| Case { prog, roots, blocklist, no_recursive, by_file, flags, keep_known: false, tail })
            .boxed()
    }
    fn generated(&self, tier: Tier) -> usize {
        tier.pick(1500, 30000)
    }
    fn fixed_cases(&self, _tier: Tier) -> Vec<Case> {
        snippet_grid()
    }
    fn shrink_steps(&self) -> usize {
        80
    }
    fn max_shrunk_signatures(&self) -> usize {
        4
    }
    fn evaluate(&self, case: &Case, env: &Env) -> Outcome {
        let mut out = Outcome::new();
        out.evaluations = 0;
        let mut prog = case.prog.clone();
        prog.normalise();
        if !case.keep_known {
            out.excluded_known += prog.strip_unrepresentable();
        }
        rename(&mut prog);
        let n = prog.decls.len();
        let mut items = items_of(&prog);
        // tail snippets: items with declaration numbers from n upwards and explicit references
        let mut tail_text = String::new();
        let mut tail_refs: BTreeMap<usize, Vec<String>> = BTreeMap::new();
        for (j, k) in case.tail.iter().enumerate() {
            let sn = &TAIL_SNIPPETS[*k as usize % TAIL_SNIPPETS.len()];
            let js = j.to_string();
            tail_text.push_str(&sn.text.replace("{j}", &js));
            for (name, kind, refs) in sn.items {
                let d = n + items.len() + 1000 * (j + 1);
                items.push(ItemSpec { c_name: name.replace("{j}", &js), kind: match kind { 't' => Kind::Type, 'f' => Kind::Func, _ => Kind::Var }, decl: d, is_alias: false });
                tail_refs.insert(d, refs.iter().map(|r| r.replace("{j}", &js)).collect());
            }
            out.class(format!("tail:{k}"));
        }
        if items.is_empty() {
            return out;
        }
        // ---- headers
        let k_file = case.by_file.map(|k| (k as usize).min(n.saturating_sub(1))).unwrap_or(0);
        let mut first = String::new();
        let mut main = String::new();
        if k_file > 0 {
            main.push_str("#include \"first.h\"\n");
        }
        for (i, d) in prog.decls.iter().enumerate() {
            let t = render_decl(&prog, d);
            if i < k_file {
                first.push_str(&t);
            } else {
                main.push_str(&t);
            }
        }
        main.push_str(&tail_text);
        std::fs::write(env.dir.join("first.h"), &first).ok();
        std::fs::write(env.dir.join("in.h"), &main).ok();
        let header_text = if k_file > 0 { format!("// first.h\n{first}// in.h\n{main}") } else { main.clone() };
        // ---- patterns, expected roots
        let pick = |p: u16| -> &ItemSpec { &items[(p as usize * items.len()) >> 16] };
        let mut flags: Vec<String> = vec!["--no-include-path-detection".into(), "--formatter=none".into()];
        flags.extend(case.flags.iter().cloned());
        let mut allow: Vec<String> = vec![];
        let mut root_items: BTreeSet<usize> = BTreeSet::new(); // indices into `items`
        let mut prefix_trap = false;
        if k_file > 0 {
            allow.extend(["--allowlist-file".to_string(), ".*first\\.h".to_string()]);
            for (k, it) in items.iter().enumerate() {
                if it.decl < k_file {
                    root_items.insert(k);
                }
            }
        } else {
            for r in &case.roots {
                let it = pick(r.pick);
                let x = &it.c_name;
                let pat = match r.form {
                    Form::Literal => x.clone(),
                    Form::PrefixStar => format!("{x}.*"),
                    Form::Alternation => format!("{x}|{}", pick(r.other).c_name),
                    Form::CharClass => {
                        let (head, last) = x.split_at(x.len() - 1);
                        if last.chars().all(|c| c.is_ascii_digit()) {
                            format!("{head}[0-2]")
                        } else {
                            format!("{head}[a-z_]")
                        }
                    }
                    Form::Group => format!("({x})"),
                    Form::OptionalSuffix => format!("{x}(_t)?"),
                    // `.*00` also matches the id-derived internal names of anonymous function and
                    // pointer types (known finding): only the replay of that finding uses it
                    Form::StarSuffix if case.keep_known => format!(".*{}", &x[x.len().saturating_sub(2)..]),
                    Form::StarSuffix => format!("[A-Z][0-9]*{}", &x[x.len().saturating_sub(2)..]),
                };
                let re = regex::Regex::new(&format!("^(?:{pat})$")).expect("generated pattern");
                let flag = if r.as_item {
                    "--allowlist-item"
                } else {
                    match it.kind {
                        Kind::Type => "--allowlist-type",
                        Kind::Func => "--allowlist-function",
                        Kind::Var => "--allowlist-var",
                    }
                };
                allow.push(flag.to_string());
                allow.push(pat.clone());
                for (k, other) in items.iter().enumerate() {
                    let kind_ok = r.as_item || other.kind == it.kind;
                    if kind_ok && re.is_match(&other.c_name) {
                        root_items.insert(k);
                    }
                }
                if r.form == Form::Literal && items.iter().any(|o| o.c_name != *x && o.c_name.starts_with(x.as_str()) && (r.as_item || o.kind == it.kind)) {
                    prefix_trap = true;
                }
                out.class(format!("form:{:?}", r.form));
                out.class(format!("flag:{flag}"));
            }
        }
        // blocklists: by the kind-specific flag
        let mut blocked_items: BTreeSet<usize> = BTreeSet::new();
        let mut block: Vec<String> = vec![];
        for b in &case.blocklist {
            let k = (*b as usize * items.len()) >> 16;
            let it = &items[k];
            if it.is_alias {
                continue;
            }
            let flag = match it.kind {
                Kind::Type => "--blocklist-type",
                Kind::Func => "--blocklist-function",
                Kind::Var => "--blocklist-var",
            };
            if blocked_items.insert(k) {
                block.push(flag.to_string());
                block.push(it.c_name.clone());
            }
        }
        // an item of the same declaration (alias of a blocked tag) is still its own item
        // ---- model closure over items
        let tag_item_of_decl: BTreeMap<usize, usize> = items.iter().enumerate().filter(|(_, it)| !it.is_alias).map(|(k, it)| (it.decl, k)).collect();
        // a use of a declaration spells its typedef name when it has one
        let use_item_of_decl: BTreeMap<usize, usize> = {
            let mut m = tag_item_of_decl.clone();
            for (k, it) in items.iter().enumerate() {
                if it.is_alias {
                    m.insert(it.decl, k);
                }
            }
            m
        };
        // bindgen walks *through* blocklisted items (what they need is still emitted) and only
        // leaves the blocklisted items themselves out
        let mut reached: BTreeSet<usize> = BTreeSet::new();
        let mut work: Vec<usize> = root_items.iter().copied().collect();
        let roots_effective: BTreeSet<usize> = work.iter().copied().filter(|k| !blocked_items.contains(k)).collect();
        while let Some(k) = work.pop() {
            if !reached.insert(k) {
                continue;
            }
            if case.no_recursive {
                continue;
            }
            let it = &items[k];
            if it.is_alias {
                work.push(tag_item_of_decl[&it.decl]);
            } else if let Some(names) = tail_refs.get(&it.decl) {
                for nm in names {
                    if let Some(t) = items.iter().position(|x| x.c_name == *nm) {
                        work.push(t);
                    }
                }
            } else {
                for d in refs_of(&prog, it.decl) {
                    if let Some(t) = use_item_of_decl.get(&d) {
                        work.push(*t);
                    }
                }
            }
        }
        let closure: BTreeSet<usize> = reached.iter().copied().filter(|k| !blocked_items.contains(k)).collect();
        // ---- run bindgen twice
        let run = |extra: &[String], tag: &str| -> Result<(String, Inventory), String> {
            let mut f = flags.clone();
            f.extend(extra.iter().cloned());
            let input = BgInput { files: vec![], headers: vec!["in.h".into()], flags: f, clang_args: vec!["-std=gnu11".into()], callbacks: vec![] };
            match bg::generate(&input, &env.dir) {
                BgResult::Ok(t) => {
                    let _ = std::fs::write(env.dir.join(format!("{tag}.rs")), format!("#![allow(warnings)]\n{t}"));
                    rs::inventory(&t).map(|i| (t, i)).map_err(|e| format!("unparseable: {e}"))
                }
                other => Err(other.describe()),
            }
        };
        let (_full_text, full) = match run(&block, "full") {
            Ok(x) => x,
            Err(e) => return out.inconclusive(format!("full bindings: {e}\n{header_text}")),
        };
        out.evaluations += 1;
        let mut extra = allow.clone();
        extra.extend(block.iter().cloned());
        if case.no_recursive {
            extra.push("--no-recursive-allowlist".into());
        }
        let ctx = |what: &str| format!("{what}\nallowlist {allow:?} blocklist {block:?} no_recursive={} flags {:?}\n--- header ---\n{header_text}", case.no_recursive, case.flags);
        let (_sub_text, sub) = match run(&extra, "sub") {
            Ok(x) => x,
            Err(e) => {
                out.fail("generation-failed", ctx(&e));
                return out;
            }
        };
        out.evaluations += 1;
        // ---- item maps: (kind, module, name) -> text
        let key = |it: &rs::Item| -> Option<(String, String)> {
            match it.kind.as_str() {
                "struct" | "union" | "enum" | "type" | "const" | "static" | "foreign_fn" | "foreign_static" | "fn" | "use" | "mod" => Some((it.kind.clone(), format!("{}::{}", it.module, it.name))),
                _ => None,
            }
        };
        let full_map: BTreeMap<(String, String), String> = full.items.iter().filter_map(|it| key(it).map(|k| (k, it.text.clone()))).collect();
        let sub_map: BTreeMap<(String, String), String> = sub.items.iter().filter_map(|it| key(it).map(|k| (k, it.text.clone()))).collect();
        // owner of an emitted name: the item with the longest name that equals it or prefixes it with `_`
        let owner = |name: &str| -> Option<usize> {
            let mut best: Option<usize> = None;
            for (k, it) in items.iter().enumerate() {
                let x = it.c_name.as_str();
                let owns = name == x || name == format!("{x}_") || (name.starts_with(x) && name[x.len()..].starts_with('_'));
                if owns && best.map(|b| items[b].c_name.len() < x.len()).unwrap_or(true) {
                    best = Some(k);
                }
            }
            best
        };
        let mode = if case.no_recursive { "no-recursive" } else { "recursive" };
        // (a)+(b) presence
        for k in &closure {
            let it = &items[*k];
            let name = &it.c_name;
            let in_full = full.items.iter().any(|x| x.name == *name || x.name == format!("{name}_"));
            if !in_full {
                continue; // nothing is generated for it at all (e.g. an unused macro without value)
            }
            let in_sub = sub.items.iter().any(|x| x.name == *name || x.name == format!("{name}_"));
            if !in_sub {
                if roots_effective.contains(k) {
                    out.fail(format!("missing/root/{mode}"), ctx(&format!("`{name}` matches an allowlist pattern and is in the full bindings but not in the allowlisted ones")));
                } else {
                    // bindgen may spell a use without the typedef (a const-qualified alias is resolved):
                    // whether a dependency is really needed is decided by compiling the module
                    out.class("model-dependency-not-emitted");
                }
            }
        }
        // (c) minimality and (d) identity
        for (k, text) in &sub_map {
            let name = k.1.rsplit("::").next().unwrap_or("");
            if is_helper(name) || k.0 == "mod" || k.0 == "use" {
                continue;
            }
            match owner(name) {
                None => {
                    if !full_map.contains_key(k) {
                        out.fail(format!("unexpected-item/{mode}"), ctx(&format!("{} `{name}` is emitted only with the allowlist", k.0)));
                    }
                }
                Some(o) => {
                    // an alias item is owned by the alias spec only on exact match
                    let matches_pattern_itself = allow.chunks(2).any(|fp| fp[0] != "--allowlist-file" && regex::Regex::new(&format!("^(?:{})$", fp[1])).map(|re| re.is_match(name)).unwrap_or(false));
                    if !closure.contains(&o) && !matches_pattern_itself {
                        // enumerators and nested types are owned through their declaration's tag item
                        let same_decl_in_closure = closure.iter().any(|c| items[*c].decl == items[o].decl && !items[*c].is_alias && !items[o].is_alias);
                        // bindgen walks through a blocklisted item: its nested types are emitted
                        let nested_of_reached = name != items[o].c_name && reached.contains(&o);
                        if !same_decl_in_closure && !nested_of_reached {
                            let blocked = blocked_items.contains(&o);
                            let star = case.keep_known && case.roots.iter().any(|r| r.form == Form::StarSuffix);
                            out.fail(format!("{}/{mode}{}", if blocked { "blocklisted-emitted" } else { "not-minimal" }, if star { "/star-suffix-pattern" } else { "" }), ctx(&format!("{} `{name}` (owner `{}`) is emitted but is not needed by any allowlisted item; closure = {:?}", k.0, items[o].c_name, closure.iter().map(|c| items[*c].c_name.as_str()).collect::<Vec<_>>())));
                        }
                    }
                }
            }
            let strip = |t: &str| -> String {
                if case.no_recursive {
                    // what is not allowlisted is unknown to the derive analysis: derive lists may shrink
                    regex::Regex::new(r"# \[ derive \( [^\]]*\) \]").unwrap().replace_all(t, "").split_whitespace().collect::<Vec<_>>().join(" ")
                } else {
                    t.to_string()
                }
            };
            match full_map.get(k) {
                Some(ft) if strip(ft) != strip(text) => {
                    let (a, b) = (strip(ft), strip(text));
                    let at = a.chars().zip(b.chars()).position(|(x, y)| x != y).unwrap_or(a.len().min(b.len()));
                    let from = at.saturating_sub(60);
                    out.fail(format!("text-differs/{}/{mode}", k.0), ctx(&format!("{} `{name}` differs at {at}:\n  full: ..{}\n  allowlisted: ..{}", k.0, a.chars().skip(from).take(200).collect::<String>(), b.chars().skip(from).take(200).collect::<String>())));
                }
                _ => {}
            }
        }
        // layout assertions of emitted types are the same
        for a in &sub.asserts {
            if let Some(fa) = full.asserts.iter().find(|x| x.module == a.module && x.ty == a.ty) {
                if fa != a {
                    out.fail(format!("assert-differs/{mode}"), ctx(&format!("layout assertion of `{}` differs", a.ty)));
                }
            }
        }
        // (e) self-contained
        if !case.no_recursive {
            let rc = tools::Rustc { dir: &env.dir, edition: "2021", nightly: false };
            match rc.check_lib("sub.rs") {
                Ok(o) if !o.ok() => {
                    let classes = |stderr: &str| -> BTreeSet<(String, String)> {
                        let lines: Vec<&str> = stderr.lines().collect();
                        let mut v = BTreeSet::new();
                        for (k, l) in lines.iter().enumerate() {
                            if l.starts_with("error") && !l.starts_with("error: aborting") {
                                v.insert(crate::props::c01::error_class(&lines[k..].join("\n")));
                            }
                        }
                        v
                    };
                    let mine = classes(&o.stderr);
                    let theirs = match rc.check_lib("full.rs") {
                        Ok(f) if !f.ok() => classes(&f.stderr),
                        _ => BTreeSet::new(),
                    };
                    let new_ones: Vec<&(String, String)> = mine.difference(&theirs).collect();
                    if let Some((code, class)) = new_ones.first() {
                        out.fail(format!("not-self-contained/{code}/{class}"), ctx(&o.stderr.chars().take(1500).collect::<String>()));
                    } else {
                        out.excluded_known += 1;
                    }
                }
                Ok(_) => {}
                Err(e) => return out.inconclusive(format!("rustc: {e}")),
            }
        }
        out.class(format!("mode:{mode}"));
        if k_file > 0 {
            out.class("roots:by-file");
        }
        if !block.is_empty() {
            out.class("with-blocklist");
        }
        let has_dep = closure.len() > roots_effective.len();
        if has_dep || prefix_trap {
            out.nontrivial(format!("{:x}", fnv(&format!("{header_text}{allow:?}{block:?}{}", case.no_recursive))));
        }
        if prefix_trap {
            out.class("literal-root-is-a-proper-prefix");
        }
        out.sample = Some(json!({"header": header_text, "allowlist": allow, "blocklist": block, "no_recursive": case.no_recursive, "closure": closure.iter().map(|c| items[*c].c_name.clone()).collect::<Vec<_>>()}));
        out
    }
}
