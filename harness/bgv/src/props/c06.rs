//! C06 — embedded layout assertions are complete and state the C compiler's numbers.
//! Completeness from the syn inventory; numbers against a constant table compiled by
//! `clang --target=T -S -emit-llvm` for eight targets; off switch by inventory equality.

use crate::bg::{self, BgInput, BgResult};
use crate::cmodel::*;
use crate::engine::{fnv, Env, Outcome, Property, Tier};
use crate::probe::{element_type, is_wrapper};
use crate::props::c07;
use crate::rs::{self, Inventory, Item};
use crate::tools;
use proptest::prelude::*;
use serde::{Deserialize, Serialize};
use serde_json::json;
use std::collections::BTreeMap;

pub struct C06;

pub const TARGETS: &[&str] = &[
    "x86_64-unknown-linux-gnu",
    "i686-unknown-linux-gnu",
    "aarch64-unknown-linux-gnu",
    "armv7-unknown-linux-gnueabihf",
    "riscv64-unknown-linux-gnu",
    "x86_64-pc-windows-msvc",
    "i686-pc-windows-msvc",
    "wasm32-unknown-unknown",
];

#[derive(Clone, Debug, Serialize, Deserialize)]
pub enum Case {
    C {
        prog: Program,
        targets: Vec<usize>,
        old_rust_target: bool,
        namespaces: bool,
        #[serde(default)]
        keep_known: bool,
    },
    Cpp {
        graph: c07::Graph,
        targets: Vec<usize>,
        old_rust_target: bool,
    },
    /// namespaces with equally named types, templates instantiated over them, classes with
    /// several (polymorphic) bases
    Zoo {
        zoo: Zoo,
        targets: Vec<usize>,
        old_rust_target: bool,
        namespaces: bool,
    },
}

#[derive(Clone, Copy, Debug, Serialize, Deserialize, PartialEq, Eq)]
pub enum ZPrim {
    Char,
    Short,
    Int,
    LongLong,
    Double,
    VoidPtr,
}

impl ZPrim {
    const ALL: &'static [ZPrim] = &[ZPrim::Char, ZPrim::Short, ZPrim::Int, ZPrim::LongLong, ZPrim::Double, ZPrim::VoidPtr];
    fn c(self) -> &'static str {
        match self {
            ZPrim::Char => "char",
            ZPrim::Short => "short",
            ZPrim::Int => "int",
            ZPrim::LongLong => "long long",
            ZPrim::Double => "double",
            ZPrim::VoidPtr => "void*",
        }
    }
}

#[derive(Clone, Debug, Serialize, Deserialize, PartialEq, Eq)]
pub enum TArg {
    Prim(ZPrim),
    /// (namespace index, item index), scaled into what exists
    Item(u16, u16),
    /// an earlier class
    Class(u16),
    /// Box<arg>
    Box(Box<TArg>),
}

#[derive(Clone, Debug, Serialize, Deserialize, PartialEq, Eq)]
pub enum ZField {
    Prim(ZPrim),
    Arr(ZPrim, u8),
    Item(u16, u16),
    Class(u16),
    Box(TArg),
    Pair(TArg, TArg),
    PtrBox(TArg),
    /// `const Box<arg> f;`: an instantiation that is only ever used const-qualified
    ConstBox(TArg),
    ConstPair(TArg, TArg),
}

#[derive(Clone, Debug, Serialize, Deserialize, PartialEq, Eq)]
pub struct ZClass {
    pub bases: Vec<u16>,
    pub polymorphic: bool,
    pub fields: Vec<ZField>,
}

#[derive(Clone, Debug, Serialize, Deserialize, PartialEq, Eq)]
pub struct Zoo {
    /// per namespace: items, each a list of member types; the item names repeat across namespaces
    pub spaces: Vec<Vec<Vec<ZPrim>>>,
    pub classes: Vec<ZClass>,
}

const ITEM_NAMES: &[&str] = &["Item", "Node", "Elem"];
const SPACE_NAMES: &[&str] = &["a", "b", "c"];

impl Zoo {
    fn pick<'a, T>(v: &'a [T], i: u16) -> Option<(usize, &'a T)> {
        if v.is_empty() {
            None
        } else {
            let k = (i as usize * v.len()) >> 16;
            Some((k, &v[k]))
        }
    }
    fn item_c(&self, s: u16, i: u16) -> Option<String> {
        let (si, sp) = Self::pick(&self.spaces, s)?;
        let (ii, _) = Self::pick(sp, i)?;
        Some(format!("{}::{}", SPACE_NAMES[si % SPACE_NAMES.len()], ITEM_NAMES[ii % ITEM_NAMES.len()]))
    }
    fn arg_c(&self, a: &TArg, before: usize) -> String {
        match a {
            TArg::Prim(p) => p.c().to_string(),
            TArg::Item(s, i) => self.item_c(*s, *i).unwrap_or_else(|| "int".into()),
            TArg::Class(k) => {
                if before == 0 {
                    "int".into()
                } else {
                    format!("C{}", (*k as usize * before) >> 16)
                }
            }
            TArg::Box(inner) => format!("Box<{} >", self.arg_c(inner, before)),
        }
    }
    /// C type of a field of class `ci` and whether it is an instantiation held by value
    fn field_c(&self, ci: usize, f: &ZField) -> (String, String, bool) {
        match f {
            ZField::Prim(p) => (p.c().to_string(), String::new(), false),
            ZField::Arr(p, n) => (p.c().to_string(), format!("[{}]", (*n % 7) + 1), false),
            ZField::Item(s, i) => (self.item_c(*s, *i).unwrap_or_else(|| "int".into()), String::new(), false),
            ZField::Class(k) => (if ci == 0 { "int".into() } else { format!("C{}", (*k as usize * ci) >> 16) }, String::new(), false),
            ZField::Box(a) => (format!("Box<{} >", self.arg_c(a, ci)), String::new(), true),
            ZField::Pair(a, b) => (format!("Pair<{}, {} >", self.arg_c(a, ci), self.arg_c(b, ci)), String::new(), true),
            ZField::PtrBox(a) => (format!("Box<{} >*", self.arg_c(a, ci)), String::new(), false),
            ZField::ConstBox(a) => (format!("const Box<{} >", self.arg_c(a, ci)), String::new(), true),
            ZField::ConstPair(a, b) => (format!("const Pair<{}, {} >", self.arg_c(a, ci), self.arg_c(b, ci)), String::new(), true),
        }
    }
    fn bases_of(&self, ci: usize) -> Vec<usize> {
        let mut v: Vec<usize> = vec![];
        if ci == 0 {
            return v;
        }
        for b in &self.classes[ci].bases {
            let k = (*b as usize * ci) >> 16;
            if !v.contains(&k) {
                v.push(k);
            }
        }
        v
    }
    pub fn render(&self) -> String {
        let mut s = String::from("template <class T> struct Box { T v; int tag; };\ntemplate <class T, class U> struct Pair { T a; U b; };\n");
        for (si, sp) in self.spaces.iter().enumerate().take(SPACE_NAMES.len()) {
            s.push_str(&format!("namespace {} {{\n", SPACE_NAMES[si]));
            for (ii, it) in sp.iter().enumerate().take(ITEM_NAMES.len()) {
                s.push_str(&format!("  struct {} {{", ITEM_NAMES[ii]));
                for (k, p) in it.iter().enumerate() {
                    s.push_str(&format!(" {} m{k};", p.c()));
                }
                s.push_str(" };\n");
            }
            s.push_str("}\n");
        }
        for (ci, c) in self.classes.iter().enumerate() {
            s.push_str(&format!("struct C{ci}"));
            let bases = self.bases_of(ci);
            for (k, b) in bases.iter().enumerate() {
                s.push_str(if k == 0 { " : " } else { ", " });
                s.push_str(&format!("C{b}"));
            }
            s.push_str(" {\n");
            if c.polymorphic {
                s.push_str(&format!("  virtual void vm{ci}();\n"));
            }
            for (k, f) in c.fields.iter().enumerate() {
                let (t, suffix, _) = self.field_c(ci, f);
                s.push_str(&format!("  {t} f{ci}_{k}{suffix};\n"));
            }
            s.push_str("};\n");
        }
        s
    }
}

fn zoo_strategy() -> BoxedStrategy<Zoo> {
    let prim = (0..ZPrim::ALL.len()).prop_map(|i| ZPrim::ALL[i]);
    let item = proptest::collection::vec(prim.clone(), 1..4);
    let space = proptest::collection::vec(item, 1..=3);
    let leaf_arg = prop_oneof![2 => prim.clone().prop_map(TArg::Prim), 4 => (any::<u16>(), any::<u16>()).prop_map(|(s, i)| TArg::Item(s, i)), 2 => any::<u16>().prop_map(TArg::Class)];
    let arg = prop_oneof![5 => leaf_arg.clone(), 1 => leaf_arg.prop_map(|a| TArg::Box(Box::new(a)))];
    let field = prop_oneof![
        3 => prim.clone().prop_map(ZField::Prim),
        1 => (prim, 0u8..7).prop_map(|(p, n)| ZField::Arr(p, n)),
        2 => (any::<u16>(), any::<u16>()).prop_map(|(s, i)| ZField::Item(s, i)),
        1 => any::<u16>().prop_map(ZField::Class),
        4 => arg.clone().prop_map(ZField::Box),
        2 => (arg.clone(), arg.clone()).prop_map(|(a, b)| ZField::Pair(a, b)),
        1 => arg.clone().prop_map(ZField::PtrBox),
        1 => arg.clone().prop_map(ZField::ConstBox),
        1 => (arg.clone(), arg).prop_map(|(a, b)| ZField::ConstPair(a, b)),
    ];
    let class = (proptest::collection::vec(any::<u16>(), 0..5), proptest::bool::weighted(0.5), proptest::collection::vec(field, 1..5)).prop_map(|(bases, polymorphic, fields)| ZClass { bases, polymorphic, fields });
    (proptest::collection::vec(space, 1..=3), proptest::collection::vec(class, 1..7)).prop_map(|(spaces, classes)| Zoo { spaces, classes }).boxed()
}

const SPECIAL_FIELDS: &[&str] = &["_bindgen_align", "_address", "_bindgen_opaque_blob", "bindgen_union_field", "vtable_", "_base"];

fn is_special_field(name: &str) -> bool {
    SPECIAL_FIELDS.contains(&name)
        // anonymous members are not *named* members: the statement does not require an offset for them
        || name.starts_with("__bindgen_anon_")
        || name.starts_with("_bitfield_")
        || name.starts_with("__bindgen_padding_")
        || name.starts_with("_phantom_")
        || name.starts_with("_base_")
}

/// Expected assertion for one Rust type: C expressions for its numbers.
struct Expect {
    rust_ty: String,
    /// None = no C expression available (anonymous member type): completeness only
    size_expr: Option<String>,
    align_expr: Option<String>,
    /// (rust field name, C expression of the offset relative to this type)
    offsets: Vec<(String, Option<String>)>,
    class: String,
    /// module of the Rust item when it is not the root module of the run
    rust_module: Option<String>,
}

fn find_field<'a>(item: &'a Item, c_name: &str) -> Option<&'a crate::rs::Field> {
    let cands = [c_name.to_string(), format!("{c_name}_"), c_name.replace('$', "_"), format!("{}_", c_name.replace('$', "_"))];
    item.fields.iter().find(|f| cands.contains(&f.name))
}

#[allow(clippy::too_many_arguments)]
fn expect_comp(inv: &Inventory, module: &str, top_c: &str, c: &Comp, rust_ty: &str, c_path: &str, base_expr: Option<String>, reachable_by_name: bool, out: &mut Vec<Expect>, problems: &mut Vec<String>) {
    let Some(item) = inv.items.iter().find(|i| (i.kind == "struct" || i.kind == "union") && i.name == rust_ty && i.module == module) else {
        problems.push(format!("no Rust item for `{rust_ty}`"));
        return;
    };
    if item.fields.iter().any(|f| f.name == "_bindgen_opaque_blob") {
        // opaque fallback: size and alignment only
        let (se, ae) = if reachable_by_name {
            if c_path.is_empty() {
                (Some(format!("sizeof({top_c})")), Some(format!("_Alignof({top_c})")))
            } else {
                (Some(format!("sizeof((({top_c}*)0)->{c_path})")), Some(format!("_Alignof(__typeof__((({top_c}*)0)->{c_path}))")))
            }
        } else {
            (None, None)
        };
        out.push(Expect { rust_ty: rust_ty.to_string(), size_expr: se, align_expr: ae, offsets: vec![], class: "opaque".into(), rust_module: None });
        return;
    }
    let (size_expr, align_expr) = if !reachable_by_name {
        (None, None)
    } else if c_path.is_empty() {
        (Some(format!("sizeof({top_c})")), Some(format!("_Alignof({top_c})")))
    } else {
        (Some(format!("sizeof((({top_c}*)0)->{c_path})")), Some(format!("_Alignof(__typeof__((({top_c}*)0)->{c_path}))")))
    };
    let mut e = Expect { rust_ty: rust_ty.to_string(), size_expr, align_expr, offsets: vec![], class: if c.is_union { "union".into() } else if c.has_bitfields() { "bitfield-neighbour".into() } else { "struct".into() }, rust_module: None };
    let dot = |p: &str, f: &str| if p.is_empty() { f.to_string() } else { format!("{p}.{f}") };
    let mut anon = 0usize;
    // the offset of this comp inside the top-level type, as a C expression
    let base = base_expr.clone();
    for f in &c.fields {
        if f.bits.is_some() {
            continue;
        }
        match &f.ty {
            FieldTy::Ty(_) => {
                if f.name.is_empty() {
                    continue;
                }
                let Some(rf) = find_field(item, &f.name) else {
                    problems.push(format!("`{rust_ty}` has no field for `{}`", f.name));
                    continue;
                };
                let abs = format!("offsetof({top_c}, {})", dot(c_path, &f.name));
                let rel = base.as_ref().map(|b| format!("({abs} - ({b}))"));
                e.offsets.push((rf.name.clone(), rel));
            }
            FieldTy::Inline(ic) => {
                let (rf, child_path, child_named) = if f.name.is_empty() {
                    anon += 1;
                    (item.fields.iter().find(|x| x.name == format!("__bindgen_anon_{anon}")), c_path.to_string(), false)
                } else {
                    (find_field(item, &f.name), dot(c_path, &f.name), reachable_by_name)
                };
                let Some(rf) = rf else {
                    problems.push(format!("`{rust_ty}` has no field for inline member `{}`", f.name));
                    continue;
                };
                // offset of the member itself
                let child_base: Option<String> = if !f.name.is_empty() {
                    Some(format!("offsetof({top_c}, {})", dot(c_path, &f.name)))
                } else {
                    // anonymous member: its first plain named field sits at relative offset 0 only for
                    // structs starting with a plain member, and for unions
                    let first_plain = ic.fields.iter().find(|g| g.bits.is_none() && !g.name.is_empty() && matches!(g.ty, FieldTy::Ty(_)));
                    let starts_plain = ic.fields.first().map(|g| g.bits.is_none() && !g.name.is_empty() && matches!(g.ty, FieldTy::Ty(_))).unwrap_or(false);
                    match first_plain {
                        Some(g) if ic.is_union || starts_plain => Some(format!("offsetof({top_c}, {})", dot(c_path, &g.name))),
                        _ => None,
                    }
                };
                let rel = match (&base, &child_base) {
                    (Some(b), Some(cb)) => Some(format!("({cb} - ({b}))")),
                    _ => None,
                };
                e.offsets.push((rf.name.clone(), rel));
                let inner = element_type(&rf.ty);
                let inner = if is_wrapper(&rf.ty, "__BindgenUnionField <") { element_type(&inner) } else { inner };
                expect_comp(inv, module, top_c, ic, &inner, &child_path, child_base, child_named, out, problems);
            }
        }
    }
    out.push(e);
}

/// Make the program valid on every target of the list: `long` is 32 bits wide on ILP32 and
/// LLP64 targets (bit-field widths), `__int128` does not exist on 32-bit targets.
fn portable(p: &mut Program) {
    fn ty(t: &mut Ty) {
        match t {
            Ty::Prim(Prim::Int128) => *t = Ty::Prim(Prim::LongLong),
            Ty::Prim(Prim::UInt128) => *t = Ty::Prim(Prim::ULongLong),
            Ty::Ptr { to, .. } => ty(to),
            Ty::Array { of, dims } => {
                // nested large arrays overflow the 32-bit address space
                for d in dims.iter_mut() {
                    if let ArrLen::Fixed(n) = d {
                        if *n > 8 {
                            *n = *n % 7 + 2;
                        }
                    }
                }
                ty(of)
            }
            Ty::FnPtr { ret, params, .. } => {
                ty(ret);
                for q in params.iter_mut() {
                    ty(q);
                }
            }
            _ => {}
        }
    }
    fn comp(c: &mut Comp) {
        for f in c.fields.iter_mut() {
            match &mut f.ty {
                FieldTy::Ty(t) => {
                    ty(t);
                    if let (Some(b), Ty::Prim(Prim::Long | Prim::ULong)) = (f.bits, &*t) {
                        if b > 32 {
                            f.bits = Some(32);
                        }
                    }
                }
                FieldTy::Inline(ic) => comp(ic),
            }
        }
    }
    for d in p.decls.iter_mut() {
        match d {
            Decl::Comp(c) => comp(c),
            Decl::Typedef { ty: t, .. } | Decl::Var { ty: t, .. } => ty(t),
            Decl::Enum(e) => {
                // `enum E : long` with 64-bit values is not portable either
                if matches!(e.underlying, Some(Prim::Long) | Some(Prim::ULong)) {
                    e.underlying = Some(Prim::LongLong);
                }
                // plain char is unsigned on the ARM / RISC-V targets
                if e.underlying == Some(Prim::Char) {
                    e.underlying = Some(Prim::SChar);
                }
            }
            _ => {}
        }
    }
    p.normalise();
}

pub fn c_table_source(header: &str, exprs: &[String], cpp: bool) -> String {
    let mut s = format!("#include \"{header}\"\n");
    if !cpp {
        s.push_str("#define offsetof(t, d) __builtin_offsetof(t, d)\n");
    } else {
        s.push_str("#define offsetof(t, d) __builtin_offsetof(t, d)\n#define _Alignof(x) alignof(x)\n");
    }
    s.push_str(&format!("__attribute__((used)) extern const unsigned long long bgv_facts[{0}];\nconst unsigned long long bgv_facts[{0}] = {{\n", exprs.len().max(1)));
    for e in exprs {
        s.push_str(&format!("  (unsigned long long)({e}),\n"));
    }
    if exprs.is_empty() {
        s.push_str("  0\n");
    }
    s.push_str("};\n");
    s
}

/// Numbers of the `bgv_facts` initialiser in LLVM IR text.
fn parse_ir_table(ir: &str) -> Option<Vec<u64>> {
    // MSVC targets mangle the name of the C++ global
    let line = ir.lines().find(|l| l.contains("bgv_facts") && l.contains(" constant ") && l.starts_with('@'))?;
    if line.contains("zeroinitializer") {
        let n: usize = line.split('[').nth(1)?.split(' ').next()?.parse().ok()?;
        return Some(vec![0; n]);
    }
    let body = &line[line.find("] [")? + 2..];
    let mut v = vec![];
    for part in body.trim_start_matches('[').split(',') {
        let tok = part.trim().trim_end_matches(']').trim();
        let num = tok.rsplit(' ').next()?.trim_end_matches(']');
        // stop at the alignment suffix
        if tok.starts_with("align") {
            break;
        }
        v.push(num.parse::<u64>().ok()?);
    }
    Some(v)
}

pub fn clang_table(dir: &std::path::Path, src: &str, target: &str, cpp: bool) -> Result<Vec<u64>, String> {
    let mut cmd = std::process::Command::new(tools::clang_bin());
    cmd.args(["-S", "-emit-llvm", "-w", "-o", "-"]).arg(format!("--target={target}"));
    if cpp {
        cmd.args(["-x", "c++", "-std=c++14"]);
    } else {
        cmd.args(["-x", "c", "-std=gnu11"]);
    }
    cmd.arg(src);
    let o = tools::run(&mut cmd, dir, 120).map_err(|e| e.to_string())?;
    if !o.ok() {
        return Err(format!("clang --target={target}: {}", o.stderr.chars().take(800).collect::<String>()));
    }
    parse_ir_table(&o.stdout).ok_or_else(|| format!("cannot read the constant table from the IR: {}", o.stdout.lines().find(|l| l.contains("bgv_facts")).unwrap_or("").chars().take(300).collect::<String>()))
}

fn without_asserts(inv: &Inventory) -> Vec<String> {
    inv.items.iter().filter(|i| i.kind != "layout_assert").map(|i| format!("{}|{}|{}", i.module, i.kind, i.text)).collect()
}

impl C06 {
    #[allow(clippy::too_many_arguments)]
    fn check_one(&self, out: &mut Outcome, env: &Env, header_file: &str, header: &str, cpp: bool, target: &str, flags: &[String], build: &dyn Fn(&Inventory, &mut Vec<String>) -> Vec<Expect>, inst_of: &dyn Fn(&Inventory) -> Vec<(String, String)>, skip_types: &[String]) {
        let mut f: Vec<String> = vec!["--no-include-path-detection".into(), "--formatter=none".into()];
        f.extend(flags.iter().cloned());
        let mut clang_args: Vec<String> = vec![format!("--target={target}")];
        if cpp {
            clang_args.extend(["-x".to_string(), "c++".to_string(), "-std=c++14".to_string()]);
        } else {
            clang_args.push("-std=gnu11".into());
        }
        let input = BgInput { files: vec![], headers: vec![header_file.into()], flags: f.clone(), clang_args: clang_args.clone(), callbacks: vec![] };
        let text = match bg::generate(&input, &env.dir) {
            BgResult::Ok(t) => t,
            other => {
                out.fail("generation-failed", format!("target {target}: {}\n{header}", other.describe()));
                return;
            }
        };
        out.evaluations += 1;
        let inv = match rs::inventory(&text) {
            Ok(i) => i,
            Err(e) => {
                out.fail("bindings-unparseable", e);
                return;
            }
        };
        let ns = flags.iter().any(|x| x == "--enable-cxx-namespaces");
        let module = if ns { "root" } else { "" };
        let mut problems = vec![];
        let expects = build(&inv, &mut problems);
        for p in &problems {
            out.fail("model-vs-bindings", format!("target {target}: {p}\n{header}"));
        }
        // ---- (1) completeness over the *emitted* inventory
        let all_modules = expects.iter().any(|e| e.rust_module.is_some());
        for it in inv.items.iter().filter(|i| (i.kind == "struct" || i.kind == "union") && (i.module == module || (all_modules && (module.is_empty() || i.module.starts_with(module))))) {
            if Inventory::is_helper(&it.name) || !it.generics.is_empty() || skip_types.contains(&it.name) {
                continue;
            }
            // forward declarations: `_unused: [u8; 0]`
            if it.fields.len() == 1 && it.fields[0].name == "_unused" {
                continue;
            }
            // newtype aliases
            if it.fields.len() == 1 && it.fields[0].name == "0" {
                continue;
            }
            let asserts = inv.assert_for(&it.module, &it.name);
            let class = expects.iter().find(|e| e.rust_ty == it.name && e.rust_module.as_deref().unwrap_or(module) == it.module).map(|e| e.class.clone()).unwrap_or_else(|| "?".into());
            if asserts.len() != 1 {
                out.fail(format!("completeness/assert-count-{}/{class}", asserts.len()), format!("target {target} flags {flags:?}: `{}` has {} assertion blocks\n{header}", it.name, asserts.len()));
                continue;
            }
            let a = asserts[0];
            if a.size.is_none() {
                out.fail(format!("completeness/no-size/{class}"), format!("target {target}: `{}`\n{header}", it.name));
            }
            if a.align.is_none() {
                out.fail(format!("completeness/no-align/{class}"), format!("target {target}: `{}`\n{header}", it.name));
            }
            let opaque = it.fields.iter().any(|f| f.name == "_bindgen_opaque_blob");
            for fld in it.fields.iter().filter(|f| !is_special_field(&f.name)) {
                let has = a.offsets.iter().any(|(n, _)| n == &fld.name || n.trim_start_matches("r#") == fld.name);
                if !has && !opaque {
                    out.fail(format!("completeness/no-offset/{class}"), format!("target {target} flags {flags:?}: `{}::{}` has no offset assertion (asserted: {:?})\n{header}", it.name, fld.name, a.offsets));
                }
            }
        }
        // ---- (2) numbers
        let mut exprs: Vec<String> = vec![];
        let mut keys: Vec<(String, String, String)> = vec![]; // (rust type, what, class)
        let mut key_modules: Vec<String> = vec![];
        for e in &expects {
            let em = e.rust_module.clone().unwrap_or_else(|| module.to_string());
            if let Some(x) = &e.size_expr {
                exprs.push(x.clone());
                keys.push((e.rust_ty.clone(), "size".into(), e.class.clone()));
                key_modules.push(em.clone());
            }
            if let Some(x) = &e.align_expr {
                exprs.push(x.clone());
                keys.push((e.rust_ty.clone(), "align".into(), e.class.clone()));
                key_modules.push(em.clone());
            }
            for (fname, x) in &e.offsets {
                if let Some(x) = x {
                    exprs.push(x.clone());
                    keys.push((e.rust_ty.clone(), format!("offset:{fname}"), e.class.clone()));
                    key_modules.push(em.clone());
                }
            }
        }
        let inst_expect = inst_of(&inv);
        for (ty, c_expr) in &inst_expect {
            exprs.push(format!("sizeof({c_expr})"));
            keys.push((ty.clone(), "inst-size".into(), "instantiation".into()));
            key_modules.push(String::new());
            exprs.push(format!("alignof({c_expr})"));
            keys.push((ty.clone(), "inst-align".into(), "instantiation".into()));
            key_modules.push(String::new());
        }
        let src_name = format!("table_{}.c", target.replace('-', "_"));
        std::fs::write(env.dir.join(&src_name), c_table_source(header_file, &exprs, cpp)).ok();
        let table = match clang_table(&env.dir, &src_name, target, cpp) {
            Ok(t) => t,
            Err(e) => {
                out.inconclusive = Some(e);
                return;
            }
        };
        if table.len() != exprs.len().max(1) {
            out.inconclusive = Some(format!("table length {} != {}", table.len(), exprs.len()));
            return;
        }
        let host = target == TARGETS[0];
        for (k, (ty, what, class)) in keys.iter().enumerate() {
            let want = table[k];
            let asserts = inv.assert_for(&key_modules[k], ty);
            if what.starts_with("inst-") {
                // instantiation assertions are keyed by the type expression (paths are absolute
                // from `root` when namespaces are on)
                let canon = |t: &str| t.replace(' ', "").replace("root::", "");
                let found: Vec<&rs::LayoutAssert> = inv.asserts.iter().filter(|a| canon(&a.ty) == canon(ty)).collect();
                if found.is_empty() {
                    out.fail("completeness/instantiation-missing", format!("target {target}: no assertion for `{ty}`\n{header}"));
                    continue;
                }
                let got = if what == "inst-size" { found[0].size } else { found[0].align };
                let any_ok = found.iter().any(|a| (if what == "inst-size" { a.size } else { a.align }) == Some(want));
                if !any_ok {
                    out.fail(format!("number/{what}/instantiation"), format!("target {target}: `{ty}` asserted {got:?}, clang says {want}\n{header}"));
                }
                continue;
            }
            let Some(a) = asserts.first() else { continue };
            let got = match what.as_str() {
                "size" => a.size,
                "align" => a.align,
                w => {
                    let f = &w[7..];
                    a.offsets.iter().find(|(n, _)| n == f || n.trim_start_matches("r#") == f).map(|x| x.1)
                }
            };
            if let Some(g) = got {
                if g != want {
                    out.fail(
                        format!("number/{}/{class}{}", what.split(':').next().unwrap(), if host { "" } else { "/cross-target" }),
                        format!("target {target} flags {flags:?}: `{ty}` {what}: asserted {g}, clang says {want}\n{header}"),
                    );
                }
                if !host && what.starts_with("offset") {
                    out.nontrivial(format!("{:x}|{ty}|{target}", fnv(header)));
                }
            }
        }
        // ---- (3) off switch (host target only: once per case)
        if host {
            let mut f2 = f.clone();
            f2.push("--no-layout-tests".into());
            let input2 = BgInput { files: vec![], headers: vec![header_file.into()], flags: f2, clang_args, callbacks: vec![] };
            if let BgResult::Ok(t2) = bg::generate(&input2, &env.dir) {
                out.evaluations += 1;
                match rs::inventory(&t2) {
                    Ok(inv2) => {
                        if !inv2.asserts.is_empty() || inv2.items.iter().any(|i| i.kind == "layout_assert") {
                            out.fail("off-switch/assertions-still-emitted", format!("flags {flags:?}\n{header}"));
                        }
                        if without_asserts(&inv) != without_asserts(&inv2) {
                            let a = without_asserts(&inv);
                            let b = without_asserts(&inv2);
                            let d = a.iter().zip(b.iter()).find(|(x, y)| x != y).map(|(x, y)| format!("`{}` vs `{}`", x.chars().take(200).collect::<String>(), y.chars().take(200).collect::<String>())).unwrap_or_else(|| format!("{} vs {} items", a.len(), b.len()));
                            out.fail("off-switch/other-items-change", format!("flags {flags:?}: {d}\n{header}"));
                        }
                    }
                    Err(e) => out.fail("bindings-unparseable", e),
                }
            }
        }
    }
}

impl Property for C06 {
    type Case = Case;
    fn id(&self) -> &'static str {
        "C06"
    }
    fn rule(&self) -> String {
        "generated C type graphs (C02 generator) and C++ class/template graphs (C07 generator, instantiations as members) x 2-3 of 8 targets (x86_64/i686/aarch64/armv7/riscv64 linux, x86_64/i686 windows-msvc, wasm32; the host always) x rust target {1.76: #[test] functions, latest: const blocks} x namespaces on/off. Completeness is judged on the emitted inventory (every concrete struct/union has exactly one block with size, alignment and an offset for every exposed field); every asserted number is compared with a constant table compiled by `clang --target=T`; --no-layout-tests must remove exactly the assertion items. Non-trivial = an offset assertion checked on a non-host target, or an instantiation assertion; distinct by (header hash, type, target)".into()
    }
    fn assumptions(&self) -> Vec<String> {
        vec![
            "the clang 14 binary's record layout for --target=T equals libclang 14's".into(),
            "anonymous-member types have no C type expression: their assertions are checked for completeness and, where the first member is a plain field, for offsets".into(),
        ]
    }
    fn shrink_steps(&self) -> usize {
        60
    }
    fn max_shrunk_signatures(&self) -> usize {
        4
    }
    fn strategy(&self, _tier: Tier) -> BoxedStrategy<Case> {
        let targets = proptest::collection::vec(1..TARGETS.len(), 1..3);
        prop_oneof![
            3 => (program_strategy(GenCfg::data_types()), targets.clone(), proptest::bool::weighted(0.4), proptest::bool::weighted(0.3)).prop_map(|(prog, targets, old_rust_target, namespaces)| Case::C { prog, targets, old_rust_target, namespaces, keep_known: false }),
            1 => (prop_oneof![c07::graph_strategy(7).boxed(), c07::graph_strategy_tb(7).boxed()], targets.clone(), proptest::bool::weighted(0.4)).prop_map(|(graph, targets, old_rust_target)| Case::Cpp { graph, targets, old_rust_target }),
            1 => (zoo_strategy(), targets, proptest::bool::weighted(0.5), proptest::bool::weighted(0.5)).prop_map(|(zoo, targets, old_rust_target, namespaces)| Case::Zoo { zoo, targets, old_rust_target, namespaces }),
        ]
        .boxed()
    }
    fn generated(&self, tier: Tier) -> usize {
        tier.pick(1500, 20000)
    }
    fn fixed_cases(&self, _tier: Tier) -> Vec<Case> {
        // chains of class templates ending in a concrete member, base or typedef (C07's grid),
        // plus a concrete instantiation used only inside a class template
        let mut v: Vec<Case> = vec![];
        for (k, c) in c07::chain_grid().into_iter().enumerate() {
            if let c07::Case::Dag { mut graph, .. } = c {
                let t0 = 0usize;
                if k % 2 == 0 {
                    let n = graph.nodes.len();
                    graph.nodes.push(c07::Node { kind: c07::NodeKind::Template, bases: vec![], virtual_bases: false, fields: vec![c07::FieldKind::T, c07::FieldKind::Inst(t0, c07::Arg::PtrNode(n - 1))], virtual_method: false, dtor: false, tbases: vec![] });
                }
                v.push(Case::Cpp { graph, targets: vec![k % TARGETS.len()], old_rust_target: k % 3 == 0 });
            }
        }
        v
    }
    fn evaluate(&self, case: &Case, env: &Env) -> Outcome {
        let mut out = Outcome::new();
        out.evaluations = 0;
        match case {
            Case::C { prog, targets, old_rust_target, namespaces, keep_known } => {
                let mut prog = prog.clone();
                prog.normalise();
                if !keep_known {
                    out.excluded_known += prog.strip_unrepresentable();
                }
                portable(&mut prog);
                let header = prog.render();
                std::fs::write(env.dir.join("in.h"), &header).ok();
                let mut flags: Vec<String> = vec![];
                if *old_rust_target {
                    flags.extend(["--rust-target".to_string(), "1.76".to_string()]);
                }
                if *namespaces {
                    flags.push("--enable-cxx-namespaces".into());
                }
                let module = if *namespaces { "root" } else { "" };
                let mut ts: Vec<usize> = vec![0];
                ts.extend(targets.iter().map(|t| t % TARGETS.len()));
                ts.dedup();
                for t in ts {
                    let build = |inv: &Inventory, problems: &mut Vec<String>| -> Vec<Expect> {
                        let mut v = vec![];
                        for d in &prog.decls {
                            if let Decl::Comp(c) = d {
                                let name = d.rust_name().unwrap();
                                expect_comp(inv, module, &c.c_use(), c, &name, "", Some("0".into()), true, &mut v, problems);
                            }
                        }
                        v
                    };
                    self.check_one(&mut out, env, "in.h", &header, false, TARGETS[t], &flags, &build, &|_| vec![], &[]);
                    out.class(format!("target:{}", TARGETS[t]));
                }
                out.class(if *old_rust_target { "form:test-fn" } else { "form:const-block" });
                out.sample = Some(json!({"header": header, "targets": targets.iter().map(|t| TARGETS[t % TARGETS.len()]).collect::<Vec<_>>(), "flags": flags}));
            }
            Case::Cpp { graph, targets, old_rust_target } => {
                let mut g = graph.clone();
                g.cpp = true;
                g.normalise();
                let order = g.order_from_prios(&[]);
                let header = g.render(&order);
                let file = if g.cpp { "in.hpp" } else { "in.h" };
                std::fs::write(env.dir.join(file), &header).ok();
                let mut flags: Vec<String> = vec![];
                if *old_rust_target {
                    flags.extend(["--rust-target".to_string(), "1.76".to_string()]);
                }
                // instantiations with concrete arguments used by value in non-template classes: the Rust
                // type expression is read off the emitted field (a template whose parameter is unused
                // is emitted without generics)
                let gref = &g;
                let inst_of = move |inv: &Inventory| -> Vec<(String, String)> {
                    let mut inst: BTreeMap<String, String> = BTreeMap::new();
                    for (i, n) in gref.nodes.iter().enumerate() {
                        // (members of class templates included: `N1<int>` inside `template<class T> struct N3`
                        // is just as concrete)
                        if !matches!(n.kind, c07::NodeKind::Class | c07::NodeKind::Union | c07::NodeKind::Template) {
                            continue;
                        }
                        let Some(item) = inv.find_type(&format!("N{i}")) else { continue };
                        if item.fields.iter().any(|f| f.name == "_bindgen_opaque_blob") {
                            continue;
                        }
                        // bases that are instantiations: `struct N3 : N0, N1<int>` has `_base_1: N1<c_int>`
                        for (bk, (t, a)) in n.tbases.iter().enumerate() {
                            let Some(a) = a else { continue };
                            if !matches!(gref.nodes[*t].kind, c07::NodeKind::Template) {
                                continue;
                            }
                            let c_arg = match a {
                                c07::Arg::Int => "int".to_string(),
                                c07::Arg::Float => "float".to_string(),
                                c07::Arg::Node(k) => format!("N{k}"),
                                c07::Arg::PtrNode(k) => format!("N{k}*"),
                            };
                            let pos = n.bases.len() + bk;
                            let fname = if pos == 0 { "_base".to_string() } else { format!("_base_{pos}") };
                            if let Some(rf) = item.fields.iter().find(|x| x.name == fname) {
                                inst.insert(rf.ty.clone(), format!("N{t}<{c_arg} >"));
                            }
                        }
                        for (k, f) in n.fields.iter().enumerate() {
                            if let c07::FieldKind::Inst(t, a) = f {
                                if !matches!(gref.nodes[*t].kind, c07::NodeKind::Template) {
                                    continue;
                                }
                                let c_arg = match a {
                                    c07::Arg::Int => "int".to_string(),
                                    c07::Arg::Float => "float".to_string(),
                                    c07::Arg::Node(k) => format!("N{k}"),
                                    c07::Arg::PtrNode(k) => format!("N{k}*"),
                                };
                                if let Some(rf) = item.fields.iter().find(|x| x.name == format!("f{k}")) {
                                    let key = if is_wrapper(&rf.ty, "__BindgenUnionField <") { element_type(&rf.ty) } else { rf.ty.clone() };
                                    inst.insert(key, format!("N{t}<{c_arg} >"));
                                }
                            }
                        }
                    }
                    inst.into_iter().collect()
                };
                let skip: Vec<String> = g.nodes.iter().enumerate().filter(|(_, n)| matches!(n.kind, c07::NodeKind::Template | c07::NodeKind::AliasTemplate(_))).map(|(i, _)| format!("N{i}")).collect();
                let has_inst = g.nodes.iter().any(|n| n.fields.iter().any(|f| matches!(f, c07::FieldKind::Inst(..))) || n.tbases.iter().any(|(_, a)| a.is_some()));
                let mut ts: Vec<usize> = vec![0];
                ts.extend(targets.iter().map(|t| t % TARGETS.len()));
                ts.dedup();
                for t in ts {
                    let build = |inv: &Inventory, _problems: &mut Vec<String>| -> Vec<Expect> {
                        // classes: size and alignment of every emitted non-template class
                        let mut v = vec![];
                        for (i, n) in g.nodes.iter().enumerate() {
                            if matches!(n.kind, c07::NodeKind::Class | c07::NodeKind::Union) && inv.find_type(&format!("N{i}")).is_some() {
                                v.push(Expect { rust_ty: format!("N{i}"), size_expr: Some(format!("sizeof(N{i})")), align_expr: Some(format!("alignof(N{i})")), offsets: vec![], class: "class".into(), rust_module: None });
                            }
                        }
                        v
                    };
                    // only instantiations whose assertion bindgen chose to emit are compared for numbers;
                    // their presence is required when the instantiation type appears as a field type
                    self.check_one(&mut out, env, file, &header, g.cpp, TARGETS[t], &flags, &build, &inst_of, &skip);
                    if has_inst {
                        out.nontrivial(format!("{:x}|inst|{}", fnv(&header), TARGETS[t]));
                    }
                }
                out.class("cpp");
                if g.nodes.iter().any(|n| n.tbases.iter().any(|(_, a)| a.is_some())) {
                    out.class("cpp:base-is-instantiation");
                }
                if g.nodes.iter().any(|n| matches!(n.kind, c07::NodeKind::Template) && n.fields.iter().any(|f| matches!(f, c07::FieldKind::Inst(..)))) {
                    out.class("cpp:instantiation-inside-template");
                }
                out.sample = Some(json!({"header": header, "has_instantiations": has_inst}));
            }
            Case::Zoo { zoo, targets, old_rust_target, namespaces } => {
                let header = zoo.render();
                let file = "in.hpp";
                std::fs::write(env.dir.join(file), &header).ok();
                let mut flags: Vec<String> = vec![];
                if *old_rust_target {
                    flags.extend(["--rust-target".to_string(), "1.76".to_string()]);
                }
                if *namespaces {
                    flags.push("--enable-cxx-namespaces".into());
                }
                let module = if *namespaces { "root" } else { "" };
                let zref = zoo;
                let inst_of = move |inv: &Inventory| -> Vec<(String, String)> {
                    let mut inst: BTreeMap<String, String> = BTreeMap::new();
                    for (ci, c) in zref.classes.iter().enumerate() {
                        let Some(item) = inv.items.iter().find(|i| i.kind == "struct" && i.name == format!("C{ci}") && i.module == module) else { continue };
                        if item.fields.iter().any(|f| f.name == "_bindgen_opaque_blob") {
                            continue;
                        }
                        for (k, f) in c.fields.iter().enumerate() {
                            let (t, _, by_value_inst) = zref.field_c(ci, f);
                            if !by_value_inst {
                                continue;
                            }
                            if let Some(rf) = item.fields.iter().find(|x| x.name == format!("f{ci}_{k}")) {
                                inst.insert(rf.ty.clone(), t);
                            }
                        }
                    }
                    inst.into_iter().collect()
                };
                let skip: Vec<String> = vec!["Box".into(), "Pair".into()];
                let n_inst = zoo.classes.iter().enumerate().map(|(ci, c)| c.fields.iter().filter(|f| zoo.field_c(ci, f).2).count()).sum::<usize>();
                let many_poly_bases = (0..zoo.classes.len()).any(|ci| zoo.bases_of(ci).iter().filter(|b| zoo.classes[**b].polymorphic).count() >= 2);
                let mut ts: Vec<usize> = vec![0];
                ts.extend(targets.iter().map(|t| t % TARGETS.len()));
                ts.dedup();
                for t in ts {
                    let build = |inv: &Inventory, _problems: &mut Vec<String>| -> Vec<Expect> {
                        let mut v = vec![];
                        for (ci, c) in zoo.classes.iter().enumerate() {
                            let Some(item) = inv.items.iter().find(|i| i.kind == "struct" && i.name == format!("C{ci}") && i.module == module) else { continue };
                            let opaque = item.fields.iter().any(|f| f.name == "_bindgen_opaque_blob");
                            let offsets = if opaque { vec![] } else { (0..c.fields.len()).map(|k| (format!("f{ci}_{k}"), Some(format!("offsetof(C{ci}, f{ci}_{k})")))).collect() };
                            v.push(Expect { rust_ty: format!("C{ci}"), size_expr: Some(format!("sizeof(C{ci})")), align_expr: Some(format!("alignof(C{ci})")), offsets, class: "class".into(), rust_module: Some(module.to_string()) });
                        }
                        for (si, sp) in zoo.spaces.iter().enumerate().take(SPACE_NAMES.len()) {
                            for (ii, it) in sp.iter().enumerate().take(ITEM_NAMES.len()) {
                                let (m, n) = if *namespaces { (format!("root::{}", SPACE_NAMES[si]), ITEM_NAMES[ii].to_string()) } else { (String::new(), format!("{}_{}", SPACE_NAMES[si], ITEM_NAMES[ii])) };
                                if !inv.items.iter().any(|i| i.kind == "struct" && i.name == n && i.module == m) {
                                    continue;
                                }
                                let c = format!("{}::{}", SPACE_NAMES[si], ITEM_NAMES[ii]);
                                let offsets = (0..it.len()).map(|k| (format!("m{k}"), Some(format!("offsetof({c}, m{k})")))).collect();
                                v.push(Expect { rust_ty: n, size_expr: Some(format!("sizeof({c})")), align_expr: Some(format!("alignof({c})")), offsets, class: "namespaced".into(), rust_module: Some(m) });
                            }
                        }
                        v
                    };
                    self.check_one(&mut out, env, file, &header, true, TARGETS[t], &flags, &build, &inst_of, &skip);
                    if n_inst > 0 {
                        out.nontrivial(format!("{:x}|zoo-inst|{}", fnv(&header), TARGETS[t]));
                    }
                }
                out.class("zoo");
                if many_poly_bases {
                    out.class("zoo:several-polymorphic-bases");
                }
                if *namespaces {
                    out.class("zoo:namespaces");
                }
                out.sample = Some(json!({"header": header, "instantiation_members": n_inst, "flags": flags}));
            }
        }
        out
    }
}
