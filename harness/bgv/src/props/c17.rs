//! C17 — reported dependencies are exactly the files that were read.
//! G-INC: generated include trees; oracle: `clang -M` on the same command line, depfile
//! re-parse, callback log, cargo directive lines captured from the worker's stdout.

use crate::bg::{self, BgInput, Recorder};
use crate::engine::{fnv, Env, Outcome, Property, Tier};
use crate::tools;
use crate::worker::{self, Reply, ServerIo};
use proptest::prelude::*;
use serde::{Deserialize, Serialize};
use serde_json::{json, Value};
use std::collections::{BTreeMap, BTreeSet};
use std::path::{Path, PathBuf};

pub struct C17;

#[derive(Clone, Debug, Serialize, Deserialize, PartialEq, Eq, Hash)]
pub enum Form {
    /// `#include "rel/path"` relative to the includer's directory
    QuotedRel,
    /// `#include <name>` found through -I
    AngleI,
    /// `#include "name"` found through -iquote
    QuotedIquote,
    /// `#include <name>` found through -isystem
    AngleIsystem,
    /// `#include "/abs/path"`
    QuotedAbs,
}

#[derive(Clone, Debug, Serialize, Deserialize, PartialEq, Eq, Hash)]
pub enum Guard {
    None,
    If1,
    If0,
    IfdefUndefined,
    IfndefUndefined,
    ElseBranchOfIf1,
}

#[derive(Clone, Debug, Serialize, Deserialize, PartialEq, Eq, Hash)]
pub struct Edge {
    pub to: usize,
    pub form: Form,
    pub guard: Guard,
    /// go through "sub/../" in relative paths
    pub dotdot: bool,
    /// include it twice in a row
    pub twice: bool,
}

#[derive(Clone, Debug, Serialize, Deserialize, PartialEq, Eq, Hash)]
pub struct FileNode {
    pub dir: usize,
    pub name: usize,
    pub pragma_once: bool,
    pub edges: Vec<Edge>,
    /// name collisions with the positional input header: 1 = the same file name (in another
    /// directory), 2 = a longer name with the same tail (`compat_<name>`)
    #[serde(default)]
    pub clash: u8,
}

#[derive(Clone, Debug, Serialize, Deserialize)]
pub struct Case {
    pub files: Vec<FileNode>,
    /// indices of input headers (at least one); the last is positional
    pub inputs: Vec<usize>,
    pub relative_input: bool,
    pub depfile_target: usize,
    pub env_target: Option<usize>,
    /// which of VAR_<t>, VAR_<t_>, VAR are set (bit mask)
    pub env_extra: u8,
    pub symlink_dir: bool,
    /// a file the user includes from the command line (`-- -include <path>`), not an input header
    #[serde(default)]
    pub cmdline_include: Option<usize>,
    /// an item filter that changes what is *emitted* but not what is *read*:
    /// (kind, file index) with kind 0 = --blocklist-file <that file>, 1 = --blocklist-file .*,
    /// 2 = --allowlist-file <that file>, 3 = --blocklist-type S_.*, 4 = --allowlist-type S_<i>
    #[serde(default)]
    pub filter: Option<(u8, usize)>,
}

const DIRS: &[&str] = &["top", "inc", "sys dir", "q", "deep/er", "top/sub"];
const NAMES: &[&str] = &["a.h", "b b.h", "c#c.h", "d$d.h", "e\u{fc}.h", "f.hpp", "g:g.h", "h'h.h", "i+i.h", "j.h", "k=k.h", "l l l.h"];
const TARGET_NAMES: &[&str] = &["out.rs", "my target.rs", "dir/out.rs", "back\\slash.rs", "a b\\ c.rs"];
const ENV_TARGETS: &[&str] = &["x86_64-unknown-linux-gnu", "weird-target"];

fn file_rel(c: &Case, i: usize) -> String {
    let f = &c.files[i];
    // make names unique per (dir,name) collision by prefixing the index
    format!("{}/{}", DIRS[f.dir % DIRS.len()], file_base(c, i))
}

fn file_base(c: &Case, i: usize) -> String {
    let own = |k: usize| format!("{}_{}", k, NAMES[c.files[k].name % NAMES.len()]);
    let main = c.inputs.last().copied().unwrap_or(0);
    if i != main && main < c.files.len() && !c.inputs.contains(&i) {
        match c.files[i].clash {
            1 if c.files[i].dir % DIRS.len() != c.files[main].dir % DIRS.len() && !(0..i).any(|k| k != main && c.files[k].clash == 1 && c.files[k].dir % DIRS.len() == c.files[i].dir % DIRS.len()) => return own(main),
            2 => return format!("compat{i}_{}", own(main)),
            _ => {}
        }
    }
    own(i)
}

fn rel_path(from_dir: &str, to: &str, dotdot: bool) -> String {
    // path from directory `from_dir` (relative to root) to file `to` (relative to root)
    let ups = from_dir.split('/').filter(|s| !s.is_empty()).count();
    let mut p = "../".repeat(ups);
    if dotdot {
        p.push_str("q/../");
    }
    p.push_str(to);
    p
}

/// Normalise the case: edges point forward (DAG), at least one input.
fn normalise(c: &mut Case) {
    let n = c.files.len();
    for i in 0..n {
        let mut seen = BTreeSet::new();
        c.files[i].edges.retain(|e| e.to > i && e.to < n && seen.insert(e.to));
    }
    c.inputs.retain(|i| *i < n);
    c.inputs.dedup();
    let mut seen = BTreeSet::new();
    c.inputs.retain(|i| seen.insert(*i));
    if c.inputs.is_empty() {
        c.inputs.push(0);
    }
    if matches!(c.cmdline_include, Some(k) if k >= n || c.inputs.contains(&k)) {
        c.cmdline_include = None;
    }
    // `#pragma once` in a main file is ignored by clang (and handled differently by the clang
    // binary and libclang when the main file is also reached through -include): input headers
    // use classic include guards
    for i in c.inputs.clone() {
        c.files[i].pragma_once = false;
    }
}

fn render(c: &Case, root: &Path) -> Vec<(String, String)> {
    let mut out = vec![];
    for (i, f) in c.files.iter().enumerate() {
        let mut s = String::new();
        let g = format!("GUARD_{i}_H");
        if f.pragma_once {
            s.push_str("#pragma once\n");
        } else {
            s.push_str(&format!("#ifndef {g}\n#define {g}\n"));
        }
        for e in &f.edges {
            let target_rel = file_rel(c, e.to);
            let inc = match e.form {
                Form::QuotedRel => format!("\"{}\"", rel_path(DIRS[f.dir % DIRS.len()], &target_rel, e.dotdot)),
                Form::AngleI | Form::AngleIsystem => format!("<{}>", file_base(c, e.to)),
                Form::QuotedIquote => format!("\"{}\"", file_base(c, e.to)),
                Form::QuotedAbs => format!("\"{}\"", root.join(&target_rel).to_str().unwrap()),
            };
            let line = format!("#include {inc}\n");
            let line = if e.twice { format!("{line}{line}") } else { line };
            match e.guard {
                Guard::None => s.push_str(&line),
                Guard::If1 => s.push_str(&format!("#if 1\n{line}#endif\n")),
                Guard::If0 => s.push_str(&format!("#if 0\n{line}#endif\n")),
                Guard::IfdefUndefined => s.push_str(&format!("#ifdef NEVER_DEFINED_{i}\n{line}#endif\n")),
                Guard::IfndefUndefined => s.push_str(&format!("#ifndef NEVER_DEFINED_{i}\n{line}#endif\n")),
                Guard::ElseBranchOfIf1 => s.push_str(&format!("#if 1\n#else\n{line}#endif\n")),
            }
        }
        s.push_str(&format!("struct S_{i} {{ int x{i}; }};\n"));
        if !f.pragma_once {
            s.push_str("#endif\n");
        }
        out.push((file_rel(c, i), s));
    }
    out
}

fn search_args(c: &Case, root: &Path) -> Vec<String> {
    // every directory is offered through the flag kind its incoming edges need
    let mut i_dirs = BTreeSet::new();
    let mut iq_dirs = BTreeSet::new();
    let mut is_dirs = BTreeSet::new();
    for f in &c.files {
        for e in &f.edges {
            let d = DIRS[c.files[e.to].dir % DIRS.len()];
            match e.form {
                Form::AngleI => {
                    i_dirs.insert(d);
                }
                Form::QuotedIquote => {
                    iq_dirs.insert(d);
                }
                Form::AngleIsystem => {
                    is_dirs.insert(d);
                }
                _ => {}
            }
        }
    }
    let via = |d: &str| -> String {
        if c.symlink_dir && d == "inc" {
            root.join("link-to-inc").to_str().unwrap().to_string()
        } else {
            root.join(d).to_str().unwrap().to_string()
        }
    };
    let mut v = vec![];
    for d in i_dirs {
        v.push(format!("-I{}", via(d)));
    }
    for d in iq_dirs {
        v.push("-iquote".into());
        v.push(via(d));
    }
    for d in is_dirs {
        v.push("-isystem".into());
        v.push(via(d));
    }
    v
}

/// Model: which files are reachable through active edges from the inputs.
fn model_reachable(c: &Case) -> BTreeSet<usize> {
    let mut seen: BTreeSet<usize> = BTreeSet::new();
    let mut stack: Vec<usize> = c.inputs.clone();
    stack.extend(c.cmdline_include);
    while let Some(i) = stack.pop() {
        if !seen.insert(i) {
            continue;
        }
        for e in &c.files[i].edges {
            if matches!(e.guard, Guard::None | Guard::If1 | Guard::IfndefUndefined) {
                stack.push(e.to);
            }
        }
    }
    seen
}

fn canon(p: &str, base: &Path) -> String {
    let pb = if Path::new(p).is_absolute() { PathBuf::from(p) } else { base.join(p) };
    std::fs::canonicalize(&pb).map(|x| x.to_string_lossy().into_owned()).unwrap_or_else(|_| format!("<unresolvable:{p}>"))
}

/// Prerequisites of clang's `-M` output (GNU make syntax as clang writes it: `\ ` and `\#`
/// escapes, `$$` for `$`, backslash-newline continuations).
fn parse_make_deps(text: &str) -> Vec<String> {
    let body = match text.find("TARGET:") {
        Some(i) => &text[i + 7..],
        None => return vec![],
    };
    let mut items = vec![];
    let mut cur = String::new();
    let mut chars = body.chars().peekable();
    while let Some(ch) = chars.next() {
        match ch {
            '\\' => match chars.peek() {
                Some('\n') => {
                    chars.next();
                    if !cur.is_empty() {
                        items.push(std::mem::take(&mut cur));
                    }
                }
                Some(' ') | Some('#') | Some('\\') => {
                    cur.push(chars.next().unwrap());
                }
                _ => cur.push('\\'),
            },
            '$' => {
                if chars.peek() == Some(&'$') {
                    chars.next();
                }
                cur.push('$');
            }
            ' ' | '\n' | '\t' => {
                if !cur.is_empty() {
                    items.push(std::mem::take(&mut cur));
                }
            }
            c => cur.push(c),
        }
    }
    if !cur.is_empty() {
        items.push(cur);
    }
    items
}

/// Inverse of the documented depfile escaping: `\\` -> `\`, `\ ` -> space; split on unescaped spaces.
fn parse_depfile(text: &str) -> Option<(String, Vec<String>)> {
    let mut items: Vec<String> = vec![];
    let mut cur = String::new();
    let mut chars = text.chars().peekable();
    let mut target: Option<String> = None;
    while let Some(ch) = chars.next() {
        match ch {
            '\\' => match chars.peek() {
                Some('\\') => {
                    cur.push('\\');
                    chars.next();
                }
                Some(' ') => {
                    cur.push(' ');
                    chars.next();
                }
                _ => cur.push('\\'),
            },
            ' ' => {
                if target.is_none() {
                    // target must end with ':' before the first separator
                    let t = cur.strip_suffix(':')?.to_string();
                    target = Some(t);
                    cur.clear();
                } else if !cur.is_empty() {
                    items.push(std::mem::take(&mut cur));
                }
            }
            c => cur.push(c),
        }
    }
    if target.is_none() {
        let t = cur.strip_suffix(':')?.to_string();
        return Some((t, vec![]));
    }
    if !cur.is_empty() {
        items.push(cur);
    }
    Some((target?, items))
}

pub fn worker_c17(req: &Value, io: &mut ServerIo) -> Value {
    let dir = Path::new(req["dir"].as_str().unwrap()).to_path_buf();
    let input: BgInput = match serde_json::from_value(req["input"].clone()) {
        Ok(c) => c,
        Err(e) => return json!({"error": format!("bad input: {e}")}),
    };
    let cwd = dir.join(req["cwd"].as_str().unwrap_or(""));
    let _ = std::env::set_current_dir(&cwd);
    let envs: BTreeMap<String, String> = serde_json::from_value(req["env"].clone()).unwrap_or_default();
    for (k, v) in &envs {
        std::env::set_var(k, v);
    }
    let _ = io.take_stdout();
    let rec = Recorder::default();
    let result = (|| {
        // no positional header: the input headers are added through Builder::header, in order
        let mut a: Vec<String> = vec!["bindgen".into()];
        a.extend(input.flags.iter().map(|f| bg::subst(&dir, f)));
        // the first header goes through the CLI, the others through Builder::header, in order
        a.push(input.headers[0].clone());
        let (mut b, _, _) = bindgen::builder_from_flags(a.into_iter()).map_err(|e| e.to_string())?;
        b = b.clang_args(input.clang_args.iter().map(|f| bg::subst(&dir, f)));
        for h in &input.headers[1..] {
            b = b.header(h.as_str());
        }
        let b = b.parse_callbacks(Box::new(rec.clone())).parse_callbacks(Box::new(bindgen::CargoCallbacks::new()));
        Ok::<_, String>(bg::generate_with(b))
    })();
    for k in envs.keys() {
        std::env::remove_var(k);
    }
    let stdout = io.take_stdout();
    let log = rec.log.lock().unwrap().clone();
    let depfile = std::fs::read_to_string(dir.join("out.d")).ok();
    match result {
        Err(e) => json!({"error": e}),
        Ok(r) => json!({
            "result": match &r { bg::BgResult::Ok(_) => "ok", bg::BgResult::Err(_) => "err", bg::BgResult::Panic(_) => "panic" },
            "detail": match &r { bg::BgResult::Ok(t) => t.clone(), bg::BgResult::Err(e) => e.clone(), bg::BgResult::Panic(p) => p.clone() },
            "log": log,
            "stdout": stdout,
            "depfile": depfile,
        }),
    }
}

fn case_strategy(max_files: usize) -> BoxedStrategy<Case> {
    let edge = |n: usize| {
        (
            0..n,
            prop_oneof![4 => Just(Form::QuotedRel), 2 => Just(Form::AngleI), 1 => Just(Form::QuotedIquote), 1 => Just(Form::AngleIsystem), 1 => Just(Form::QuotedAbs)],
            prop_oneof![6 => Just(Guard::None), 1 => Just(Guard::If1), 2 => Just(Guard::If0), 1 => Just(Guard::IfdefUndefined), 1 => Just(Guard::IfndefUndefined), 1 => Just(Guard::ElseBranchOfIf1)],
            proptest::bool::weighted(0.2),
            proptest::bool::weighted(0.15),
        )
            .prop_map(|(to, form, guard, dotdot, twice)| Edge { to, form, guard, dotdot, twice })
    };
    (2..=max_files)
        .prop_flat_map(move |n| {
            let node = (0..DIRS.len(), 0..NAMES.len(), any::<bool>(), proptest::collection::vec(edge(n), 0..5), prop_oneof![16 => Just(0u8), 1 => Just(1u8), 1 => Just(2u8)]).prop_map(|(dir, name, pragma_once, edges, clash)| FileNode { dir, name, pragma_once, edges, clash });
            (
                proptest::collection::vec(node, n),
                prop_oneof![3 => Just(vec![0usize]), 1 => proptest::collection::vec(0..n, 1..4)],
                proptest::bool::weighted(0.3),
                0..TARGET_NAMES.len(),
                prop_oneof![2 => Just(None), 1 => (0..ENV_TARGETS.len()).prop_map(Some)],
                0u8..8,
                proptest::bool::weighted(0.2),
                proptest::option::weighted(0.2, 0..n),
                proptest::option::weighted(0.3, (0u8..5, 0..n)),
            )
        })
        .prop_map(|(files, inputs, relative_input, depfile_target, env_target, env_extra, symlink_dir, cmdline_include, filter)| {
            let mut c = Case { files, inputs, relative_input, depfile_target, env_target, env_extra, symlink_dir, cmdline_include, filter };
            normalise(&mut c);
            c
        })
        .boxed()
}

impl Property for C17 {
    type Case = Case;
    fn id(&self) -> &'static str {
        "C17"
    }
    fn rule(&self) -> String {
        "generated include DAGs of 2..14 files in 6 directories (names with spaces, '#', '$', ':', quote, '=', non-ASCII), edges in five include forms (relative incl. `..`, -I, -iquote, -isystem, absolute), six preprocessor guards (active and inactive), repeated inclusion, include guards or #pragma once, a symlinked search directory, 1..3 input headers (absolute or relative to the working directory), depfile target names with spaces and backslashes, TARGET / BINDGEN_EXTRA_CLANG_ARGS[_<target>] set or unset, and in 30 % of cases an item filter that changes what is emitted but not what is read (--blocklist-file of one file or of everything, --allowlist-file, --blocklist-type, --allowlist-type). Non-trivial = a tree with >=1 include in an inactive region and >=1 file reached by two paths; distinct by tree hash".into()
    }
    fn assumptions(&self) -> Vec<String> {
        vec![
            "`clang -M` with the same arguments (other input headers as -include) is the reference for the set of files read".into(),
            "depfile paths are re-parsed with the inverse of the documented escaping (backslash and space); GNU make's own `$`/`#` expansion is outside the statement".into(),
            "file names do not contain newlines; header_contents inputs are not generated".into(),
        ]
    }
    fn strategy(&self, tier: Tier) -> BoxedStrategy<Case> {
        case_strategy(tier.pick(10, 14))
    }
    fn generated(&self, tier: Tier) -> usize {
        tier.pick(3000, 40000)
    }
    fn evaluate(&self, case: &Case, env: &Env) -> Outcome {
        let mut out = Outcome::new();
        let mut c = case.clone();
        normalise(&mut c);
        let root = env.dir.join("tree");
        let files = render(&c, &root);
        for (rel, text) in &files {
            let p = root.join(rel);
            std::fs::create_dir_all(p.parent().unwrap()).ok();
            std::fs::write(&p, text).expect("write tree file");
        }
        for d in DIRS {
            std::fs::create_dir_all(root.join(d)).ok();
        }
        if c.symlink_dir {
            let _ = std::os::unix::fs::symlink(root.join("inc"), root.join("link-to-inc"));
        }
        let cwd_rel = "tree/top";
        let cwd = env.dir.join(cwd_rel);
        // input headers: absolute, or relative to the working directory
        let headers: Vec<String> = c
            .inputs
            .iter()
            .map(|i| {
                if c.relative_input {
                    // the shortest spelling from the working directory `top`
                    let rel = file_rel(&c, *i);
                    match rel.strip_prefix("top/") {
                        Some(short) => short.to_string(),
                        None => rel_path("top", &rel, false),
                    }
                } else {
                    root.join(file_rel(&c, *i)).to_str().unwrap().to_string()
                }
            })
            .collect();
        let mut sargs = search_args(&c, &root);
        if let Some(k) = c.cmdline_include {
            sargs.push("-include".into());
            sargs.push(root.join(file_rel(&c, k)).to_str().unwrap().to_string());
            out.class("include-from-command-line");
        }
        let target_name = TARGET_NAMES[c.depfile_target % TARGET_NAMES.len()];
        let lang: Vec<String> = vec!["-x".into(), "c".into()];
        // --- oracle: clang -M
        let mut cargs: Vec<String> = vec!["-M".into(), "-MT".into(), "TARGET".into(), "-w".into()];
        cargs.extend(lang.iter().cloned());
        cargs.extend(sargs.iter().cloned());
        let n = headers.len();
        for h in &headers[..n - 1] {
            cargs.push("-include".into());
            cargs.push(h.clone());
        }
        cargs.push(headers[n - 1].clone());
        let mut cmd = std::process::Command::new(tools::clang_bin());
        cmd.args(&cargs);
        let co = match tools::run(&mut cmd, &cwd, 60) {
            Ok(o) => o,
            Err(e) => return out.inconclusive(format!("clang: {e}")),
        };
        if !co.ok() {
            return out.inconclusive(format!("generated tree rejected by clang: {}", co.stderr.chars().take(600).collect::<String>()));
        }
        let mut expected: BTreeSet<String> = headers.iter().map(|h| canon(h, &cwd)).collect();
        for p in parse_make_deps(&co.stdout) {
            expected.insert(canon(&p, &cwd));
        }
        // cross-check the oracle with the generator's own model (catches a wrong oracle parse)
        let model: BTreeSet<String> = model_reachable(&c).iter().map(|i| canon(root.join(file_rel(&c, *i)).to_str().unwrap(), &cwd)).collect();
        // (with colliding file names a search-path include may find another file than the edge
        // meant: the model does not resolve search paths, clang is the reference there)
        let clashes = (0..c.files.len()).any(|i| file_base(&c, i) != format!("{}_{}", i, NAMES[c.files[i].name % NAMES.len()]));
        if clashes {
            out.class("file-name-collides-with-input-header");
        }
        if model != expected && !clashes {
            if env.replay {
                println!("tree kept for inspection: {}", root.display());
            }
            return out.inconclusive(format!("harness: clang -M set and generator model disagree: clang {expected:?} model {model:?}"));
        }
        // --- bindgen in a worker (stdout capture, env)
        let mut envs: BTreeMap<String, String> = BTreeMap::new();
        let mut expected_env: Vec<String> = vec!["TARGET".into()];
        if let Some(t) = c.env_target {
            let t = ENV_TARGETS[t % ENV_TARGETS.len()];
            envs.insert("TARGET".into(), t.into());
            let v1 = format!("BINDGEN_EXTRA_CLANG_ARGS_{t}");
            let v2 = format!("BINDGEN_EXTRA_CLANG_ARGS_{}", t.replace('-', "_"));
            expected_env.push(v1.clone());
            if c.env_extra & 1 != 0 {
                envs.insert(v1, "-DFROM_ENV_1".into());
            } else {
                expected_env.push(v2.clone());
                if c.env_extra & 2 != 0 {
                    envs.insert(v2, "-DFROM_ENV_2".into());
                } else {
                    expected_env.push("BINDGEN_EXTRA_CLANG_ARGS".into());
                }
            }
        } else {
            expected_env.push("BINDGEN_EXTRA_CLANG_ARGS".into());
        }
        if c.env_extra & 4 != 0 {
            envs.insert("BINDGEN_EXTRA_CLANG_ARGS".into(), "-DFROM_ENV_3".into());
        }
        let mut flags: Vec<String> = vec!["--formatter=none".into(), "--no-include-path-detection".into(), "--depfile".into(), "{DIR}/out.d".into(), "-o".into()];
        // the depfile target is the output path as given
        std::fs::create_dir_all(env.dir.join("o/dir")).ok();
        flags.push(format!("{{DIR}}/o/{target_name}"));
        if let Some((kind, k)) = c.filter {
            let k = k % c.files.len();
            let file_re = format!(".*{}", regex::escape(&file_base(&c, k)));
            let (flag, val) = match kind % 5 {
                0 => ("--blocklist-file", file_re),
                1 => ("--blocklist-file", ".*".to_string()),
                2 => ("--allowlist-file", file_re),
                3 => ("--blocklist-type", "S_.*".to_string()),
                _ => ("--allowlist-type", format!("S_{k}")),
            };
            flags.push(flag.into());
            flags.push(val);
            out.class(format!("item-filter:{flag}"));
        }
        let mut clang_args = lang.clone();
        clang_args.extend(sargs.iter().cloned());
        if c.env_target.map(|t| ENV_TARGETS[t % ENV_TARGETS.len()]) == Some("weird-target") {
            // an unknown TARGET triple would be handed to clang; pin the real one
            clang_args.push("--target=x86_64-unknown-linux-gnu".into());
        }
        let input = BgInput { files: vec![], headers: headers.clone(), flags, clang_args, callbacks: vec![] };
        let req = json!({"op": "c17", "dir": env.dir.to_str().unwrap(), "cwd": cwd_rel, "input": input, "env": envs, "raw_headers": true});
        let v = match worker::call(&req, 120) {
            Reply::Ok(v) => v,
            other => return out.inconclusive(format!("worker: {}", other.describe())),
        };
        if let Some(e) = v.get("error") {
            return out.inconclusive(format!("harness: {e}"));
        }
        if v["result"] != json!("ok") {
            // clang accepted the tree, so this is C12's subject; record and stop
            let detail = v["detail"].to_string();
            if v["result"] == json!("err") && detail.contains("ClangDiagnostic") {
                out.class("libclang-rejects-what-clang-accepts");
                return out.inconclusive(format!("libclang rejected a tree the clang binary accepts: {}", detail.chars().take(300).collect::<String>()));
            }
            out.fail(format!("generation-failed/{}", v["result"].as_str().unwrap_or("?")), format!("{}", detail.chars().take(500).collect::<String>()));
            return out;
        }
        let text = v["detail"].as_str().unwrap_or("");
        // every file whose struct appears in the bindings must have been reported
        let in_bindings: BTreeSet<usize> = (0..c.files.len()).filter(|i| text.contains(&format!("pub struct S_{i} "))).collect();
        let name_of = |p: &String| p.replace(root.to_str().unwrap(), "");
        let diff = |what: &str, got: &BTreeSet<String>, out: &mut Outcome| {
            let missing: Vec<String> = expected.difference(got).map(name_of).collect();
            let extra: Vec<String> = got.difference(&expected).map(name_of).collect();
            if !missing.is_empty() {
                out.fail(format!("{what}/missing-file"), format!("read by clang but not reported: {missing:?}"));
            }
            if !extra.is_empty() {
                out.fail(format!("{what}/unread-file-reported"), format!("reported but not read: {extra:?}"));
            }
        };
        // (a) depfile
        match v["depfile"].as_str() {
            None => out.fail("depfile/not-written", "no depfile"),
            Some(d) => match parse_depfile(d) {
                None => out.fail("depfile/unparseable", d.chars().take(300).collect::<String>()),
                Some((t, paths)) => {
                    let want = env.dir.join("o").join(target_name);
                    if t != want.to_str().unwrap() {
                        let class = if target_name.contains(' ') { "space" } else if target_name.contains('\\') { "backslash" } else { "plain" };
                        out.fail(format!("depfile/target-name/{class}"), format!("target parsed back as `{t}`, configured `{}`", want.display()));
                    }
                    let got: BTreeSet<String> = paths.iter().map(|p| canon(p, &cwd)).collect();
                    if got.iter().any(|g| g.starts_with("<unresolvable")) {
                        out.fail("depfile/path-does-not-reparse", format!("{:?} from `{}`", got.iter().filter(|g| g.starts_with("<unres")).collect::<Vec<_>>(), d.chars().take(400).collect::<String>()));
                    } else {
                        diff("depfile", &got, &mut out);
                    }
                }
            },
        }
        // (b) callbacks
        let log: Vec<String> = serde_json::from_value(v["log"].clone()).unwrap_or_default();
        let cb_files: Vec<String> = log.iter().filter_map(|l| l.strip_prefix("header_file ").or_else(|| l.strip_prefix("include_file "))).map(|s| s.to_string()).collect();
        let got: BTreeSet<String> = cb_files.iter().map(|p| canon(p, &cwd)).collect();
        diff("callbacks", &got, &mut out);
        let hdr_cb: Vec<String> = log.iter().filter_map(|l| l.strip_prefix("header_file ")).map(|s| s.to_string()).collect();
        if hdr_cb != headers {
            out.fail("callbacks/header-file-sequence", format!("header_file notifications {hdr_cb:?}, input headers {headers:?}"));
        }
        // (c) cargo lines: exactly one per notification
        let stdout = v["stdout"].as_str().unwrap_or("");
        let mut cargo_files: Vec<String> = stdout.lines().filter_map(|l| l.strip_prefix("cargo:rerun-if-changed=")).map(|s| s.to_string()).collect();
        let mut notif = cb_files.clone();
        cargo_files.sort();
        notif.sort();
        if cargo_files != notif {
            out.fail("cargo/rerun-if-changed-lines", format!("lines {cargo_files:?} vs notifications {notif:?}"));
        }
        let cargo_env: Vec<String> = stdout.lines().filter_map(|l| l.strip_prefix("cargo:rerun-if-env-changed=")).map(|s| s.to_string()).collect();
        let env_set: BTreeSet<&String> = cargo_env.iter().collect();
        if env_set.len() != cargo_env.len() {
            out.fail("cargo/env-line-twice", format!("{cargo_env:?}"));
        }
        let want_env: BTreeSet<&String> = expected_env.iter().collect();
        if env_set != want_env {
            out.fail("cargo/env-lines", format!("printed {cargo_env:?}, documented lookup chain consulted {expected_env:?}"));
        }
        let env_cb: Vec<String> = log.iter().filter_map(|l| l.strip_prefix("read_env_var ")).map(|s| s.to_string()).collect();
        if env_cb != cargo_env {
            out.fail("cargo/env-lines-vs-notifications", format!("{cargo_env:?} vs {env_cb:?}"));
        }
        // (d) the environment arguments took effect as documented (first set variable wins)
        for i in &in_bindings {
            let p = canon(root.join(file_rel(&c, *i)).to_str().unwrap(), &cwd);
            if !expected.contains(&p) {
                out.fail("oracle/struct-from-unread-file", format!("S_{i} in bindings but its file was not read according to clang"));
            }
        }
        // classes / non-triviality
        let inactive = c.files.iter().flat_map(|f| f.edges.iter()).any(|e| matches!(e.guard, Guard::If0 | Guard::IfdefUndefined | Guard::ElseBranchOfIf1));
        let mut indeg: BTreeMap<usize, usize> = BTreeMap::new();
        let reach = model_reachable(&c);
        for i in &reach {
            for e in &c.files[*i].edges {
                if matches!(e.guard, Guard::None | Guard::If1 | Guard::IfndefUndefined) {
                    *indeg.entry(e.to).or_default() += 1 + e.twice as usize;
                }
            }
        }
        let diamond = indeg.values().any(|v| *v >= 2);
        if inactive {
            out.class("has-inactive-include");
        }
        if diamond {
            out.class("has-file-reached-twice");
        }
        if c.inputs.len() > 1 {
            out.class("several-input-headers");
        }
        if c.relative_input {
            out.class("relative-input-path");
        }
        if c.symlink_dir {
            out.class("symlinked-search-dir");
        }
        if expected.iter().any(|p| p.contains(' ')) {
            out.class("path-with-space");
        }
        if c.env_target.is_some() {
            out.class("env-TARGET-set");
        }
        if inactive && diamond {
            out.nontrivial(format!("{:x}", fnv(&format!("{:?}", c.files))));
        }
        out.sample = Some(json!({"files": files.iter().map(|f| f.0.clone()).collect::<Vec<_>>(), "inputs": headers.iter().map(|h| h.replace(root.to_str().unwrap(), "")).collect::<Vec<_>>(), "read": expected.len(), "of": c.files.len(), "depfile_target": target_name, "env": envs}));
        out
    }
}
