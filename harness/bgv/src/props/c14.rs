//! C14 — bindings use only features of the selected Rust target, monotonically.
//! Exhaustive enumeration of (target spelling, edition) x trigger headers against an
//! independent feature-introduction table (written from the Rust release notes).

use crate::bg::{self, BgInput, BgResult};
use crate::engine::{Env, Outcome, Property, Tier};
use crate::rs::flat_tokens;
use proptest::prelude::*;
use serde::{Deserialize, Serialize};
use serde_json::json;
use std::str::FromStr;

pub struct C14;

#[derive(Clone, Debug, Serialize, Deserialize)]
pub struct Case {
    pub header: String,
    /// None = no --rust-edition flag
    pub edition: Option<u32>,
    /// target spellings to sweep (ordered as generated); empty = the full enumeration
    pub targets: Vec<String>,
}

/// (name, header text, extra flags, clang args)
fn headers() -> Vec<(&'static str, &'static str, Vec<&'static str>, Vec<&'static str>)> {
    vec![
        (
            "fn_static_struct",
            "int f(int a);\nextern int g;\nstruct S { int a; char b; long c; };\nunion U { int a; char b; };\n",
            vec![],
            vec![],
        ),
        (
            "cstr",
            "#define STR \"abc\"\n#define STR2 \"with\\ttab\"\nconst char *const P = \"xyz\";\n",
            vec!["--generate-cstr"],
            vec![],
        ),
        (
            "fam_dst",
            "struct F { int n; int data[]; };\nstruct G { char tag; struct { short x; } hdr; long tail[]; };\n",
            vec!["--flexarray-dst"],
            vec![],
        ),
        (
            "abi_override",
            "void f_cu(int);\nvoid f_efi(int);\nvoid f_this(void*);\nvoid f_vec(int);\nvoid f_plain(int);\n",
            vec![
                "--override-abi",
                "f_cu=C-unwind",
                "--override-abi",
                "f_efi=efiapi",
                "--override-abi",
                "f_this=thiscall",
                "--override-abi",
                "f_vec=vectorcall",
            ],
            vec![],
        ),
        (
            // overrides keyed on function-pointer typedefs (the name==None path of FunctionSig::abi)
            "abi_override_fnptr",
            "typedef void (*cb_cu)(int code);\ntypedef int (*cb_efi)(void *image, void *table);\ntypedef void (*cb_this)(void *self);\ntypedef float (*cb_vec)(float x);\ntypedef void (*cb_plain)(int);\nstruct H { cb_cu a; cb_efi b; cb_this c; cb_vec d; cb_plain e; void (*inline_member)(int); };\nvoid install(struct H *h, cb_cu direct, cb_efi second);\ncb_vec pick(int which);\nextern cb_this g_cb;\n",
            vec![
                "--override-abi",
                "cb_cu=C-unwind",
                "--override-abi",
                "cb_efi=efiapi",
                "--override-abi",
                "cb_this=thiscall",
                "--override-abi",
                "cb_vec=vectorcall",
            ],
            vec![],
        ),
        (
            // both at once: named functions and the pointer types they take
            "abi_override_mixed",
            "typedef void (*cb_cu)(int code);\ntypedef int (*cb_efi)(void *image);\nvoid f_cu(cb_efi e);\nint f_efi(cb_cu c);\nstruct M { cb_cu c; cb_efi e; };\n",
            vec![
                "--override-abi",
                "cb_cu|f_cu=C-unwind",
                "--override-abi",
                "cb_efi|f_efi=efiapi",
            ],
            vec![],
        ),
        (
            "abi_in_header",
            "void __attribute__((thiscall)) f_this(void*);\nvoid __attribute__((vectorcall)) f_vec(int);\nvoid __attribute__((stdcall)) f_std(int);\nvoid __attribute__((fastcall)) f_fast(int);\nvoid f_plain(int);\n",
            vec![],
            vec!["--target=i686-unknown-linux-gnu"],
        ),
        (
            "use_core",
            "int f(unsigned long a, char b);\nextern long long g;\nstruct S { short a; unsigned char b[3]; void *p; };\n",
            vec!["--use-core"],
            vec![],
        ),
        (
            "use_core_cstr_fam",
            "#define STR \"abc\"\nstruct F { int n; int data[]; };\nint f(int);\n",
            vec!["--use-core", "--generate-cstr", "--flexarray-dst"],
            vec![],
        ),
        (
            "layout_tests_old_style",
            "struct A { char c; double d; };\nstruct B { struct A a[2]; int bits: 3; int tail; };\n",
            vec!["--with-derive-default"],
            vec![],
        ),
    ]
}

/// Spelling -> Some(effective minor) (None = nightly). "1.N.P-nightly" is a nightly that
/// precedes 1.N, so only 1.(N-1) features may be assumed; beta of 1.N has all of 1.N.
fn effective_minor(spelling: &str) -> Option<u64> {
    if spelling == "nightly" {
        return None;
    }
    let (ver, pre) = spelling.split_once('-').unwrap_or((spelling, ""));
    let mut it = ver.split('.');
    it.next();
    let minor: u64 = it.next().unwrap().parse().unwrap();
    Some(if pre == "nightly" { minor - 1 } else { minor })
}

fn latest_known_minor() -> u64 {
    // public API: under the CLI feature the default target is the newest stable release known
    let s = bindgen::RustTarget::default().to_string();
    s.split('.').nth(1).and_then(|m| m.parse().ok()).expect("default target is 1.N.P")
}

pub fn all_targets() -> Vec<String> {
    let latest = latest_known_minor();
    let mut v = vec![];
    for m in 51..=latest + 2 {
        v.push(format!("1.{m}"));
        v.push(format!("1.{m}.0"));
        v.push(format!("1.{m}.1"));
        v.push(format!("1.{m}.0-beta"));
        v.push(format!("1.{m}.0-beta.2"));
        if m > 51 {
            v.push(format!("1.{m}.0-nightly"));
        }
    }
    v.push("nightly".into());
    v
}

const EDITION_MIN: &[(u32, u64)] = &[(2018, 31), (2021, 56), (2024, 85)];

/// Independent table: construct -> first stable minor (None = nightly only), editions allowed.
struct Construct {
    name: &'static str,
    since: Option<u64>,
    editions: &'static [u32],
}

const TABLE: &[Construct] = &[
    Construct { name: "unsafe_extern", since: Some(82), editions: &[] },
    Construct { name: "offset_of", since: Some(77), editions: &[] },
    Construct { name: "cstr_literal", since: Some(77), editions: &[2021, 2024] },
    Construct { name: "const_cstr_unchecked", since: Some(59), editions: &[] },
    Construct { name: "core_ffi_c", since: Some(64), editions: &[] },
    Construct { name: "core_ffi_cstr", since: Some(64), editions: &[] },
    Construct { name: "abi_c_unwind", since: Some(71), editions: &[] },
    Construct { name: "abi_efiapi", since: Some(68), editions: &[] },
    Construct { name: "abi_thiscall", since: Some(73), editions: &[] },
    Construct { name: "abi_vectorcall", since: None, editions: &[] },
    Construct { name: "ptr_from_raw_parts", since: None, editions: &[] },
    Construct { name: "layout_for_value_raw", since: None, editions: &[] },
];

fn detect(tokens: &[String]) -> Vec<&'static str> {
    let mut found = vec![];
    let has_seq = |seq: &[&str]| tokens.windows(seq.len()).any(|w| w.iter().zip(seq).all(|(a, b)| a == b));
    // an `unsafe extern ["abi"] {` block; `unsafe extern "C" fn(..)` (a function-pointer type or
    // a function item) is valid on every target and is not the gated construct
    let unsafe_block = (0..tokens.len().saturating_sub(2)).any(|i| {
        tokens[i] == "unsafe" && tokens[i + 1] == "extern" && {
            let j = if tokens[i + 2].starts_with('"') { i + 3 } else { i + 2 };
            tokens.get(j).map(|t| t == "{").unwrap_or(false)
        }
    });
    if unsafe_block {
        found.push("unsafe_extern");
    }
    if has_seq(&["offset_of", "!"]) {
        found.push("offset_of");
    }
    if tokens.iter().any(|t| t.starts_with("c\"") || t.starts_with("cr\"") || t.starts_with("cr#")) {
        found.push("cstr_literal");
    }
    if tokens.iter().any(|t| t == "from_bytes_with_nul_unchecked") {
        found.push("const_cstr_unchecked");
    }
    if tokens.windows(5).any(|w| {
        w[0] == "core" && w[1] == "::" && w[2] == "ffi" && w[3] == "::" && w[4].starts_with("c_") && w[4] != "c_void"
    }) {
        found.push("core_ffi_c");
    }
    if has_seq(&["core", "::", "ffi", "::", "CStr"]) {
        found.push("core_ffi_cstr");
    }
    for (abi, name) in [
        ("\"C-unwind\"", "abi_c_unwind"),
        ("\"efiapi\"", "abi_efiapi"),
        ("\"thiscall\"", "abi_thiscall"),
        ("\"vectorcall\"", "abi_vectorcall"),
    ] {
        if tokens.windows(2).any(|w| w[0] == "extern" && w[1] == abi) {
            found.push(name);
        }
    }
    if tokens.iter().any(|t| t == "from_raw_parts" || t == "from_raw_parts_mut") {
        found.push("ptr_from_raw_parts");
    }
    if tokens.iter().any(|t| t == "for_value_raw") {
        found.push("layout_for_value_raw");
    }
    found
}

fn input_for(header: &str, target: Option<&str>, edition: Option<u32>) -> Option<BgInput> {
    let (_, text, flags, cargs) = headers().into_iter().find(|h| h.0 == header)?;
    let mut f: Vec<String> = vec!["--formatter".into(), "none".into(), "--no-include-path-detection".into()];
    f.extend(flags.iter().map(|s| s.to_string()));
    if let Some(t) = target {
        f.push("--rust-target".into());
        f.push(t.to_string());
    }
    if let Some(e) = edition {
        f.push("--rust-edition".into());
        f.push(e.to_string());
    }
    Some(BgInput {
        files: vec![("in.h".into(), text.to_string())],
        headers: vec!["in.h".into()],
        flags: f,
        clang_args: cargs.iter().map(|s| s.to_string()).collect(),
        callbacks: vec![],
    })
}

/// which function names must be absent when an ABI is unavailable: (fn, abi token, construct)
const ABI_FNS: &[(&str, &str, &str)] = &[
    ("f_cu", "\"C-unwind\"", "abi_c_unwind"),
    ("f_efi", "\"efiapi\"", "abi_efiapi"),
    ("f_this", "\"thiscall\"", "abi_thiscall"),
    ("f_vec", "\"vectorcall\"", "abi_vectorcall"),
];

/// For each `extern "<abi>" { ... fn NAME` find the abi string of the block declaring NAME.
fn abi_of_fn(tokens: &[String], name: &str) -> Option<String> {
    let mut cur: Option<String> = None;
    let mut i = 0;
    while i + 1 < tokens.len() {
        if tokens[i] == "extern" && tokens[i + 1].starts_with('"') {
            cur = Some(tokens[i + 1].clone());
        }
        if tokens[i] == "fn" && tokens[i + 1] == name {
            return cur;
        }
        i += 1;
    }
    None
}

impl Property for C14 {
    type Case = Case;
    fn id(&self) -> &'static str {
        "C14"
    }
    fn level(&self) -> &'static str {
        "exploration"
    }
    fn rule(&self) -> String {
        "enumerated completely: every target spelling (1.51 ..= newest known + 2, patch 0/1, -beta, -beta.N, -nightly, nightly) x editions {none,2018,2021,2024} x 8 trigger headers; one case = (header, edition) swept over all targets; a (header, edition, target) generation is non-trivial when the target's effective minor is within 1 of a feature or edition boundary of the independent table; distinct by (header, edition, target)".into()
    }
    fn assumptions(&self) -> Vec<String> {
        vec![
            "the feature-introduction table in props/c14.rs (from the Rust release notes) is correct".into(),
            "constructs are recognised by token patterns in the output; a gated construct emitted in a shape the scanner does not know is invisible".into(),
        ]
    }
    fn exhaustive(&self, _tier: Tier) -> bool {
        true
    }
    fn strategy(&self, _tier: Tier) -> BoxedStrategy<Case> {
        // random (header, edition, target pair) spot checks: redundant with the enumeration, kept so
        // that shrinking yields a two-target replay when the sweep fails
        let hs: Vec<String> = headers().iter().map(|h| h.0.to_string()).collect();
        let ts = all_targets();
        (0..hs.len(), prop_oneof![Just(None), Just(Some(2018u32)), Just(Some(2021)), Just(Some(2024))], 0..ts.len(), 0..ts.len())
            .prop_map(move |(h, e, a, b)| Case { header: hs[h].clone(), edition: e, targets: vec![ts[a.min(b)].clone(), ts[a.max(b)].clone()] })
            .boxed()
    }
    fn generated(&self, tier: Tier) -> usize {
        tier.pick(64, 512)
    }
    fn fixed_cases(&self, _tier: Tier) -> Vec<Case> {
        let mut v = vec![];
        for h in headers() {
            for e in [None, Some(2018), Some(2021), Some(2024)] {
                v.push(Case { header: h.0.to_string(), edition: e, targets: vec![] });
            }
        }
        v
    }

    fn evaluate(&self, case: &Case, env: &Env) -> Outcome {
        let mut out = Outcome::new();
        out.evaluations = 0;
        let latest = latest_known_minor();
        let targets = if case.targets.is_empty() { all_targets() } else { case.targets.clone() };
        // sort by effective position (nightly last), stable
        let mut order: Vec<(u64, String)> =
            targets.iter().map(|t| (effective_minor(t).unwrap_or(u64::MAX), t.clone())).collect();
        order.sort_by_key(|x| x.0);
        let boundaries: Vec<u64> = TABLE.iter().filter_map(|c| c.since).chain(EDITION_MIN.iter().map(|e| e.1)).collect();

        // sanity of the newest-known claim: bindgen's default must be at least as new as every
        // stable entry of the independent table
        let newest_table = TABLE.iter().filter_map(|c| c.since).max().unwrap();
        if latest < newest_table {
            out.fail("default-target/older-than-known-features", format!("default target 1.{latest} < 1.{newest_table}"));
        }
        // earliest supported
        if bindgen::RustTarget::from_str("1.50").is_ok() {
            out.fail("target-parse/too-early-accepted", "1.50 accepted");
        }

        let mut present_prev: Vec<(&'static str, String)> = vec![]; // construct present at an earlier target
        let mut sample_rows = vec![];
        for (eff, t) in &order {
            let Some(input) = input_for(&case.header, Some(t), case.edition) else {
                return out.inconclusive("unknown header kind");
            };
            let r = bg::generate(&input, &env.dir);
            out.evaluations += 1;
            let key = format!("{}|{:?}|{}", case.header, case.edition, t);
            if boundaries.iter().any(|b| eff.abs_diff(*b) <= 1) || *eff == u64::MAX {
                out.nontrivial(key.clone());
            }
            // (4) edition validity
            let ed_min = case.edition.map(|e| EDITION_MIN.iter().find(|x| x.0 == e).unwrap().1);
            let should_reject = match (ed_min, eff) {
                (Some(m), e) if *e != u64::MAX => m > *e,
                _ => false,
            };
            match &r {
                BgResult::Err(e) if e.contains("UnsupportedEdition") => {
                    if !should_reject {
                        out.fail(
                            format!("edition/rejected-although-available/{}", case.edition.unwrap_or(0)),
                            format!("{key}: {e}"),
                        );
                    }
                    continue;
                }
                BgResult::Ok(_) if should_reject => {
                    out.fail(
                        format!("edition/accepted-although-unavailable/{}", case.edition.unwrap_or(0)),
                        format!("{key}: bindings were generated"),
                    );
                    continue;
                }
                BgResult::Ok(_) => {}
                other => {
                    out.fail("generate/failed", format!("{key}: {}", other.describe()));
                    continue;
                }
            }
            let text = r.ok().unwrap();
            let toks = flat_tokens(text);
            let found = detect(&toks);
            // edition in effect: explicit, else the newest edition the target supports
            let edition = case.edition.unwrap_or_else(|| {
                EDITION_MIN.iter().rev().find(|x| *eff == u64::MAX || x.1 <= *eff).map(|x| x.0).unwrap()
            });
            // (1) nothing newer than the target
            for c in TABLE {
                let here = found.contains(&c.name);
                if here {
                    let version_ok = match (c.since, *eff) {
                        (_, u64::MAX) => true,
                        (Some(s), e) => e >= s,
                        (None, _) => false,
                    };
                    let edition_ok = c.editions.is_empty() || c.editions.contains(&edition);
                    if !version_ok {
                        out.fail(format!("too-new/{}", c.name), format!("{key}: construct {} present", c.name));
                    }
                    if !edition_ok {
                        out.fail(format!("wrong-edition/{}", c.name), format!("{key}: construct {} present in edition {edition}", c.name));
                    }
                }
            }
            // (2) monotone: everything present earlier (same edition flag) is present now,
            // unless the edition in effect changed in a way that forbids it (cstr literal needs >= 2021)
            for (c, at) in &present_prev {
                let cons = TABLE.iter().find(|x| x.name == *c).unwrap();
                let edition_ok = cons.editions.is_empty() || cons.editions.contains(&edition);
                // const_cstr_unchecked is the older spelling that the cstr literal replaces
                let superseded = *c == "const_cstr_unchecked" && found.contains(&"cstr_literal");
                if edition_ok && !superseded && !found.contains(c) {
                    out.fail(format!("not-monotone/{c}"), format!("{key}: {c} was present at {at} but not here"));
                }
            }
            for f in &found {
                if !present_prev.iter().any(|p| p.0 == *f) {
                    present_prev.push((f, t.clone()));
                }
            }
            // (3) unavailable ABI => function omitted, never another ABI
            if case.header == "abi_override" || case.header == "abi_in_header" {
                for (f, abi, cons) in ABI_FNS {
                    if case.header == "abi_in_header" && (*f == "f_cu" || *f == "f_efi") {
                        continue;
                    }
                    if let Some(a) = abi_of_fn(&toks, f) {
                        if a != *abi {
                            out.fail(format!("abi-substituted/{cons}"), format!("{key}: fn {f} emitted in extern {a}"));
                        }
                    }
                    let c = TABLE.iter().find(|x| x.name == *cons).unwrap();
                    let available = match (c.since, *eff) {
                        (_, u64::MAX) => true,
                        (Some(s), e) => e >= s,
                        (None, _) => false,
                    };
                    // completeness direction: an ABI the target supports must not be withheld
                    if available && abi_of_fn(&toks, f).is_none() {
                        out.fail(format!("abi-withheld/{cons}"), format!("{key}: fn {f} missing although {cons} is available"));
                    }
                }
                if abi_of_fn(&toks, "f_plain").is_none() {
                    out.fail("abi/plain-fn-missing", format!("{key}: f_plain missing"));
                }
            }
            // expected-positive direction for the other constructs (so that a feature that is
            // never enabled is noticed): at/after the table version the trigger header must use it
            let expect: &[&str] = match case.header.as_str() {
                "fn_static_struct" => &["unsafe_extern", "offset_of"],
                "cstr" => &["cstr_literal", "const_cstr_unchecked"],
                "use_core" => &["core_ffi_c", "unsafe_extern"],
                "fam_dst" => &["ptr_from_raw_parts", "layout_for_value_raw", "offset_of"],
                "layout_tests_old_style" => &["offset_of"],
                _ => &[],
            };
            for name in expect {
                let c = TABLE.iter().find(|x| x.name == *name).unwrap();
                let available = match (c.since, *eff) {
                    (_, u64::MAX) => true,
                    (Some(s), e) => e >= s,
                    (None, _) => false,
                } && (c.editions.is_empty() || c.editions.contains(&edition));
                let superseded = *name == "const_cstr_unchecked" && found.contains(&"cstr_literal");
                if available && !superseded && !found.contains(name) {
                    out.fail(format!("withheld/{name}"), format!("{key}: {name} available but not used"));
                }
            }
            if sample_rows.len() < 3 {
                sample_rows.push(json!({"target": t, "constructs": found}));
            }
        }

        // (5) no target given == newest known stable with its newest edition (only in full sweeps)
        if case.targets.is_empty() {
            let none = bg::generate(&input_for(&case.header, None, case.edition).unwrap(), &env.dir);
            let lt = format!("1.{latest}");
            let with = bg::generate(&input_for(&case.header, Some(&lt), case.edition).unwrap(), &env.dir);
            out.evaluations += 2;
            if none != with {
                out.fail("default-target/differs-from-latest", format!("{} edition {:?}: no --rust-target != --rust-target {lt}", case.header, case.edition));
            }
            if case.edition.is_none() {
                let newest_ed = EDITION_MIN.iter().rev().find(|x| x.1 <= latest).unwrap().0;
                let with_ed = bg::generate(&input_for(&case.header, Some(&lt), Some(newest_ed)).unwrap(), &env.dir);
                out.evaluations += 1;
                if none != with_ed {
                    out.fail("default-edition/differs-from-newest", format!("{}: default != --rust-target {lt} --rust-edition {newest_ed}", case.header));
                }
            }
        }
        out.class(format!("header:{}", case.header));
        out.sample = Some(json!({"header": case.header, "edition": case.edition, "targets_swept": order.len(), "rows": sample_rows}));
        out
    }
}
