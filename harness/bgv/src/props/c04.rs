//! C04 — functions and globals bind the right symbol with a call-compatible signature.
//! Generated C libraries whose functions fold every argument into a digest (stored into a
//! global slot owned by the function) and build their return value from it; a generated Rust
//! caller includes the bindings, calls every function with boundary and random values,
//! recomputes the digest, and compares slot, return value and pointer side effects. One
//! executable links the clang-compiled definitions with the rustc-compiled caller.

use crate::bg::{self, BgInput, BgResult};
use crate::engine::{fnv, Env, Outcome, Property, Tier};
use crate::rs::{self, Inventory, Item};
use crate::tools;
use proptest::prelude::*;
use serde::{Deserialize, Serialize};
use serde_json::json;
use std::collections::BTreeSet;

pub struct C04;

#[derive(Clone, Copy, Debug, Serialize, Deserialize, PartialEq, Eq)]
pub enum Sc {
    Bool,
    Char,
    SChar,
    UChar,
    Short,
    UShort,
    Int,
    UInt,
    Long,
    ULong,
    LLong,
    ULLong,
    Float,
    Double,
}

impl Sc {
    pub const ALL: &'static [Sc] = &[Sc::Bool, Sc::Char, Sc::SChar, Sc::UChar, Sc::Short, Sc::UShort, Sc::Int, Sc::UInt, Sc::Long, Sc::ULong, Sc::LLong, Sc::ULLong, Sc::Float, Sc::Double];
    fn c(self) -> &'static str {
        match self {
            Sc::Bool => "_Bool",
            Sc::Char => "char",
            Sc::SChar => "signed char",
            Sc::UChar => "unsigned char",
            Sc::Short => "short",
            Sc::UShort => "unsigned short",
            Sc::Int => "int",
            Sc::UInt => "unsigned int",
            Sc::Long => "long",
            Sc::ULong => "unsigned long",
            Sc::LLong => "long long",
            Sc::ULLong => "unsigned long long",
            Sc::Float => "float",
            Sc::Double => "double",
        }
    }
    /// the Rust type the caller declares its own values with (independent of the bindings)
    fn rust(self) -> &'static str {
        match self {
            Sc::Bool => "bool",
            Sc::Char => "::std::os::raw::c_char",
            Sc::SChar => "::std::os::raw::c_schar",
            Sc::UChar => "::std::os::raw::c_uchar",
            Sc::Short => "::std::os::raw::c_short",
            Sc::UShort => "::std::os::raw::c_ushort",
            Sc::Int => "::std::os::raw::c_int",
            Sc::UInt => "::std::os::raw::c_uint",
            Sc::Long => "::std::os::raw::c_long",
            Sc::ULong => "::std::os::raw::c_ulong",
            Sc::LLong => "::std::os::raw::c_longlong",
            Sc::ULLong => "::std::os::raw::c_ulonglong",
            Sc::Float => "f32",
            Sc::Double => "f64",
        }
    }
    /// C expression of the canonical 64-bit image of `x`
    fn c_canon(self, x: &str) -> String {
        match self {
            Sc::Float => format!("fbits({x})"),
            Sc::Double => format!("dbits({x})"),
            Sc::Bool => format!("(unsigned long long)(({x}) ? 1 : 0)"),
            _ => format!("(unsigned long long)(long long)({x})"),
        }
    }
    fn rust_canon(self, x: &str) -> String {
        match self {
            Sc::Float => format!("({x}).to_bits() as u64"),
            Sc::Double => format!("({x}).to_bits()"),
            Sc::Bool => format!("({x}) as u64"),
            _ => format!("(({x}) as i64) as u64"),
        }
    }
    /// value of this type from a 64-bit word, same on both sides
    fn c_from(self, w: &str) -> String {
        match self {
            Sc::Bool => format!("(_Bool)(({w}) & 1)"),
            Sc::Float => format!("((float)(({w}) % 1000003ULL) / 4.0f)"),
            Sc::Double => format!("((double)(({w}) % 1000000007ULL) / 8.0)"),
            _ => format!("({})({w})", self.c()),
        }
    }
    fn rust_from(self, w: &str) -> String {
        match self {
            Sc::Bool => format!("(({w}) & 1) == 1"),
            Sc::Float => format!("((({w}) % 1000003u64) as f32 / 4.0f32)"),
            Sc::Double => format!("((({w}) % 1000000007u64) as f64 / 8.0f64)"),
            _ => format!("(({w}) as {})", self.rust()),
        }
    }
}

#[derive(Clone, Debug, Serialize, Deserialize, PartialEq, Eq)]
pub enum SField {
    Sc(Sc),
    Arr(Sc, u8),
    Nested(u16),
}

#[derive(Clone, Debug, Serialize, Deserialize, PartialEq, Eq)]
pub struct StructDef {
    pub fields: Vec<SField>,
    pub is_union: bool,
}

#[derive(Clone, Debug, Serialize, Deserialize, PartialEq, Eq)]
pub enum PTy {
    Sc(Sc),
    /// typedef'd scalar
    Typedef(Sc),
    Enum,
    /// pointer to scalar; const pointees are read, others are read and incremented
    Ptr(Sc, bool),
    PtrVoid,
    PtrStruct(u16, bool),
    Struct(u16),
    /// `T name[n]` parameter (decays)
    ArrayParam(Sc, u8),
    /// `int (*cb)(int, double)`
    Callback,
    /// `int (*(*make)(int))(int, double)`: a function returning a callback
    CallbackFactory,
    /// `cb_fn_t *cb` with `typedef int cb_fn_t(int, double);` (pointer to a typedef'd function type)
    CallbackTypedef,
    /// `T name[a][b]` parameter (decays to `T (*)[b]`)
    Array2D(Sc, u8, u8),
    /// `T (*name)[n]`: pointer to an array
    PtrToArray(Sc, u8),
    /// `int (*name[n])(int, double)`: array of callbacks (decays to a pointer to function pointers)
    CallbackArray(u8),
    /// `int (*const name)(int, double)`: const-qualified callback
    ConstCallback,
    /// `const td_T name[n]`: array parameter of a const-qualified typedef'd element (decays to `const td_T *`)
    ConstArrayTypedef(Sc, u8),
}

#[derive(Clone, Debug, Serialize, Deserialize, PartialEq, Eq)]
pub enum RTy {
    Void,
    Sc(Sc),
    Struct(u16),
    Enum,
    /// returns its first pointer-to-scalar argument (or a static when there is none)
    Ptr,
    /// returns a callback: `int (*f(..))(int, double)`
    FnPtr,
}

#[derive(Clone, Debug, Serialize, Deserialize, PartialEq, Eq)]
pub struct Func {
    pub params: Vec<PTy>,
    pub ret: RTy,
    /// number of variadic arguments the caller passes (types cycle int, double, long long)
    pub variadic: Option<u8>,
    pub noreturn: bool,
    /// index into AWKWARD_NAMES for the function name
    pub awkward_name: Option<u8>,
    /// parameter names taken from Rust keywords
    pub keyword_params: bool,
    /// `__attribute__((ms_abi))`: a second calling convention in the same library
    #[serde(default)]
    pub ms_abi: bool,
    /// `__asm__("..")` on the declaration: 0 = `_<name>`, 1 = `lbl_<name>_x` (the symbol differs
    /// from the C name; the library's definition inherits the label from the header)
    #[serde(default)]
    pub asm_label: Option<u8>,
}

#[derive(Clone, Debug, Serialize, Deserialize, PartialEq, Eq)]
pub struct Lib {
    pub structs: Vec<StructDef>,
    pub funcs: Vec<Func>,
    pub globals: Vec<(Sc, bool)>,
    /// global arrays: (element, two-dimensional, const)
    #[serde(default)]
    pub garrays: Vec<(Sc, bool, bool)>,
    /// `int g_defined = 3;` in the header: a known finding (emitted as a constant); only replays set it
    #[serde(default)]
    pub defined_global: bool,
}

#[derive(Clone, Debug, Serialize, Deserialize)]
pub struct Case {
    pub lib: Lib,
    pub flags: Vec<String>,
    pub callbacks: Vec<String>,
    pub seed: u64,
}

const AWKWARD_NAMES: &[&str] = &["match", "type", "fn", "loop", "impl", "mod", "use", "ref", "move", "dyn", "box", "yield", "where", "let", "as", "in", "self_fn", "crate", "Self", "gen", "trait", "unsafe", "async", "await", "pub"];
const KEYWORD_PARAMS: &[&str] = &["type", "fn", "match", "ref", "mod", "in", "box", "move", "dyn", "loop", "impl", "use", "where", "let", "as", "gen"];

const FLAG_GROUPS: &[&[&str]] = &[
    &["--merge-extern-blocks"],
    &["--sort-semantically"],
    &["--c-naming"],
    &["--override-abi", ".*=C-unwind"],
    &["--no-layout-tests"],
    &["--with-derive-default"],
    &["--default-enum-style", "consts"],
    &["--rust-target", "1.64"],
    &["--wrap-unsafe-ops"],
    &["--enable-function-attribute-detection"],
    &["--generate-inline-functions"],
];

impl Lib {
    pub fn normalise(&mut self) {
        if self.structs.is_empty() {
            self.structs.push(StructDef { fields: vec![SField::Sc(Sc::Int)], is_union: false });
        }
        let ns = self.structs.len();
        for i in 0..ns {
            let (before, rest) = self.structs.split_at_mut(i);
            let s = &mut rest[0];
            if s.fields.is_empty() {
                s.fields.push(SField::Sc(Sc::Char));
            }
            for f in s.fields.iter_mut() {
                match f {
                    SField::Nested(k) => {
                        if i == 0 {
                            *f = SField::Sc(Sc::Int);
                        } else {
                            let t = (*k as usize * i) >> 16;
                            // unions are not nested (which member is live would need tracking)
                            if before[t].is_union {
                                *f = SField::Sc(Sc::Short);
                            } else {
                                *k = t as u16;
                            }
                        }
                    }
                    SField::Arr(_, n) => *n = (*n % 6) + 1,
                    _ => {}
                }
            }
            // a union only has scalar members and the first one is the widest used for digests
            if s.is_union {
                s.fields.retain(|f| matches!(f, SField::Sc(_)));
                if s.fields.is_empty() {
                    s.fields.push(SField::Sc(Sc::Int));
                }
                s.fields.truncate(3);
            }
        }
        let fix = |k: &mut u16| *k = ((*k as usize * ns) >> 16) as u16;
        let mut used_names = BTreeSet::new();
        for f in self.funcs.iter_mut() {
            for p in f.params.iter_mut() {
                match p {
                    PTy::PtrStruct(k, _) | PTy::Struct(k) => fix(k),
                    PTy::ArrayParam(_, n) | PTy::PtrToArray(_, n) | PTy::CallbackArray(n) | PTy::ConstArrayTypedef(_, n) => *n = (*n % 5) + 1,
                    PTy::Array2D(_, a, b) => {
                        *a = (*a % 3) + 1;
                        *b = (*b % 4) + 1;
                    }
                    _ => {}
                }
            }
            if let RTy::Struct(k) = &mut f.ret {
                fix(k);
            }
            if f.variadic.is_some() && f.params.is_empty() {
                f.params.push(PTy::Sc(Sc::Int));
            }
            if let Some(v) = &mut f.variadic {
                *v %= 7;
            }
            if f.noreturn {
                f.ret = RTy::Void;
                f.variadic = None;
            }
            if f.variadic.is_some() {
                f.ms_abi = false;
            }
            if let Some(a) = f.awkward_name {
                if !used_names.insert(a as usize % AWKWARD_NAMES.len()) {
                    f.awkward_name = None;
                }
            }
        }
    }

    pub fn sname(&self, k: usize) -> String {
        format!("{}{k}", if self.structs[k].is_union { "U" } else { "S" })
    }
    pub fn stype(&self, k: usize) -> String {
        format!("{} {}", if self.structs[k].is_union { "union" } else { "struct" }, self.sname(k))
    }
    /// (C access path suffix, Rust access path suffix, scalar) of every leaf of struct k
    pub fn leaves(&self, k: usize) -> Vec<(String, Sc)> {
        let mut v = vec![];
        let s = &self.structs[k];
        for (i, f) in s.fields.iter().enumerate() {
            match f {
                SField::Sc(sc) => v.push((format!(".m{i}"), *sc)),
                SField::Arr(sc, n) => {
                    for j in 0..*n {
                        v.push((format!(".m{i}[{j}]"), *sc));
                    }
                }
                SField::Nested(t) => {
                    for (p, sc) in self.leaves(*t as usize) {
                        v.push((format!(".m{i}{p}"), sc));
                    }
                }
            }
            if s.is_union {
                // only the first member of a union is live
                break;
            }
        }
        v
    }
    pub fn fname(&self, k: usize) -> String {
        match self.funcs[k].awkward_name {
            Some(a) => AWKWARD_NAMES[a as usize % AWKWARD_NAMES.len()].to_string(),
            None => format!("f{k}"),
        }
    }
    pub fn pname(&self, f: &Func, i: usize) -> String {
        if f.keyword_params {
            KEYWORD_PARAMS[i % KEYWORD_PARAMS.len()].to_string()
        } else {
            format!("p{i}")
        }
    }

    fn c_param(&self, f: &Func, i: usize, p: &PTy) -> String {
        let n = self.pname(f, i);
        match p {
            PTy::Sc(s) => format!("{} {n}", s.c()),
            PTy::Typedef(s) => format!("td_{} {n}", s.c().replace(' ', "_")),
            PTy::Enum => format!("enum Color {n}"),
            PTy::Ptr(s, c) => format!("{}{} *{n}", if *c { "const " } else { "" }, s.c()),
            PTy::PtrVoid => format!("const void *{n}"),
            PTy::PtrStruct(k, c) => format!("{}{} *{n}", if *c { "const " } else { "" }, self.stype(*k as usize)),
            PTy::Struct(k) => format!("{} {n}", self.stype(*k as usize)),
            PTy::ArrayParam(s, len) => format!("{} {n}[{len}]", s.c()),
            PTy::Callback => format!("int (*{n})(int, double)"),
            PTy::CallbackFactory => format!("int (*(*{n})(int))(int, double)"),
            PTy::CallbackTypedef => format!("cb_fn_t *{n}"),
            PTy::Array2D(s, a, b) => format!("{} {n}[{a}][{b}]", s.c()),
            PTy::PtrToArray(s, len) => format!("{} (*{n})[{len}]", s.c()),
            PTy::CallbackArray(k) => format!("int (*{n}[{k}])(int, double)"),
            PTy::ConstCallback => format!("int (*const {n})(int, double)"),
            PTy::ConstArrayTypedef(s, len) => format!("const td_{} {n}[{len}]", s.c().replace(' ', "_")),
        }
    }
    fn c_ret(&self, r: &RTy) -> String {
        match r {
            RTy::Void => "void".into(),
            RTy::Sc(s) => s.c().into(),
            RTy::Struct(k) => self.stype(*k as usize),
            RTy::Enum => "enum Color".into(),
            RTy::Ptr => "const int *".into(),
            RTy::FnPtr => "int (*".into(),
        }
    }
    pub fn proto(&self, k: usize) -> String {
        let f = &self.funcs[k];
        let mut ps: Vec<String> = f.params.iter().enumerate().map(|(i, p)| self.c_param(f, i, p)).collect();
        if f.variadic.is_some() {
            ps.push("...".into());
        }
        if ps.is_empty() {
            ps.push("void".into());
        }
        if f.ret == RTy::FnPtr {
            return format!("{}int (*{}({}))(int, double)", if f.ms_abi { "__attribute__((ms_abi)) " } else { "" }, self.fname(k), ps.join(", "));
        }
        format!("{}{}{} {}({})", if f.noreturn { "__attribute__((noreturn)) " } else { "" }, if f.ms_abi { "__attribute__((ms_abi)) " } else { "" }, self.c_ret(&f.ret), self.fname(k), ps.join(", "))
    }


    /// ` { .. }` of function k (folds arguments, stores the digest, builds the return value)
    pub fn body(&self, k: usize) -> String {
        let mut s = String::new();
        {
            let f = &self.funcs[k];
            s.push_str(&format!(" {{\n  unsigned long long h = 1469598103934665603ULL ^ {k}ULL;\n  const int *firstp = &g_static_int;\n"));
            for (i, p) in f.params.iter().enumerate() {
                let n = self.pname(f, i);
                match p {
                    PTy::Sc(sc) | PTy::Typedef(sc) => s.push_str(&format!("  h = step(h, {});\n", sc.c_canon(&n))),
                    PTy::Enum => s.push_str(&format!("  h = step(h, (unsigned long long)(long long)(int){n});\n")),
                    PTy::Ptr(sc, is_const) => {
                        s.push_str(&format!("  h = step(h, {});\n", sc.c_canon(&format!("*{n}"))));
                        if !is_const && *sc != Sc::Bool {
                            s.push_str(&format!("  *{n} = *{n} + 1;\n"));
                        }
                        if *sc == Sc::Int && *is_const {
                            s.push_str(&format!("  if (firstp == &g_static_int) firstp = {n};\n"));
                        }
                    }
                    PTy::PtrVoid => s.push_str(&format!("  h = step(h, (unsigned long long)*(const unsigned char *){n});\n")),
                    PTy::PtrStruct(t, is_const) => {
                        for (path, sc) in self.leaves(*t as usize) {
                            s.push_str(&format!("  h = step(h, {});\n", sc.c_canon(&format!("(*{n}){path}"))));
                        }
                        if !is_const {
                            if let Some((path, sc)) = self.leaves(*t as usize).first() {
                                if *sc != Sc::Bool {
                                    s.push_str(&format!("  (*{n}){path} = (*{n}){path} + 1;\n"));
                                }
                            }
                        }
                    }
                    PTy::Struct(t) => {
                        for (path, sc) in self.leaves(*t as usize) {
                            s.push_str(&format!("  h = step(h, {});\n", sc.c_canon(&format!("{n}{path}"))));
                        }
                    }
                    PTy::ArrayParam(sc, len) | PTy::ConstArrayTypedef(sc, len) => {
                        for j in 0..*len {
                            s.push_str(&format!("  h = step(h, {});\n", sc.c_canon(&format!("{n}[{j}]"))));
                        }
                    }
                    PTy::Callback => s.push_str(&format!("  h = step(h, {n} ? (unsigned long long)(long long){n}((int)(h & 0xffff), 2.5) : 99ULL);\n")),
                    PTy::CallbackFactory => s.push_str(&format!("  h = step(h, (unsigned long long)(long long){n}(7)((int)(h & 0xffff), 2.5));\n")),
                    PTy::CallbackTypedef | PTy::ConstCallback => s.push_str(&format!("  h = step(h, {n} ? (unsigned long long)(long long){n}((int)(h & 0xffff), 2.5) : 99ULL);\n")),
                    PTy::Array2D(sc, a, b) => {
                        for i in 0..*a {
                            for j in 0..*b {
                                s.push_str(&format!("  h = step(h, {});\n", sc.c_canon(&format!("{n}[{i}][{j}]"))));
                            }
                        }
                    }
                    PTy::PtrToArray(sc, len) => {
                        for j in 0..*len {
                            s.push_str(&format!("  h = step(h, {});\n", sc.c_canon(&format!("(*{n})[{j}]"))));
                        }
                    }
                    PTy::CallbackArray(k) => {
                        for j in 0..*k {
                            s.push_str(&format!("  h = step(h, (unsigned long long)(long long){n}[{j}]((int)(h & 0xffff), 2.5));\n"));
                        }
                    }
                }
            }
            if let Some(nv) = f.variadic {
                let last = self.pname(f, f.params.len() - 1);
                s.push_str(&format!("  {{ __builtin_va_list ap; __builtin_va_start(ap, {last});\n"));
                for j in 0..nv {
                    match j % 3 {
                        0 => s.push_str("    h = step(h, (unsigned long long)(long long)__builtin_va_arg(ap, int));\n"),
                        1 => s.push_str("    h = step(h, dbits(__builtin_va_arg(ap, double)));\n"),
                        _ => s.push_str("    h = step(h, (unsigned long long)__builtin_va_arg(ap, long long));\n"),
                    }
                }
                s.push_str("    __builtin_va_end(ap); }\n");
            }
            s.push_str(&format!("  g_digest[{k}] = h;\n"));
            if f.noreturn {
                s.push_str("  __builtin_trap();\n");
            }
            match &f.ret {
                RTy::Void => {}
                RTy::Sc(sc) => s.push_str(&format!("  return {};\n", sc.c_from("h"))),
                RTy::Enum => s.push_str("  return (h & 1) ? GREEN : BLUE;\n"),
                RTy::Ptr => s.push_str("  return firstp;\n"),
                RTy::FnPtr => s.push_str("  return (h & 1) ? lib_cb_odd : lib_cb_even;\n"),
                RTy::Struct(t) => {
                    s.push_str(&format!("  {} r; __builtin_memset(&r, 0, sizeof r);\n", self.stype(*t as usize)));
                    for (j, (path, sc)) in self.leaves(*t as usize).iter().enumerate() {
                        s.push_str(&format!("  r{path} = {};\n", sc.c_from(&format!("(h + {j}ULL * 0x9E3779B97F4A7C15ULL)"))));
                    }
                    s.push_str("  return r;\n");
                }
            }
            s.push_str("}\n");
        }
        s
    }

    /// preamble of every translation unit that contains function bodies
    pub const HELPERS: &'static str = "#define step(h, v) (((unsigned long long)(h) ^ (unsigned long long)(v)) * 1099511628211ULL)\n#define fbits(f) ((unsigned long long)__builtin_bit_cast(unsigned int, (float)(f)))\n#define dbits(d) (__builtin_bit_cast(unsigned long long, (double)(d)))\n";

    pub fn header(&self) -> String {
        let mut s = String::from("#ifndef LIB_H\n#define LIB_H\nenum Color { RED, GREEN = 5, BLUE = -2 };\ntypedef int cb_fn_t(int, double);\n#ifdef __cplusplus\nextern \"C\" {\n#endif\nint lib_cb_odd(int a, double b);\nint lib_cb_even(int a, double b);\n#ifdef __cplusplus\n}\n#endif\n");
        for sc in Sc::ALL {
            s.push_str(&format!("typedef {} td_{};\n", sc.c(), sc.c().replace(' ', "_")));
        }
        for (k, st) in self.structs.iter().enumerate() {
            s.push_str(&format!("{} {{\n", self.stype(k)));
            for (i, f) in st.fields.iter().enumerate() {
                match f {
                    SField::Sc(sc) => s.push_str(&format!("  {} m{i};\n", sc.c())),
                    SField::Arr(sc, n) => s.push_str(&format!("  {} m{i}[{n}];\n", sc.c())),
                    SField::Nested(t) => s.push_str(&format!("  {} m{i};\n", self.stype(*t as usize))),
                }
            }
            s.push_str("};\n");
        }
        s.push_str(&format!("extern unsigned long long g_digest[{}];\nextern int g_static_int;\n", self.funcs.len().max(1)));
        for (k, (sc, is_const)) in self.globals.iter().enumerate() {
            if *is_const && k % 2 == 1 {
                // the qualifier comes from a typedef
                s.push_str(&format!("typedef const {} ctd{k}_t;\nextern ctd{k}_t gv{k};\n{} read_gv{k}(void);\n", sc.c(), sc.c()));
            } else {
                s.push_str(&format!("extern {}{} gv{k};\n{} read_gv{k}(void);\n", if *is_const { "const " } else { "" }, sc.c(), sc.c()));
            }
        }
        for (k, (sc, two_d, is_const)) in self.garrays.iter().enumerate() {
            if *is_const && k % 2 == 1 {
                s.push_str(&format!("typedef const {} cta{k}_t{};\nextern cta{k}_t ga{k};\n", sc.c(), if *two_d { "[2][3]" } else { "[4]" }));
            } else {
                s.push_str(&format!("extern {}{} ga{k}{};\n", if *is_const { "const " } else { "" }, sc.c(), if *two_d { "[2][3]" } else { "[4]" }));
            }
        }
        if self.defined_global {
            s.push_str("int g_defined = 3;\n");
        }
        // functions without a symbol: they must never be bound (unless wrappers are requested)
        s.push_str("static inline int lib_local_inline(int x) { return x * 2 + 1; }\nstatic int lib_local_static(int x) { return x - 1; }\n");
        for k in 0..self.funcs.len() {
            s.push_str(&self.proto(k));
            match self.funcs[k].asm_label {
                Some(l) if self.funcs[k].awkward_name.is_none() => {
                    let n = self.fname(k);
                    s.push_str(&if l % 2 == 0 { format!(" __asm__(\"_{n}\")") } else { format!(" __asm__(\"lbl_{n}_x\")") });
                }
                _ => {}
            }
            s.push_str(";\n");
        }
        s.push_str("#endif\n");
        s
    }

    pub fn c_source(&self) -> String {
        let mut s = String::from("#include \"lib.h\"\n#include <stdarg.h>\n#include <string.h>\n#include <stdlib.h>\n");
        s.push_str(Self::HELPERS);
        s.push_str(&format!("unsigned long long g_digest[{}];\nint g_static_int = 77;\n", self.funcs.len().max(1)));
        for (k, (sc, is_const)) in self.globals.iter().enumerate() {
            let init = sc.c_from(&format!("{}ULL", 0x1234_5678_9abc_def0u64.wrapping_mul(k as u64 + 3)));
            // initialisers must be constant expressions: the formula only uses casts and arithmetic
            s.push_str(&format!("{}{} gv{k} = {init};\n{} read_gv{k}(void) {{ return gv{k}; }}\n", if *is_const { "const " } else { "" }, sc.c(), sc.c()));
        }
        s.push_str("int lib_cb_odd(int a, double b) { return a * 5 + (int)b; }\nint lib_cb_even(int a, double b) { return a * 7 - (int)b; }\n");
        for (k, (sc, two_d, is_const)) in self.garrays.iter().enumerate() {
            let n = if *two_d { 6 } else { 4 };
            let vals: Vec<String> = (0..n).map(|j| sc.c_from(&format!("{}ULL", 0x0123_4567_89ab_cdefu64.wrapping_mul((k * 7 + j + 1) as u64)))).collect();
            let init = if *two_d { format!("{{{{{}}}, {{{}}}}}", vals[..3].join(", "), vals[3..].join(", ")) } else { format!("{{{}}}", vals.join(", ")) };
            s.push_str(&format!("{}{} ga{k}{} = {init};\n", if *is_const { "const " } else { "" }, sc.c(), if *two_d { "[2][3]" } else { "[4]" }));
        }
        for k in 0..self.funcs.len() {
            s.push_str(&self.proto(k));
            s.push_str(&self.body(k));
        }
        s
    }
}

pub fn lib_strategy() -> BoxedStrategy<Lib> {
    let sc = (0..Sc::ALL.len()).prop_map(|i| Sc::ALL[i]);
    let sfield = prop_oneof![6 => sc.clone().prop_map(SField::Sc), 2 => (sc.clone(), 0u8..6).prop_map(|(s, n)| SField::Arr(s, n)), 2 => any::<u16>().prop_map(SField::Nested)];
    let sdef = (proptest::collection::vec(sfield, 1..7), proptest::bool::weighted(0.12)).prop_map(|(fields, is_union)| StructDef { fields, is_union });
    let pty = prop_oneof![
        8 => sc.clone().prop_map(PTy::Sc),
        2 => sc.clone().prop_map(PTy::Typedef),
        1 => Just(PTy::Enum),
        3 => (sc.clone(), any::<bool>()).prop_map(|(s, c)| PTy::Ptr(s, c)),
        1 => Just(PTy::PtrVoid),
        2 => (any::<u16>(), any::<bool>()).prop_map(|(k, c)| PTy::PtrStruct(k, c)),
        5 => any::<u16>().prop_map(PTy::Struct),
        1 => (sc.clone(), 0u8..5).prop_map(|(s, n)| PTy::ArrayParam(s, n)),
        1 => Just(PTy::Callback),
        1 => Just(PTy::CallbackFactory),
        1 => Just(PTy::CallbackTypedef),
        1 => (sc.clone(), 0u8..3, 0u8..4).prop_map(|(s, a, b)| PTy::Array2D(s, a, b)),
        1 => (sc.clone(), 0u8..5).prop_map(|(s, n)| PTy::PtrToArray(s, n)),
        1 => (0u8..5).prop_map(PTy::CallbackArray),
        1 => Just(PTy::ConstCallback),
        1 => (sc.clone(), 0u8..5).prop_map(|(s, n)| PTy::ConstArrayTypedef(s, n)),
    ];
    let rty = prop_oneof![2 => Just(RTy::Void), 6 => sc.clone().prop_map(RTy::Sc), 4 => any::<u16>().prop_map(RTy::Struct), 1 => Just(RTy::Enum), 1 => Just(RTy::Ptr), 1 => Just(RTy::FnPtr)];
    let func = (proptest::collection::vec(pty, 0..9), rty, proptest::option::weighted(0.12, 0u8..7), proptest::bool::weighted(0.03), proptest::option::weighted(0.12, any::<u8>()), proptest::bool::weighted(0.15), proptest::bool::weighted(0.15), proptest::option::weighted(0.12, 0u8..2))
        .prop_map(|(params, ret, variadic, noreturn, awkward_name, keyword_params, ms_abi, asm_label)| Func { params, ret, variadic, noreturn, awkward_name, keyword_params, ms_abi, asm_label });
    (proptest::collection::vec(sdef, 1..6), proptest::collection::vec(func, 1..16), proptest::collection::vec((sc.clone(), any::<bool>()), 0..5), proptest::collection::vec((sc, any::<bool>(), any::<bool>()), 0..3))
        .prop_map(|(structs, funcs, globals, garrays)| {
            let mut l = Lib { structs, funcs, globals, garrays, defined_global: false };
            l.normalise();
            l
        })
        .boxed()
}

/// SplitMix64: the value stream of the caller (fixed algorithm, seeded per case and function)
fn splitmix(x: &mut u64) -> u64 {
    *x = x.wrapping_add(0x9E3779B97F4A7C15);
    let mut z = *x;
    z = (z ^ (z >> 30)).wrapping_mul(0xBF58476D1CE4E5B9);
    z = (z ^ (z >> 27)).wrapping_mul(0x94D049BB133111EB);
    z ^ (z >> 31)
}

const BOUNDARY_WORDS: &[u64] = &[0, 1, 0x7f, 0x80, 0xff, 0x100, 0x7fff, 0x8000, 0xffff, 0x7fff_ffff, 0x8000_0000, 0xffff_ffff, 0x7fff_ffff_ffff_ffff, 0x8000_0000_0000_0000, u64::MAX];

fn word(state: &mut u64) -> u64 {
    let r = splitmix(state);
    if r % 3 == 0 {
        BOUNDARY_WORDS[(r >> 8) as usize % BOUNDARY_WORDS.len()]
    } else {
        r
    }
}

pub fn find_fn<'a>(inv: &'a Inventory, c_name: &str) -> Option<&'a Item> {
    // by link_name first (that is the symbol the binding refers to), then by name
    let ln = format!("link_name = \"\\u{{1}}{c_name}\"");
    let ln2 = format!("link_name = \"{c_name}\"");
    inv.items
        .iter()
        .filter(|i| i.kind == "foreign_fn" || i.kind == "foreign_static")
        .find(|i| i.attrs.iter().any(|a| a.replace(' ', "").contains(&ln.replace(' ', "")) || a.replace(' ', "").contains(&ln2.replace(' ', ""))))
        .or_else(|| inv.items.iter().filter(|i| i.kind == "foreign_fn" || i.kind == "foreign_static").find(|i| i.name == c_name && !i.attrs.iter().any(|a| a.contains("link_name"))))
        // a declaration with an asm label (`_<name>` / `lbl_<name>_x`): found by that link name or,
        // when the label was lost, by its name (linking then decides whether the symbol is right)
        .or_else(|| {
            let labels = [format!("\\u{{1}}_{c_name}\""), format!("\\u{{1}}lbl_{c_name}_x\""), format!("\"_{c_name}\""), format!("\"lbl_{c_name}_x\"")];
            inv.items.iter().filter(|i| i.kind == "foreign_fn" || i.kind == "foreign_static").find(|i| i.attrs.iter().any(|a| a.contains("link_name") && labels.iter().any(|l| a.replace(' ', "").ends_with(&format!("{l}]")))))
        })
        .or_else(|| inv.items.iter().filter(|i| i.kind == "foreign_fn" || i.kind == "foreign_static").find(|i| i.name == c_name))
}

fn type_name(inv: &Inventory, base: &str, is_union: bool) -> String {
    let c_named = format!("{}_{base}", if is_union { "union" } else { "struct" });
    if inv.items.iter().any(|i| (i.kind == "struct" || i.kind == "union") && i.name == c_named) {
        c_named
    } else {
        base.to_string()
    }
}

impl C04 {
    /// Rust caller source; returns (source, number of checks it performs)
    pub fn caller(&self, lib: &Lib, inv: &Inventory, seed: u64, cb_abi: &str, problems: &mut Vec<(String, String)>) -> String {
        self.caller_subset(lib, inv, seed, cb_abi, &(0..lib.funcs.len()).collect::<Vec<_>>(), problems)
    }

    /// the caller restricted to the functions `only`
    pub fn caller_subset(&self, lib: &Lib, inv: &Inventory, seed: u64, cb_abi: &str, only: &[usize], problems: &mut Vec<(String, String)>) -> String {
        let mut s = format!("#![allow(warnings)]\ninclude!(\"b.rs\");\nfn step(h: u64, v: u64) -> u64 {{ (h ^ v).wrapping_mul(1099511628211) }}\nextern \"{cb_abi}\" fn the_cb(a: ::std::os::raw::c_int, b: f64) -> ::std::os::raw::c_int {{ a.wrapping_mul(3).wrapping_add(b as ::std::os::raw::c_int) }}\n");
        s.push_str(&format!("unsafe extern \"{cb_abi}\" fn the_cb_u(a: ::std::os::raw::c_int, b: f64) -> ::std::os::raw::c_int {{ the_cb(a, b) }}\ntype CbT = unsafe extern \"{cb_abi}\" fn(::std::os::raw::c_int, f64) -> ::std::os::raw::c_int;\nextern \"{cb_abi}\" fn the_factory(k: ::std::os::raw::c_int) -> Option<unsafe extern \"{cb_abi}\" fn(::std::os::raw::c_int, f64) -> ::std::os::raw::c_int> {{ if k == 7 {{ Some(the_cb_u) }} else {{ None }} }}\n"));
        let _unused = String::from("extern \"C\" fn the_cb_unused(a: ::std::os::raw::c_int, b: f64) -> ::std::os::raw::c_int { a.wrapping_mul(3).wrapping_add(b as ::std::os::raw::c_int) }\n");
        s.push_str("fn main() {\n  let mut bad = 0usize;\n");
        let enum_ty = if inv.items.iter().any(|i| i.name == "enum_Color") { "enum_Color" } else { "Color" };
        let digest = match find_fn(inv, "g_digest") {
            Some(i) => i.name.clone(),
            None => {
                problems.push(("binding-missing/global".into(), "no binding for g_digest".into()));
                return String::new();
            }
        };
        // globals
        for (k, (sc, is_const)) in lib.globals.iter().enumerate() {
            let Some(g) = find_fn(inv, &format!("gv{k}")) else {
                problems.push(("binding-missing/global".into(), format!("no binding for gv{k}")));
                continue;
            };
            if g.mutable == *is_const {
                problems.push(("global-mutability".into(), format!("gv{k}: const = {is_const}, binding mutable = {}", g.mutable)));
            }
            let init = sc.rust_from(&format!("{}u64", 0x1234_5678_9abc_def0u64.wrapping_mul(k as u64 + 3)));
            let gname = crate::probe::raw_ident(&g.name);
            s.push_str(&format!("  {{ let want: {} = {init}; let got: {} = unsafe {{ {gname} }}; if {} != {} {{ bad += 1; println!(\"BAD global gv{k} read\"); }}\n", sc.rust(), sc.rust(), sc.rust_canon("want"), sc.rust_canon("got")));
            if !*is_const {
                if let Some(rd) = find_fn(inv, &format!("read_gv{k}")) {
                    let nv = sc.rust_from(&format!("{}u64", 0xfeed_face_cafe_beefu64.wrapping_add(k as u64)));
                    s.push_str(&format!("    let nv: {} = {nv}; unsafe {{ {gname} = nv; }} let back: {} = unsafe {{ {}() }}; if {} != {} {{ bad += 1; println!(\"BAD global gv{k} write\"); }}\n", sc.rust(), sc.rust(), crate::probe::raw_ident(&rd.name), sc.rust_canon("nv"), sc.rust_canon("back")));
                }
            }
            s.push_str("  }\n");
        }
        for (k, (sc, two_d, is_const)) in lib.garrays.iter().enumerate() {
            let Some(g) = find_fn(inv, &format!("ga{k}")) else {
                problems.push(("binding-missing/global".into(), format!("no binding for array ga{k}")));
                continue;
            };
            if g.mutable == *is_const {
                problems.push(("global-mutability".into(), format!("ga{k} ({}): const = {is_const}, binding mutable = {}", if *two_d { "two-dimensional array" } else { "array" }, g.mutable)));
            }
            let gname = crate::probe::raw_ident(&g.name);
            let n = if *two_d { 6 } else { 4 };
            for j in 0..n {
                let want = sc.rust_from(&format!("{}u64", 0x0123_4567_89ab_cdefu64.wrapping_mul((k * 7 + j + 1) as u64)));
                let idx = if *two_d { format!("[{}][{}]", j / 3, j % 3) } else { format!("[{j}]") };
                s.push_str(&format!("  {{ let want: {} = {want}; let got: {} = unsafe {{ {gname}{idx} }}; if {} != {} {{ bad += 1; println!(\"BAD global ga{k} element\"); }} }}\n", sc.rust(), sc.rust(), sc.rust_canon("want"), sc.rust_canon("got")));
            }
        }
        if lib.defined_global {
            match inv.items.iter().find(|i| i.name == "g_defined") {
                Some(i) if i.kind == "foreign_static" && i.mutable => {}
                Some(i) => problems.push(("global-mutability/defined-in-header".into(), format!("`int g_defined = 3;` is a mutable global; the bindings have {} `{}`", i.kind, i.text.chars().take(80).collect::<String>()))),
                None => problems.push(("binding-missing/global".into(), "no binding for g_defined".into())),
            }
        }
        // functions
        for (k, f) in lib.funcs.iter().enumerate() {
            if !only.contains(&k) {
                continue;
            }
            let cname = lib.fname(k);
            let Some(item) = find_fn(inv, &cname) else {
                problems.push(("binding-missing/function".into(), format!("no binding for function `{cname}`: {}", lib.proto(k))));
                continue;
            };
            if f.noreturn {
                // not called; the signature must at least be declared (divergence is only
                // detected when attribute detection is on)
                continue;
            }
            let rname = crate::probe::raw_ident(&item.name);
            for round in 0..3u64 {
                let mut st = seed ^ (k as u64).wrapping_mul(0x1000_0001) ^ (round << 56);
                s.push_str(&format!("  {{ // {cname} round {round}\n    let mut h: u64 = 1469598103934665603u64 ^ {k}u64;\n"));
                let mut args: Vec<String> = vec![];
                let mut post: Vec<String> = vec![];
                let mut first_const_int_ptr: Option<String> = None;
                for (i, p) in f.params.iter().enumerate() {
                    let a = format!("a{i}");
                    match p {
                        PTy::Sc(sc) | PTy::Typedef(sc) => {
                            let w = word(&mut st);
                            s.push_str(&format!("    let {a}: {} = {}; h = step(h, {});\n", sc.rust(), sc.rust_from(&format!("{w}u64")), sc.rust_canon(&a)));
                            args.push(a);
                        }
                        PTy::Enum => {
                            let w = word(&mut st);
                            let v = [0i64, 5, -2][(w % 3) as usize];
                            s.push_str(&format!("    let {a}: {enum_ty} = {v} as {enum_ty}; h = step(h, ({v}i64) as u64);\n"));
                            args.push(a);
                        }
                        PTy::Ptr(sc, is_const) => {
                            let w = word(&mut st);
                            s.push_str(&format!("    let mut {a}: {} = {}; h = step(h, {}); let {a}_before = {a};\n", sc.rust(), sc.rust_from(&format!("{w}u64")), sc.rust_canon(&a)));
                            if *is_const {
                                args.push(format!("&{a}"));
                                if *sc == Sc::Int && first_const_int_ptr.is_none() {
                                    first_const_int_ptr = Some(a.clone());
                                }
                            } else {
                                args.push(format!("&mut {a}"));
                                if *sc != Sc::Bool {
                                    let inc = match sc {
                                        Sc::Float => format!("{a}_before + 1.0f32"),
                                        Sc::Double => format!("{a}_before + 1.0f64"),
                                        _ => format!("{a}_before.wrapping_add(1)"),
                                    };
                                    post.push(format!("if {} != {} {{ bad += 1; println!(\"BAD {cname} round {round} side effect on pointee {i}\"); }}", sc.rust_canon(&a), sc.rust_canon(&format!("({inc})"))));
                                }
                            }
                        }
                        PTy::PtrVoid => {
                            let w = word(&mut st) & 0xff;
                            s.push_str(&format!("    let {a}: u8 = {w}; h = step(h, {a} as u64);\n"));
                            args.push(format!("&{a} as *const u8 as *const ::std::os::raw::c_void"));
                        }
                        PTy::PtrStruct(t, _) | PTy::Struct(t) => {
                            let t = *t as usize;
                            let tn = type_name(inv, &lib.sname(t), lib.structs[t].is_union);
                            s.push_str(&format!("    let mut {a}: {tn} = unsafe {{ ::std::mem::zeroed() }};\n"));
                            let leaves = lib.leaves(t);
                            for (path, sc) in &leaves {
                                let w = word(&mut st);
                                s.push_str(&format!("    {{ let v: {} = {}; h = step(h, {}); {a}{path} = v; }}\n", sc.rust(), sc.rust_from(&format!("{w}u64")), sc.rust_canon("v")));
                            }
                            match p {
                                PTy::Struct(_) => args.push(a.clone()),
                                PTy::PtrStruct(_, true) => args.push(format!("&{a}")),
                                _ => {
                                    if let Some((path, sc)) = leaves.first() {
                                        if *sc != Sc::Bool {
                                            s.push_str(&format!("    let {a}_before: {} = {}{a}{path}{};\n", sc.rust(), if lib.structs[t].is_union { "unsafe { " } else { "" }, if lib.structs[t].is_union { " }" } else { "" }));
                                            let inc = match sc {
                                                Sc::Float => format!("{a}_before + 1.0f32"),
                                                Sc::Double => format!("{a}_before + 1.0f64"),
                                                _ => format!("{a}_before.wrapping_add(1)"),
                                            };
                                            let read = if lib.structs[t].is_union { format!("unsafe {{ {a}{path} }}") } else { format!("{a}{path}") };
                                            post.push(format!("if {} != {} {{ bad += 1; println!(\"BAD {cname} round {round} side effect on struct {i}\"); }}", sc.rust_canon(&format!("({read})")), sc.rust_canon(&format!("({inc})"))));
                                        }
                                    }
                                    args.push(format!("&mut {a}"));
                                }
                            }
                        }
                        PTy::ArrayParam(sc, len) => {
                            s.push_str(&format!("    let mut {a}: [{}; {len}] = unsafe {{ ::std::mem::zeroed() }};\n", sc.rust()));
                            for j in 0..*len {
                                let w = word(&mut st);
                                s.push_str(&format!("    {a}[{j}] = {}; h = step(h, {});\n", sc.rust_from(&format!("{w}u64")), sc.rust_canon(&format!("{a}[{j}]"))));
                            }
                            args.push(format!("{a}.as_mut_ptr()"));
                        }
                        PTy::CallbackFactory => {
                            s.push_str("    h = step(h, (the_cb((h & 0xffff) as ::std::os::raw::c_int, 2.5) as i64) as u64);\n");
                            args.push("Some(the_factory)".into());
                        }
                        PTy::ConstArrayTypedef(sc, len) => {
                            // the binding must take a pointer to const: an immutable array's `as_ptr()` is all the caller has
                            s.push_str(&format!("    let mut {a}: [{}; {len}] = unsafe {{ ::std::mem::zeroed() }};\n", sc.rust()));
                            for j in 0..*len {
                                let w = word(&mut st);
                                s.push_str(&format!("    {a}[{j}] = {}; h = step(h, {});\n", sc.rust_from(&format!("{w}u64")), sc.rust_canon(&format!("{a}[{j}]"))));
                            }
                            s.push_str(&format!("    let {a} = {a};\n"));
                            args.push(format!("{a}.as_ptr()"));
                        }
                        PTy::Array2D(sc, d0, d1) => {
                            s.push_str(&format!("    let mut {a}: [[{}; {d1}]; {d0}] = unsafe {{ ::std::mem::zeroed() }};\n", sc.rust()));
                            for i in 0..*d0 {
                                for j in 0..*d1 {
                                    let w = word(&mut st);
                                    s.push_str(&format!("    {a}[{i}][{j}] = {}; h = step(h, {});\n", sc.rust_from(&format!("{w}u64")), sc.rust_canon(&format!("{a}[{i}][{j}]"))));
                                }
                            }
                            args.push(format!("{a}.as_mut_ptr()"));
                        }
                        PTy::PtrToArray(sc, len) => {
                            s.push_str(&format!("    let mut {a}: [{}; {len}] = unsafe {{ ::std::mem::zeroed() }};\n", sc.rust()));
                            for j in 0..*len {
                                let w = word(&mut st);
                                s.push_str(&format!("    {a}[{j}] = {}; h = step(h, {});\n", sc.rust_from(&format!("{w}u64")), sc.rust_canon(&format!("{a}[{j}]"))));
                            }
                            args.push(format!("&mut {a}"));
                        }
                        PTy::CallbackArray(k) => {
                            s.push_str(&format!("    let mut {a}: [Option<CbT>; {k}] = [Some(the_cb_u as CbT); {k}];\n"));
                            for _ in 0..*k {
                                s.push_str("    h = step(h, (the_cb((h & 0xffff) as ::std::os::raw::c_int, 2.5) as i64) as u64);\n");
                            }
                            args.push(format!("{a}.as_mut_ptr()"));
                        }
                        PTy::Callback | PTy::CallbackTypedef | PTy::ConstCallback => {
                            let pass_none = word(&mut st) % 4 == 0;
                            if pass_none {
                                s.push_str("    h = step(h, 99u64);\n");
                                args.push("None".into());
                            } else {
                                s.push_str("    h = step(h, (the_cb((h & 0xffff) as ::std::os::raw::c_int, 2.5) as i64) as u64);\n");
                                args.push("Some(the_cb)".into());
                            }
                        }
                    }
                }
                if let Some(nv) = f.variadic {
                    for j in 0..nv {
                        let w = word(&mut st);
                        match j % 3 {
                            0 => {
                                s.push_str(&format!("    let v{j}: ::std::os::raw::c_int = {w}u64 as ::std::os::raw::c_int; h = step(h, (v{j} as i64) as u64);\n"));
                            }
                            1 => {
                                s.push_str(&format!("    let v{j}: f64 = ({w}u64 % 1000000007u64) as f64 / 8.0; h = step(h, v{j}.to_bits());\n"));
                            }
                            _ => {
                                s.push_str(&format!("    let v{j}: ::std::os::raw::c_longlong = {w}u64 as ::std::os::raw::c_longlong; h = step(h, v{j} as u64);\n"));
                            }
                        }
                        args.push(format!("v{j}"));
                    }
                }
                // struct arguments by value are moved: pass a copy made through ptr::read
                let call_args: Vec<String> = args
                    .iter()
                    .enumerate()
                    .map(|(i, a)| match f.params.get(i) {
                        Some(PTy::Struct(_)) => format!("unsafe {{ ::std::ptr::read(&{a}) }}"),
                        _ => a.clone(),
                    })
                    .collect();
                s.push_str(&format!("    let r = unsafe {{ {rname}({}) }};\n", call_args.join(", ")));
                s.push_str(&format!("    if unsafe {{ {digest}[{k}] }} != h {{ bad += 1; println!(\"BAD {cname} round {round} arguments (digest)\"); }}\n"));
                for p in &post {
                    s.push_str(&format!("    {p}\n"));
                }
                match &f.ret {
                    RTy::Void => {}
                    RTy::Sc(sc) => s.push_str(&format!("    {{ let want: {} = {}; let got: {} = r; if {} != {} {{ bad += 1; println!(\"BAD {cname} round {round} return value\"); }} }}\n", sc.rust(), sc.rust_from("h"), sc.rust(), sc.rust_canon("want"), sc.rust_canon("got"))),
                    RTy::Enum => s.push_str(&format!("    {{ let want: i64 = if h & 1 == 1 {{ 5 }} else {{ -2 }}; if (r as i64) != want && (r as u32 as i32 as i64) != want {{ bad += 1; println!(\"BAD {cname} round {round} return value\"); }} }}\n")),
                    RTy::FnPtr => s.push_str(&format!("    {{ let want: ::std::os::raw::c_int = if h & 1 == 1 {{ 9 * 5 + 2 }} else {{ 9 * 7 - 2 }}; let got = unsafe {{ (r.expect(\"returned callback\"))(9, 2.5) }}; if got != want {{ bad += 1; println!(\"BAD {cname} round {round} returned callback\"); }} }}\n")),
                    RTy::Ptr => match &first_const_int_ptr {
                        Some(a) => s.push_str(&format!("    if r != (&{a} as *const ::std::os::raw::c_int) {{ bad += 1; println!(\"BAD {cname} round {round} returned pointer\"); }}\n")),
                        None => s.push_str(&format!("    if r.is_null() || unsafe {{ *r }} != 77 {{ bad += 1; println!(\"BAD {cname} round {round} returned pointer\"); }}\n")),
                    },
                    RTy::Struct(t) => {
                        let t = *t as usize;
                        for (j, (path, sc)) in lib.leaves(t).iter().enumerate() {
                            let read = if lib.structs[t].is_union { format!("unsafe {{ r{path} }}") } else { format!("r{path}") };
                            s.push_str(&format!("    {{ let want: {} = {}; let got: {} = {read}; if {} != {} {{ bad += 1; println!(\"BAD {cname} round {round} returned struct member {j}\"); }} }}\n", sc.rust(), sc.rust_from(&format!("h.wrapping_add({j}u64.wrapping_mul(0x9E3779B97F4A7C15u64))")), sc.rust(), sc.rust_canon("want"), sc.rust_canon("got")));
                        }
                    }
                }
                s.push_str("  }\n");
            }
        }
        s.push_str("  println!(\"DONE {}\", bad);\n}\n");
        s
    }
}

impl Property for C04 {
    type Case = Case;
    fn id(&self) -> &'static str {
        "C04"
    }
    fn rule(&self) -> String {
        "generated C libraries of 1..15 functions and 0..4 globals: parameters and returns over all 14 scalar types, typedef'd scalars, an enum, pointers to const/non-const scalars and structs, void pointers, array parameters, structs and unions by value (1..6 members incl. arrays and nested structs: sizes 1..~100 bytes on both sides of the register/memory classification), callbacks, variadic tails (int/double/long long), noreturn functions; functions named after Rust keywords; keyword parameter names; 0..2 options from merge-extern-blocks, sort-semantically, c-naming, override-abi C-unwind, wrap-unsafe-ops, rust target 1.64, attribute detection; renaming callback for functions and variables. Every function is called 3 times with boundary/random values; digest slot, return value, returned struct members, returned pointer and pointee side effects are compared; globals are read, written and read back through C. Non-trivial = a function with a by-value aggregate or more than 6 scalar parameters whose three rounds were all compared; distinct by (prototype, flags)".into()
    }
    fn assumptions(&self) -> Vec<String> {
        vec![
            "host target (SysV x86-64) only: the Mach-O/Win32 symbol-name text checks of the quantifier are not built".into(),
            "C only (methods, constructors and destructors are C++; their symbols are not exercised)".into(),
            "noreturn functions are declared and linked but not called".into(),
        ]
    }
    fn strategy(&self, _tier: Tier) -> BoxedStrategy<Case> {
        let flags = proptest::collection::vec(0..FLAG_GROUPS.len(), 0..3).prop_map(|idx| {
            let mut f: Vec<String> = vec![];
            let mut seen = BTreeSet::new();
            for i in idx {
                if seen.insert(FLAG_GROUPS[i][0]) {
                    f.extend(FLAG_GROUPS[i].iter().map(|s| s.to_string()));
                }
            }
            f
        });
        let cbs = prop_oneof![4 => Just(vec![]), 1 => Just(vec!["fnvar:prefix".to_string()]), 1 => Just(vec!["fnvar:suffix".to_string()])];
        (lib_strategy(), flags, cbs, any::<u64>()).prop_map(|(lib, flags, callbacks, seed)| Case { lib, flags, callbacks, seed }).boxed()
    }
    fn generated(&self, tier: Tier) -> usize {
        tier.pick(1000, 20000)
    }
    fn shrink_steps(&self) -> usize {
        60
    }
    fn max_shrunk_signatures(&self) -> usize {
        4
    }
    fn evaluate(&self, case: &Case, env: &Env) -> Outcome {
        let mut out = Outcome::new();
        out.evaluations = 0;
        let mut lib = case.lib.clone();
        lib.normalise();
        let header = lib.header();
        std::fs::write(env.dir.join("lib.h"), &header).ok();
        std::fs::write(env.dir.join("lib.c"), lib.c_source()).ok();
        match tools::clang_compile(&env.dir, "lib.c", "lib.o", &["-c".into(), "-O1".into(), "-std=gnu11".into(), "-w".into()]) {
            Ok(o) if o.ok() => {}
            Ok(o) => return out.inconclusive(format!("clang rejects the generated library: {}\n{header}", o.stderr.chars().take(800).collect::<String>())),
            Err(e) => return out.inconclusive(e),
        }
        let mut flags: Vec<String> = vec!["--no-include-path-detection".into(), "--formatter=none".into()];
        flags.extend(case.flags.iter().cloned());
        // C-unwind does not exist at Rust 1.64 (bindgen then leaves such functions out: C14's subject)
        // overriding the ABI of a function that has its own calling convention is the user's mistake
        if lib.funcs.iter().any(|f| f.ms_abi) {
            if let Some(p) = flags.iter().position(|f| f == "--override-abi") {
                flags.drain(p..p + 2);
            }
        }
        let unwind = flags.iter().any(|f| f == "--override-abi");
        if unwind {
            if let Some(p) = flags.iter().position(|f| f == "--rust-target") {
                flags.drain(p..p + 2);
            }
        }
        let input = BgInput { files: vec![], headers: vec!["lib.h".into()], flags: flags.clone(), clang_args: vec!["-std=gnu11".into()], callbacks: case.callbacks.clone() };
        let ctx = |what: &str| format!("{what}\nflags {:?} callbacks {:?}\n--- header ---\n{header}", case.flags, case.callbacks);
        let text = match bg::generate(&input, &env.dir) {
            BgResult::Ok(t) => t,
            other => {
                out.fail("generation-failed", ctx(&other.describe()));
                return out;
            }
        };
        out.evaluations += 1;
        let inv = match rs::inventory(&text) {
            Ok(i) => i,
            Err(e) => {
                out.fail("bindings-unparseable", ctx(&e));
                return out;
            }
        };
        std::fs::write(env.dir.join("b.rs"), &text).ok();
        let mut problems = vec![];
        let src = self.caller(&lib, &inv, case.seed, if unwind { "C-unwind" } else { "C" }, &mut problems);
        for (sig, msg) in &problems {
            out.fail(sig.clone(), ctx(msg));
        }
        if src.is_empty() {
            return out;
        }
        std::fs::write(env.dir.join("caller.rs"), &src).ok();
        // every declared symbol must be defined by the library
        if let Ok(defined) = tools::nm_defined(&env.dir, "lib.o") {
            for it in inv.items.iter().filter(|i| i.kind == "foreign_fn" || i.kind == "foreign_static") {
                let ln = it.attrs.iter().find_map(|a| {
                    let a = a.replace(' ', "");
                    a.find("link_name=\"").map(|p| a[p + 11..].trim_end_matches("\"]").trim_start_matches("\\u{1}").to_string())
                });
                let sym = ln.unwrap_or_else(|| it.name.clone());
                if !defined.iter().any(|d| *d == sym) {
                    out.fail("symbol/undefined", ctx(&format!("binding `{}` refers to symbol `{sym}`, which the library does not define (defined: {:?})", it.name, defined.iter().take(40).collect::<Vec<_>>())));
                }
            }
        }
        let nightly = false;
        let o = match (tools::Rustc { dir: &env.dir, edition: "2021", nightly }).build_exe("caller.rs", "caller.exe", &["lib.o".to_string()], false) {
            Ok(o) => o,
            Err(e) => return out.inconclusive(format!("rustc: {e}")),
        };
        if !o.ok() {
            let (code, class) = crate::props::c01::error_class(&o.stderr);
            out.fail(format!("caller-does-not-build/{code}/{class}"), ctx(&o.stderr.chars().take(1800).collect::<String>()));
            return out;
        }
        let run = match tools::run_exe(&env.dir, "caller.exe", &[], 60) {
            Ok(r) => r,
            Err(e) => return out.inconclusive(format!("caller: {e}")),
        };
        if !run.stdout.contains("DONE ") {
            out.fail("caller-crashed", ctx(&format!("status {:?} signal {:?}\n{}", run.status, run.signal, run.stdout.lines().rev().take(5).collect::<Vec<_>>().join("\n"))));
            return out;
        }
        for l in run.stdout.lines().filter(|l| l.starts_with("BAD ")) {
            // BAD <fn> round <r> <what...>
            let w: Vec<&str> = l.split_whitespace().collect();
            let what = if w.get(1) == Some(&"global") { format!("global/{}", w.last().unwrap_or(&"")) } else { w[4..].join("-") };
            let fname = w.get(1).copied().unwrap_or("");
            let k = (0..lib.funcs.len()).find(|k| lib.fname(*k) == fname);
            let class = match k {
                Some(k) => {
                    let f = &lib.funcs[k];
                    if f.variadic.is_some() {
                        "variadic"
                    } else if f.params.iter().any(|p| matches!(p, PTy::Struct(_))) || matches!(f.ret, RTy::Struct(_)) {
                        "aggregate-by-value"
                    } else {
                        "scalars-and-pointers"
                    }
                }
                None => "global",
            };
            out.fail(format!("call-mismatch/{what}/{class}"), ctx(&format!("{l}{}", k.map(|k| format!("\n  prototype: {}", lib.proto(k))).unwrap_or_default())));
        }
        out.evaluations += lib.funcs.len() * 3;
        for (k, f) in lib.funcs.iter().enumerate() {
            let agg = f.params.iter().any(|p| matches!(p, PTy::Struct(_))) || matches!(f.ret, RTy::Struct(_));
            if agg {
                out.class("fn:aggregate-by-value");
            }
            if f.variadic.is_some() {
                out.class("fn:variadic");
            }
            if f.awkward_name.is_some() {
                out.class("fn:keyword-name");
            }
            if f.params.iter().any(|p| matches!(p, PTy::Callback | PTy::CallbackFactory | PTy::CallbackTypedef | PTy::CallbackArray(_) | PTy::ConstCallback)) {
                out.class("fn:callback");
            }
            if f.params.iter().any(|p| matches!(p, PTy::Array2D(..) | PTy::PtrToArray(..) | PTy::CallbackArray(_))) {
                out.class("fn:array-shaped-parameter");
            }
            if agg || f.params.len() > 6 {
                out.nontrivial(format!("{:x}", fnv(&format!("{}{:?}", lib.proto(k), case.flags))));
            }
        }
        out.sample = Some(json!({"header": header, "flags": case.flags, "callbacks": case.callbacks}));
        out
    }
}
