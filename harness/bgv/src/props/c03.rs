//! C03 — bit-field getters, setters and constructors agree bit for bit with C.
//! (a) exhaustive arithmetic sweep of `__BindgenBitfieldUnit` against a bit-vector model
//!     (harness/bfsweep, which `include!`s the text bindgen pastes into bindings);
//! (b) generated structs: a clang-compiled C program and a rustc-compiled Rust program (over the
//!     bindings) run the same test vectors — stores through C assignments vs generated setters,
//!     loads through C reads vs generated getters, constructors vs field-by-field assignment —
//!     and their transcripts must be identical.

use crate::bg::{self, BgInput, BgResult};
use crate::cmodel::*;
use crate::engine::{fnv, Env, Outcome, Property, Tier};
use crate::probe::raw_ident;
use crate::rs;
use crate::tools;
use proptest::prelude::*;
use serde::{Deserialize, Serialize};
use serde_json::{json, Value};
use std::collections::BTreeMap;

pub struct C03;

#[derive(Clone, Debug, Serialize, Deserialize)]
pub enum Case {
    /// part (a)
    Sweep,
    /// part (b)
    Structs {
        prog: Program,
        flags: Vec<String>,
        /// replay of a known finding: keep known classes
        #[serde(default)]
        keep_known: bool,
    },
}

fn bf_comp_strategy(idx: usize) -> BoxedStrategy<Comp> {
    let bf_prims: Vec<Prim> = vec![Prim::Bool, Prim::Char, Prim::SChar, Prim::UChar, Prim::Short, Prim::UShort, Prim::Int, Prim::UInt, Prim::Long, Prim::ULong, Prim::LongLong, Prim::ULongLong];
    let plain_prims: Vec<Prim> = vec![Prim::Char, Prim::UChar, Prim::Short, Prim::Int, Prim::Long, Prim::Double, Prim::Bool];
    let bp = bf_prims.clone();
    let named_bf = (0..bp.len(), prop_oneof![6 => (1u8..=64), 1 => Just(64u8), 1 => Just(1u8), 1 => Just(8u8), 1 => Just(32u8), 1 => Just(33u8)]).prop_map(move |(p, bits)| (bp[p], Some(bits), true));
    let bp2 = bf_prims.clone();
    let unnamed_bf = (0..bp2.len(), prop_oneof![2 => Just(0u8), 3 => (1u8..=32)]).prop_map(move |(p, bits)| (bp2[p], Some(bits), false));
    let pp = plain_prims.clone();
    let plain = (0..pp.len()).prop_map(move |p| (pp[p], None, true));
    let field = prop_oneof![10 => named_bf, 2 => unnamed_bf, 3 => plain];
    (
        proptest::collection::vec(field, 1..13),
        proptest::bool::weighted(0.2),
        prop_oneof![8 => Just(None), 1 => prop_oneof![Just(1u8), Just(2), Just(4), Just(8)].prop_map(Some)],
        prop_oneof![8 => Just(None), 1 => prop_oneof![Just(2u32), Just(4), Just(8), Just(16)].prop_map(Some)],
        0u32..1000,
        proptest::bool::weighted(0.15),
    )
        .prop_map(move |(fields, packed, pragma_pack, aligned, salt, is_union)| {
            let fields = fields
                .into_iter()
                .enumerate()
                .map(|(k, (prim, bits, named))| Field { name: if named { format!("f{k}") } else { String::new() }, ty: FieldTy::Ty(Ty::Prim(prim)), bits, align: None })
                .collect();
            // (in a union every bit-field starts at bit 0 of its own allocation unit)
            Comp { is_union, tag: Some(format!("B{idx}_{salt}")), fields, packed: packed && !is_union, aligned: if is_union { None } else { aligned }, pragma_pack: if is_union { None } else { pragma_pack }, typedef_name: None }
        })
        .boxed()
}

/// Systematic family the random generator reaches only rarely: a plain member, then a
/// bit-field run that is opened by an unnamed field (a `:0` separator or `:k` padding) or
/// directly by a named one, under every packing mode. Six structs per case.
fn motif_grid() -> Vec<Case> {
    let plains = [Prim::Char, Prim::Short, Prim::Int];
    let seps: [(Prim, Option<u8>); 9] = [
        (Prim::Char, Some(0)),
        (Prim::Short, Some(0)),
        (Prim::UInt, Some(0)),
        (Prim::ULong, Some(0)),
        (Prim::UInt, Some(3)),
        (Prim::UInt, Some(4)),
        (Prim::UChar, Some(7)),
        (Prim::ULongLong, Some(11)),
        (Prim::UInt, None),
    ];
    let runs: [&[(Prim, u8)]; 4] = [&[(Prim::UInt, 3), (Prim::UInt, 7)], &[(Prim::UChar, 4), (Prim::UShort, 9)], &[(Prim::ULongLong, 33), (Prim::Int, 5)], &[(Prim::Bool, 1), (Prim::Short, 13)]];
    let packings: [(bool, Option<u8>); 4] = [(false, None), (true, None), (false, Some(1)), (false, Some(2))];
    let mut comps = vec![];
    for (pi, plain) in plains.iter().enumerate() {
        for (si, (sp, sbits)) in seps.iter().enumerate() {
            for (ri, run) in runs.iter().enumerate() {
                for (ki, (packed, pragma)) in packings.iter().enumerate() {
                    let mut fields = vec![Field { name: "c".into(), ty: FieldTy::Ty(Ty::Prim(*plain)), bits: None, align: None }];
                    if let Some(b) = sbits {
                        fields.push(Field { name: String::new(), ty: FieldTy::Ty(Ty::Prim(*sp)), bits: Some(*b), align: None });
                    }
                    for (k, (p, w)) in run.iter().enumerate() {
                        fields.push(Field { name: format!("f{k}"), ty: FieldTy::Ty(Ty::Prim(*p)), bits: Some(*w), align: None });
                    }
                    fields.push(Field { name: "t".into(), ty: FieldTy::Ty(Ty::Prim(Prim::Char)), bits: None, align: None });
                    comps.push(Comp { is_union: false, tag: Some(format!("M{pi}_{si}_{ri}_{ki}")), fields, packed: *packed, aligned: None, pragma_pack: *pragma, typedef_name: None });
                }
            }
        }
    }
    comps
        .chunks(6)
        .map(|ch| {
            let mut prog = Program { decls: ch.iter().cloned().map(Decl::Comp).collect() };
            prog.normalise();
            Case::Structs { prog, flags: vec![], keep_known: false }
        })
        .collect()
}

fn prog_strategy() -> BoxedStrategy<Program> {
    (1usize..4)
        .prop_flat_map(|n| (0..n).map(bf_comp_strategy).collect::<Vec<_>>())
        .prop_map(|comps| {
            let mut p = Program { decls: comps.into_iter().map(Decl::Comp).collect() };
            p.normalise();
            p
        })
        .boxed()
}

struct BfField {
    name: String,
    prim: Prim,
    bits: u32,
}

fn named_bitfields(c: &Comp) -> Vec<BfField> {
    c.fields
        .iter()
        .filter_map(|f| match (&f.ty, f.bits) {
            (FieldTy::Ty(Ty::Prim(p)), Some(b)) if !f.name.is_empty() && b > 0 => Some(BfField { name: f.name.clone(), prim: *p, bits: b as u32 }),
            _ => None,
        })
        .collect()
}

fn is_signed(p: Prim) -> bool {
    matches!(p, Prim::Char | Prim::SChar | Prim::Short | Prim::Int | Prim::Long | Prim::LongLong)
}

fn test_values(w: u32) -> Vec<u64> {
    let ones = if w >= 64 { u64::MAX } else { (1u64 << w) - 1 };
    let mut v = vec![0, 1, ones, 1u64 << (w - 1).min(63), u64::MAX, 0xAAAA_AAAA_AAAA_AAAA, 0x5555_5555_5555_5555, 0x0123_4567_89AB_CDEF];
    v.dedup();
    v
}

const PATTERNS: usize = 3;
fn pattern_byte(j: usize, k: usize) -> u8 {
    match j {
        0 => 0x00,
        1 => 0xFF,
        _ => ((k * 37 + 11) ^ (k >> 3) * 101 ^ 0x5A) as u8,
    }
}

/// C program: prints the transcript.
fn c_program(p: &Program) -> String {
    let mut s = String::from("#include \"in.h\"\n#include <stdio.h>\n#include <string.h>\n#include <stddef.h>\n");
    s.push_str("static void dump(const void *p, size_t n) { const unsigned char *b = p; for (size_t i = 0; i < n; i++) printf(\"%02x\", b[i]); printf(\"\\n\"); }\n");
    s.push_str("static unsigned char pat(int j, size_t k) { return j == 0 ? 0x00 : j == 1 ? 0xFF : (unsigned char)(((k * 37 + 11) ^ ((k >> 3) * 101) ^ 0x5A)); }\n");
    s.push_str("int main(void) {\n");
    for (i, d) in p.decls.iter().enumerate() {
        let Decl::Comp(c) = d else { continue };
        let t = c.c_use();
        let fields = named_bitfields(c);
        if fields.is_empty() {
            continue;
        }
        s.push_str(&format!("  {{ {t} obj; unsigned char *raw = (unsigned char *)&obj;\n"));
        s.push_str(&format!("  printf(\"T{i} size %zu\\n\", sizeof obj);\n"));
        for j in 0..PATTERNS {
            for f in &fields {
                // get from the raw pattern
                s.push_str(&format!("  for (size_t k = 0; k < sizeof obj; k++) raw[k] = pat({j}, k);\n"));
                if is_signed(f.prim) {
                    s.push_str(&format!("  printf(\"T{i} p{j} get {} %lld\\n\", (long long)obj.{});\n", f.name, f.name));
                } else {
                    s.push_str(&format!("  printf(\"T{i} p{j} get {} %llu\\n\", (unsigned long long)obj.{});\n", f.name, f.name));
                }
                for (vi, v) in test_values(f.bits).iter().enumerate() {
                    s.push_str(&format!("  for (size_t k = 0; k < sizeof obj; k++) raw[k] = pat({j}, k);\n"));
                    let cast = if f.prim == Prim::Bool { format!("(_Bool)({v}ULL != 0)") } else { format!("({})({v}ULL)", f.prim.c()) };
                    s.push_str(&format!("  obj.{} = {cast};\n", f.name));
                    s.push_str(&format!("  printf(\"T{i} p{j} set {} v{vi} \"); dump(&obj, sizeof obj);\n", f.name));
                }
            }
        }
        // constructor: zeroed object, every field assigned an extreme (members of a union overlap:
        // there is no whole-object constructor to compare)
        let k = fields.len().min(6);
        for mask in 0..(if c.is_union { 0 } else { 1u32 << k }) {
            s.push_str("  memset(&obj, 0, sizeof obj);\n");
            for (fi, f) in fields.iter().enumerate() {
                let on = fi < k && (mask >> fi) & 1 == 1;
                let v: u64 = if on { u64::MAX } else { 0 };
                let cast = if f.prim == Prim::Bool { format!("(_Bool)({v}ULL != 0)") } else { format!("({})({v}ULL)", f.prim.c()) };
                s.push_str(&format!("  obj.{} = {cast};\n", f.name));
            }
            s.push_str(&format!("  printf(\"T{i} ctor m{mask} \"); dump(&obj, sizeof obj);\n"));
        }
        s.push_str("  }\n");
    }
    s.push_str("  return 0;\n}\n");
    s
}

fn rust_int(p: Prim) -> &'static str {
    match p {
        Prim::Bool => "bool",
        Prim::Char => "::std::os::raw::c_char",
        Prim::SChar => "::std::os::raw::c_schar",
        Prim::UChar => "::std::os::raw::c_uchar",
        Prim::Short => "::std::os::raw::c_short",
        Prim::UShort => "::std::os::raw::c_ushort",
        Prim::Int => "::std::os::raw::c_int",
        Prim::UInt => "::std::os::raw::c_uint",
        Prim::Long => "::std::os::raw::c_long",
        Prim::ULong => "::std::os::raw::c_ulong",
        Prim::LongLong => "::std::os::raw::c_longlong",
        Prim::ULongLong => "::std::os::raw::c_ulonglong",
        _ => "i32",
    }
}

fn val_expr(p: Prim, v: u64) -> String {
    if p == Prim::Bool {
        format!("({v}u64 != 0)")
    } else {
        format!("({v}u64 as {})", rust_int(p))
    }
}

struct RustPlan {
    src: String,
    /// per type index: (unit field name, ctor name, arg field names)
    problems: Vec<(String, String)>,
}

/// Rust program over the bindings printing the same transcript. Constructor results are laid
/// over a zeroed object at the unit's offset.
fn rust_program(p: &Program, bindings_file: &str, text: &str) -> RustPlan {
    let inv = match rs::inventory(text) {
        Ok(i) => i,
        Err(e) => return RustPlan { src: String::new(), problems: vec![("bindings-unparseable".into(), e)] },
    };
    let mut problems = vec![];
    let mut s = String::from("#![allow(warnings)]\n");
    s.push_str(&format!("include!(\"{bindings_file}\");\n"));
    s.push_str("fn dump<T>(o: &T) { let n = ::std::mem::size_of::<T>(); let b = unsafe { ::std::slice::from_raw_parts(o as *const T as *const u8, n) }; let mut s = String::new(); for x in b { s.push_str(&format!(\"{:02x}\", x)); } println!(\"{}\", s); }\n");
    s.push_str("fn pat(j: usize, k: usize) -> u8 { match j { 0 => 0x00, 1 => 0xFF, _ => ((k * 37 + 11) ^ ((k >> 3) * 101) ^ 0x5A) as u8 } }\n");
    s.push_str("fn fill<T>(o: &mut T, j: usize) { let n = ::std::mem::size_of::<T>(); let b = unsafe { ::std::slice::from_raw_parts_mut(o as *mut T as *mut u8, n) }; for k in 0..n { b[k] = pat(j, k); } }\n");
    s.push_str("fn main() {\n");
    // ctor signatures: `pub fn new_bitfield_N ( a : T , b : T ) -> __BindgenBitfieldUnit < [ u8 ; K ] >`
    let flat = rs::flat_tokens(text).join(" ");
    for (i, d) in p.decls.iter().enumerate() {
        let Decl::Comp(c) = d else { continue };
        let fields = named_bitfields(c);
        if fields.is_empty() {
            continue;
        }
        let name = d.rust_name().unwrap();
        let Some(item) = inv.items.iter().find(|x| (x.kind == "struct" || x.kind == "union") && x.name == name) else {
            problems.push(("rust-type-missing".into(), format!("no struct `{name}`")));
            continue;
        };
        if item.fields.iter().any(|f| f.name == "_bindgen_opaque_blob") {
            // documented fallback: no accessors are exposed; nothing to compare
            s.push_str(&format!("  println!(\"T{i} opaque\");\n"));
            continue;
        }
        // the impl block of this type: accessor names
        let methods: Vec<String> = inv.items.iter().filter(|x| x.kind == "impl" && x.impl_trait.is_empty() && x.impl_self == name).flat_map(|x| x.methods.clone()).collect();
        s.push_str(&format!("  {{ let mut obj: {name} = unsafe {{ ::std::mem::zeroed() }};\n"));
        s.push_str(&format!("  println!(\"T{i} size {{}}\", ::std::mem::size_of::<{name}>());\n"));
        for j in 0..PATTERNS {
            for f in &fields {
                let getter = if methods.contains(&f.name) { f.name.clone() } else { format!("{}_", f.name) };
                if !methods.contains(&getter) {
                    problems.push(("accessor-missing".into(), format!("`{name}` has no getter for bit-field `{}` (methods: {methods:?})", f.name)));
                    continue;
                }
                let g = raw_ident(&getter);
                let as_num = if f.prim == Prim::Bool { " as u8".to_string() } else if is_signed(f.prim) { " as i64".to_string() } else { " as u64".to_string() };
                s.push_str(&format!("  fill(&mut obj, {j});\n"));
                s.push_str(&format!("  println!(\"T{i} p{j} get {} {{}}\", obj.{g}(){as_num});\n", f.name));
                // raw getter must agree with the safe one
                s.push_str(&format!("  {{ let r = unsafe {{ {name}::{getter}_raw(&obj as *const {name}) }}{as_num}; let g = obj.{g}(){as_num}; if r != g {{ println!(\"T{i} p{j} RAWGET-DIFFERS {} {{}} {{}}\", r, g); }} }}\n", f.name));
                for (vi, v) in test_values(f.bits).iter().enumerate() {
                    let ve = val_expr(f.prim, *v);
                    s.push_str(&format!("  fill(&mut obj, {j}); obj.set_{getter}({ve});\n"));
                    s.push_str(&format!("  print!(\"T{i} p{j} set {} v{vi} \"); dump(&obj);\n", f.name));
                    // raw setter: same bytes
                    s.push_str(&format!("  {{ let mut o2: {name} = unsafe {{ ::std::mem::zeroed() }}; fill(&mut o2, {j}); unsafe {{ {name}::set_{getter}_raw(&mut o2 as *mut {name}, {ve}) }}; let a = unsafe {{ ::std::slice::from_raw_parts(&obj as *const {name} as *const u8, ::std::mem::size_of::<{name}>()) }}; let b = unsafe {{ ::std::slice::from_raw_parts(&o2 as *const {name} as *const u8, ::std::mem::size_of::<{name}>()) }}; if a != b {{ println!(\"T{i} p{j} RAWSET-DIFFERS {} v{vi}\"); }} }}\n", f.name));
                }
            }
        }
        // constructors
        let units: Vec<&crate::rs::Field> = item.fields.iter().filter(|f| f.name.starts_with("_bitfield_") && !f.name.starts_with("_bitfield_align")).collect();
        let k = fields.len().min(6);
        let mut no_ctor = false;
        let ctor_start = s.len();
        for mask in 0..(if c.is_union { 0 } else { 1u32 << k }) {
            s.push_str(&format!("  {{ let mut o: {name} = unsafe {{ ::std::mem::zeroed() }};\n"));
            for u in &units {
                let n = u.name.trim_start_matches("_bitfield_");
                let ctor = format!("new_bitfield_{n}");
                // parameter names from the flattened text
                let pat = format!("pub fn {ctor} ( ");
                let mut args: Vec<String> = vec![];
                // find the ctor belonging to this impl: search after `impl <name> {`
                let impl_text: String = inv.items.iter().filter(|x| x.kind == "impl" && x.impl_trait.is_empty() && x.impl_self == name).map(|x| x.text.clone()).collect::<Vec<_>>().join(" ");
                let _ = &flat;
                if let (true, Some(pos)) = (methods.contains(&ctor), impl_text.find(&pat)) {
                    let rest = &impl_text[pos + pat.len()..];
                    let end = rest.find(") ->").unwrap_or(0);
                    for part in rest[..end].split(" , ") {
                        let pn = part.split(" : ").next().unwrap_or("").trim();
                        if !pn.is_empty() {
                            args.push(pn.to_string());
                        }
                    }
                } else {
                    // no constructor is generated for units above 32 bytes (documented in the code)
                    args.clear();
                    no_ctor = true;
                    continue;
                }
                let mut exprs = vec![];
                for a in &args {
                    let a_plain = a.trim_start_matches("r#");
                    let fi = fields.iter().position(|f| f.name == a_plain || format!("{}_", f.name) == a_plain);
                    match fi {
                        Some(fi) => {
                            let on = fi < k && (mask >> fi) & 1 == 1;
                            exprs.push(val_expr(fields[fi].prim, if on { u64::MAX } else { 0 }));
                        }
                        None => {
                            problems.push(("ctor-arg-unknown".into(), format!("`{name}::{ctor}` parameter `{a}` is not a bit-field of the C struct")));
                            exprs.push("0 as _".into());
                        }
                    }
                }
                s.push_str(&format!("    o.{} = {name}::{ctor}({});\n", u.name, exprs.join(", ")));
            }
            s.push_str(&format!("    print!(\"T{i} ctor m{mask} \"); dump(&o); }}\n"));
        }
        if no_ctor {
            s.truncate(ctor_start);
            s.push_str(&format!("  println!(\"T{i} noctor\");\n"));
        }
        s.push_str("  }\n");
    }
    s.push_str("}\n");
    RustPlan { src: s, problems }
}

/// Feature class of the first difference, for signatures.
fn struct_class(c: &Comp) -> String {
    let mut v: Vec<&str> = vec![];
    if c.packed {
        v.push("packed");
    }
    if c.pragma_pack.is_some() {
        v.push("pragma-pack");
    }
    if c.aligned.is_some() {
        v.push("aligned");
    }
    if c.is_union {
        v.push("union");
    }
    for (k, f) in c.fields.iter().enumerate() {
        if f.bits == Some(0) {
            let prev_bf = k > 0 && c.fields[k - 1].bits.is_some();
            v.push(if prev_bf { "zero-width-in-run" } else { "zero-width-opens-run" });
        }
        if let (Some(b), FieldTy::Ty(Ty::Prim(p))) = (f.bits, &f.ty) {
            if b as u32 == 64 {
                v.push("width-64");
            }
            if f.name.is_empty() && b > 0 {
                v.push("unnamed-padding");
            }
            if *p == Prim::Bool {
                v.push("bool");
            }
        }
    }
    v.sort();
    v.dedup();
    if v.is_empty() {
        "plain".into()
    } else {
        v.join("+")
    }
}

/// A 64-bit-wide field that does not start on a byte boundary needs 9 bytes: known finding.
fn has_span_over_64(c: &Comp, c_out: &str, i: usize) -> bool {
    let _ = (c_out, i);
    // conservative static rule: packed (or pragma-packed) struct with a 57..64-bit field that is
    // preceded by bit-fields whose widths do not sum to a multiple of 8
    if !(c.packed || c.pragma_pack.is_some()) {
        return false;
    }
    let mut bit = 0u32;
    for f in &c.fields {
        match f.bits {
            Some(b) => {
                if b as u32 + bit % 8 > 64 {
                    return true;
                }
                bit += b as u32;
            }
            None => bit = 0,
        }
    }
    false
}

impl Property for C03 {
    type Case = Case;
    fn id(&self) -> &'static str {
        "C03"
    }
    fn rule(&self) -> String {
        "(a) exhaustive: every (storage size 1..=16, bit offset, width 1..=64) triple that fits, 5 initial storages x 9 values, through get/set/raw_get/raw_set against a bit-vector model; the four const-generic entry points on a grid of 1536 (3592 in thorough) monomorphic instantiations {shift 0..7} x {width 1..64} x {first/last position} x {minimal/16-byte storage}. (b) generated structs of 1..12 members: named bit-fields of every integer base type and _Bool (widths 1..64 incl. full width), unnamed padding bit-fields and :0 separators, plain members in between, packed / #pragma pack / aligned variants; per named field 3 object patterns x (load + 8 stored values) and 2^min(k,6) constructor combinations, executed in a clang-compiled C program and a rustc-compiled Rust program over the bindings; transcripts must be identical. Non-trivial: (a) every triple; (b) a struct with >=2 named bit-fields of which one straddles a byte boundary; distinct by struct hash".into()
    }
    fn assumptions(&self) -> Vec<String> {
        vec![
            "little-endian host only: the big-endian branches of bitfield_unit.rs are not executed".into(),
            "bit-fields with enum base types are not generated in (b); unions are generated without whole-object constructors (their members overlap)".into(),
            "types bindgen falls back to an opaque blob for expose no accessors and are skipped (counted)".into(),
        ]
    }
    fn parallelism(&self) -> usize {
        16
    }
    fn shrink_steps(&self) -> usize {
        50
    }
    fn max_shrunk_signatures(&self) -> usize {
        3
    }
    fn exhaustive(&self, _tier: Tier) -> bool {
        false
    }
    fn strategy(&self, _tier: Tier) -> BoxedStrategy<Case> {
        (prog_strategy(), prop_oneof![3 => Just(vec![]), 1 => Just(vec!["--rust-target".to_string(), "1.64".to_string()]), 1 => Just(vec!["--explicit-padding".to_string()]), 1 => Just(vec!["--disable-untagged-union".to_string()]), 1 => Just(vec!["--with-derive-default".to_string(), "--with-derive-hash".to_string(), "--with-derive-partialeq".to_string()])])
            .prop_map(|(prog, flags)| Case::Structs { prog, flags, keep_known: false })
            .boxed()
    }
    fn generated(&self, tier: Tier) -> usize {
        tier.pick(160, 5000)
    }
    fn fixed_cases(&self, _tier: Tier) -> Vec<Case> {
        let mut v = vec![Case::Sweep];
        v.extend(motif_grid());
        v
    }
    fn evaluate(&self, case: &Case, env: &Env) -> Outcome {
        let mut out = Outcome::new();
        match case {
            Case::Sweep => {
                let bin = std::env::var("BGV_BFSWEEP").unwrap_or_else(|_| "/verif/target/release/bfsweep".into());
                let mut cmd = std::process::Command::new(&bin);
                cmd.arg(env.seed.to_string());
                let o = match tools::run(&mut cmd, &env.dir, 600) {
                    Ok(o) => o,
                    Err(e) => return out.inconclusive(format!("bfsweep: {e}")),
                };
                let Ok(v) = serde_json::from_str::<Value>(o.stdout.trim()) else { return out.inconclusive(format!("bfsweep output: {} {}", o.stdout.chars().take(300).collect::<String>(), o.stderr.chars().take(300).collect::<String>())) };
                out.evaluations = v["checks"].as_u64().unwrap_or(0) as usize;
                let triples = v["triples"].as_u64().unwrap_or(0);
                for t in 0..triples {
                    out.nontrivial(format!("triple{t}"));
                }
                for f in v["failures"].as_array().cloned().unwrap_or_default() {
                    let f = f.as_str().unwrap_or("").to_string();
                    let entry = f.split(" | ").next().unwrap_or("?").to_string();
                    out.fail(format!("unit/{entry}"), f);
                }
                if v["panicked"] == json!(true) {
                    out.fail("unit/sweep-aborted-by-panic", "panic outside the guarded calls");
                }
                if v["span_over_64_failed_checks"].as_u64().unwrap_or(0) > 0 {
                    out.fail("unit/span-over-64", format!("{} checks on {} triples with bit_offset % 8 + width > 64 fail, e.g. {}", v["span_over_64_failed_checks"], v["span_over_64_triples"], v["span_over_64_example"]));
                }
                out.class("sweep");
                out.sample = Some(json!({"sweep": v}));
            }
            Case::Structs { prog, flags, keep_known } => {
                let mut prog = prog.clone();
                prog.normalise();
                // known finding: fields spanning more than 64 bits from their first byte
                if !keep_known {
                    for d in prog.decls.iter_mut() {
                        if let Decl::Comp(c) = d {
                            // known findings about the layout of the whole struct (recorded for C01/C02):
                            // `packed` together with `aligned(N)`, and `packed` inside `#pragma pack`
                            if c.packed && c.aligned.is_some() {
                                c.aligned = None;
                                out.excluded_known += 1;
                            }
                            if c.packed && c.pragma_pack.is_some() {
                                c.pragma_pack = None;
                                out.excluded_known += 1;
                            }
                            if c.pragma_pack.is_some() && c.aligned.is_some() {
                                c.aligned = None;
                                out.excluded_known += 1;
                            }
                            // known finding: the allocation unit of a union is sized by its *last*
                            // bit-field (all of them start at bit 0): the widest one goes last, and
                            // zero-width members (which empty the unit) are dropped
                            if c.is_union {
                                let n0 = c.fields.len();
                                c.fields.retain(|f| f.bits != Some(0));
                                out.excluded_known += n0 - c.fields.len();
                                // per run of consecutive bit-fields (a plain member ends the unit)
                                let mut k = 0usize;
                                while k < c.fields.len() {
                                    if c.fields[k].bits.is_none() {
                                        k += 1;
                                        continue;
                                    }
                                    let start = k;
                                    while k < c.fields.len() && c.fields[k].bits.is_some() {
                                        k += 1;
                                    }
                                    let last = k - 1;
                                    let widest = (start..=last).max_by_key(|i| (c.fields[*i].bits.unwrap(), *i)).unwrap();
                                    if c.fields[widest].bits != c.fields[last].bits {
                                        c.fields.swap(widest, last);
                                        out.excluded_known += 1;
                                    }
                                }
                                if c.fields.is_empty() {
                                    c.fields.push(Field { name: "only".into(), ty: FieldTy::Ty(Ty::Prim(Prim::Int)), bits: None, align: None });
                                }
                            }
                            if (c.packed || c.pragma_pack.is_some()) && c.fields.iter().any(|f| f.bits.map(|b| b >= 57).unwrap_or(false)) {
                                // a 57..64-bit field at an unaligned bit offset spans 9 bytes
                                c.packed = false;
                                c.pragma_pack = None;
                                out.excluded_known += 1;
                            }
                        }
                    }
                }
                // (only replays of the known finding still contain such unions)
                let union_small_unit = prog.decls.iter().any(|d| match d {
                    Decl::Comp(c) if c.is_union => {
                        let mut bad = c.fields.iter().any(|f| f.bits == Some(0));
                        let mut run_max: Option<u8> = None;
                        for (k, f) in c.fields.iter().enumerate() {
                            match f.bits {
                                Some(b) => {
                                    run_max = Some(run_max.map_or(b, |m| m.max(b)));
                                    let run_ends = c.fields.get(k + 1).map_or(true, |n| n.bits.is_none());
                                    if run_ends && Some(b) != run_max {
                                        bad = true;
                                    }
                                }
                                None => run_max = None,
                            }
                        }
                        bad
                    }
                    _ => false,
                });
                let header = prog.render();
                std::fs::write(env.dir.join("in.h"), &header).ok();
                std::fs::write(env.dir.join("t.c"), c_program(&prog)).ok();
                let c_out = match tools::clang_run(&env.dir, "t.c", &["-std=gnu11".into()]) {
                    Ok(o) => o,
                    Err(e) => return out.inconclusive(format!("C side: {e}\n{header}")),
                };
                let mut f: Vec<String> = vec!["--no-include-path-detection".into(), "--formatter=none".into()];
                f.extend(flags.iter().cloned());
                let input = BgInput { files: vec![], headers: vec!["in.h".into()], flags: f, clang_args: vec!["-std=gnu11".into()], callbacks: vec![] };
                let text = match bg::generate(&input, &env.dir) {
                    BgResult::Ok(t) => t,
                    other => {
                        out.fail("generation-failed", format!("{}\n{header}", other.describe()));
                        return out;
                    }
                };
                std::fs::write(env.dir.join("b.rs"), &text).ok();
                let plan = rust_program(&prog, "b.rs", &text);
                for (sig, msg) in &plan.problems {
                    let sig = if union_small_unit && sig == "accessor-missing" { "accessor-missing/union-with-zero-width-member".to_string() } else { sig.clone() };
                    out.fail(sig, format!("{msg}\n--- header ---\n{header}"));
                }
                if plan.src.is_empty() {
                    return out;
                }
                std::fs::write(env.dir.join("t.rs"), &plan.src).ok();
                let o = match (tools::Rustc { dir: &env.dir, edition: "2021", nightly: false }).build_exe("t.rs", "t.exe", &[], false) {
                    Ok(o) => o,
                    Err(e) => return out.inconclusive(e),
                };
                if !o.ok() {
                    let (codes, first) = tools::rustc_error_summary(&o.stderr);
                    if codes.iter().any(|c| c == "E0080") {
                        out.class("layout-assertion-fails (C02/C06)");
                    } else {
                        out.fail(format!("rust-side-does-not-compile/{}", codes.first().cloned().unwrap_or_default()), format!("{first}\n{}\n--- header ---\n{header}", o.stderr.chars().take(1500).collect::<String>()));
                    }
                    return out;
                }
                let r = match tools::run_exe(&env.dir, "t.exe", &[], 120) {
                    Ok(r) => r,
                    Err(e) => return out.inconclusive(e),
                };
                if !r.ok() {
                    let wide_packed = prog.decls.iter().any(|d| matches!(d, Decl::Comp(c) if (c.packed || c.pragma_pack.is_some()) && c.fields.iter().any(|f| f.bits.map(|b| b >= 57).unwrap_or(false))));
                    let what = if union_small_unit && r.stderr.contains("panicked") { "accessor-panicked/union-unit-sized-by-last-field" } else if r.stderr.contains("overflow") && wide_packed { "unit/span-over-64" } else if r.stderr.contains("overflow") { "accessor-panicked/arithmetic-overflow" } else if r.stderr.contains("panicked") { "accessor-panicked/other" } else { "rust-side-crashed" };
                    out.fail(what, format!("status {:?} signal {:?}: {}\n--- header ---\n{header}", r.status, r.signal, r.stderr.lines().filter(|l| l.contains("panicked") || l.contains("overflow") || l.contains("assert")).take(4).collect::<Vec<_>>().join(" | ")));
                    return out;
                }
                // compare transcripts
                let c_lines: BTreeMap<String, String> = c_out.lines().filter_map(|l| l.rsplit_once(' ').map(|(k, v)| (k.to_string(), v.to_string()))).collect();
                let r_lines: BTreeMap<String, String> = r.stdout.lines().filter(|l| !l.contains("DIFFERS") && !l.ends_with(" opaque") && !l.ends_with(" noctor")).filter_map(|l| l.rsplit_once(' ').map(|(k, v)| (k.to_string(), v.to_string()))).collect();
                out.evaluations = c_lines.len();
                let opaque: Vec<String> = r.stdout.lines().filter(|l| l.ends_with(" opaque")).map(|l| l.split(' ').next().unwrap().to_string()).collect();
                let noctor: Vec<String> = r.stdout.lines().filter(|l| l.ends_with(" noctor")).map(|l| l.split(' ').next().unwrap().to_string()).collect();
                for l in r.stdout.lines().filter(|l| l.contains("DIFFERS")) {
                    let kind = if l.contains("RAWGET") { "raw-getter-differs-from-getter" } else { "raw-setter-differs-from-setter" };
                    let ti: usize = l[1..].split(' ').next().and_then(|x| x.parse().ok()).unwrap_or(0);
                    let class = match &prog.decls[ti] {
                        Decl::Comp(c) => struct_class(c),
                        _ => "?".into(),
                    };
                    out.fail(format!("{kind}/{class}"), format!("{l}\n--- header ---\n{header}"));
                }
                let mut reported: std::collections::BTreeSet<String> = Default::default();
                for (k, cv) in &c_lines {
                    let t = k.split(' ').next().unwrap_or("");
                    if opaque.iter().any(|o| o == t) {
                        continue;
                    }
                    if k.contains(" ctor ") && noctor.iter().any(|o| o == t) {
                        continue;
                    }
                    let ti: usize = t[1..].parse().unwrap_or(0);
                    let Decl::Comp(c) = &prog.decls[ti] else { continue };
                    let class = struct_class(c);
                    let what = k.split(' ').nth(2).unwrap_or(if k.contains(" size") { "size" } else if k.contains(" ctor") { "ctor" } else { "?" });
                    let what = if k.contains(" ctor ") { "ctor" } else if k.ends_with(" size") { "size" } else { what };
                    match r_lines.get(k) {
                        None => {
                            if union_small_unit {
                                continue; // reported as accessor-missing above
                            }
                            if reported.insert(format!("missing/{t}")) {
                                out.fail(format!("transcript-line-missing/{what}/{class}"), format!("`{k}` only on the C side\n--- header ---\n{header}"));
                            }
                        }
                        Some(rv) if rv != cv => {
                            if what == "size" {
                                out.class("size-differs (C02)");
                                continue;
                            }
                            // known finding: getters of signed bit-fields do not sign-extend
                            if k.contains(" get ") {
                                let fname = k.rsplit(' ').next().unwrap_or("");
                                if let Some(f) = named_bitfields(c).iter().find(|f| f.name == fname) {
                                    if is_signed(f.prim) && f.bits < 64 {
                                        let cvn: i128 = cv.parse().unwrap_or(0);
                                        let rvn: i128 = rv.parse().unwrap_or(0);
                                        let modulus = 1i128 << f.bits;
                                        // rustc prints the declared-width value; compare modulo 2^bits of the declared type
                                        let type_bits = f.prim.bits_lp64();
                                        let rv_w = rvn.rem_euclid(1i128 << type_bits).rem_euclid(modulus);
                                        if cvn < 0 && rv_w == cvn + modulus && rvn >= 0 {
                                            if reported.insert("nosignext".into()) {
                                                out.fail("get-differs/no-sign-extension", format!("`{k}`: C = {cv}, Rust = {rv} ({}-bit signed field)\n--- declaration ---\n{}", f.bits, render_decl(&prog, &prog.decls[ti])));
                                            }
                                            continue;
                                        }
                                    }
                                }
                            }
                            if reported.insert(format!("{what}/{t}")) {
                                out.fail(
                                    format!("{what}-differs/{class}"),
                                    format!("`{k}`: C = {cv}, Rust = {rv}\n--- declaration ---\n{}--- flags {flags:?}", render_decl(&prog, &prog.decls[ti])),
                                );
                            }
                        }
                        _ => {}
                    }
                }
                for d in &prog.decls {
                    if let Decl::Comp(c) = d {
                        let fs = named_bitfields(c);
                        for part in struct_class(c).split('+') {
                            out.class(format!("struct:{part}"));
                        }
                        // straddling: some field crosses a byte boundary (approximated on widths)
                        let mut bit = 0u32;
                        let mut straddles = false;
                        for f in &c.fields {
                            match f.bits {
                                Some(b) => {
                                    if b > 0 && bit / 8 != (bit + b as u32 - 1) / 8 {
                                        straddles = true;
                                    }
                                    bit += b as u32;
                                }
                                None => bit = 0,
                            }
                        }
                        if fs.len() >= 2 && straddles {
                            out.nontrivial(format!("{:x}", fnv(&format!("{c:?}"))));
                        }
                    }
                }
                if !opaque.is_empty() {
                    out.class("opaque-fallback");
                }
                out.sample = Some(json!({"header": header, "flags": flags, "transcript_lines": c_lines.len()}));
            }
        }
        out
    }
}
