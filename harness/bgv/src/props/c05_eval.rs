// Evaluation half of C05 (included into c05.rs).

#[derive(Clone, Debug, PartialEq)]
enum Fact {
    /// mathematical value, signedness of the carrier type, its size
    Int { v: i128, signed: bool, size: usize },
    Float { bits: u64, size: usize },
    Bytes(Vec<u8>),
}

fn parse_probe(out: &str) -> BTreeMap<String, Fact> {
    let mut m = BTreeMap::new();
    for l in out.lines() {
        let w: Vec<&str> = l.split_whitespace().collect();
        if w.len() < 2 {
            continue;
        }
        let key = format!("{} {}", w[0], w[1]);
        match w[0] {
            // C side: signed flag, raw 64-bit pattern, size
            "ci" | "ce" | "cv" => {
                let signed = w[2] == "1";
                let bits: u64 = w[3].parse().unwrap_or(0);
                let size: usize = w.get(4).and_then(|x| x.parse().ok()).unwrap_or(0);
                let v = if signed { bits as i64 as i128 } else { bits as i128 };
                m.insert(format!("{} {}", &w[0][1..], w[1]), Fact::Int { v, signed, size });
            }
            "ct" => {
                let size: usize = w[2].parse().unwrap_or(0);
                m.insert(format!("t {}", w[1]), Fact::Int { v: 0, signed: w[3] == "1", size });
            }
            // Rust side: signed flag, value, size
            "i" | "e" | "v" => {
                let signed = w[2] == "1";
                let v: i128 = w[3].parse().unwrap_or(0);
                let size: usize = w.get(4).and_then(|x| x.parse().ok()).unwrap_or(0);
                m.insert(key, Fact::Int { v, signed, size });
            }
            "f" | "cf" => {
                let bits = u64::from_str_radix(w[2], 16).unwrap_or(0);
                let size: usize = w.get(3).and_then(|x| x.parse().ok()).unwrap_or(0);
                m.insert(format!("f {}", w[1]), Fact::Float { bits, size });
            }
            "s" | "cs" => {
                let hex = w.get(2).copied().unwrap_or("");
                let bytes = (0..hex.len() / 2).map(|i| u8::from_str_radix(&hex[2 * i..2 * i + 2], 16).unwrap_or(0)).collect();
                m.insert(format!("s {}", w[1]), Fact::Bytes(bytes));
            }
            _ => {}
        }
    }
    m
}

fn c_probe(h: &Header, r: &Rendered) -> String {
    let cpp = h.cpp;
    let mut s = String::from("#include <stdio.h>\n#include <string.h>\n#include \"in.h\"\n");
    s.push_str("#define PI(n, x) printf(\"ci %s %d %llu %d\\n\", n, (int)((__typeof__((x)+0))-1 < 0), (unsigned long long)(x), (int)sizeof((x)+0))\n");
    s.push_str("#define PV(n, x) printf(\"cv %s %d %llu %d\\n\", n, (int)((__typeof__(x))-1 < 0), (unsigned long long)(x), (int)sizeof(x))\n");
    s.push_str("#define PC(n, x) printf(\"ci %s 1 %llu 4\\n\", n, (unsigned long long)(long long)(int)(x))\n");
    s.push_str("#define PF(n, x) do { double d_ = (double)(x); unsigned long long u_; memcpy(&u_, &d_, 8); printf(\"cf %s %016llx %d\\n\", n, u_, (int)sizeof(x)); } while (0)\n");
    s.push_str("#define PS(n, p, l) do { const char *p_ = (p); unsigned long l_ = (l), i_; printf(\"cs %s \", n); for (i_ = 0; i_ < l_; i_++) printf(\"%02x\", (unsigned)(unsigned char)p_[i_]); printf(\"\\n\"); } while (0)\n");
    if cpp {
        s.push_str("#define UV(x) ((__underlying_type(__typeof__(x)))(x))\n");
        s.push_str("#define PE(n, x) printf(\"ce %s %d %llu\\n\", n, (int)(UV(x) < 0), (unsigned long long)UV(x))\n");
        s.push_str("#define PT(n, T) printf(\"ct %s %d %d\\n\", n, (int)sizeof(T), (int)((__underlying_type(T))-1 < 0))\n");
    } else {
        s.push_str("#define PE(n, x) printf(\"ce %s %d %llu\\n\", n, (int)((x) < 0), (unsigned long long)(x))\n");
        s.push_str("#define PT(n, T) printf(\"ct %s %d %d\\n\", n, (int)sizeof(T), (int)((T)-1 < 0))\n");
    }
    s.push_str("int main(void) {\n");
    for (i, m) in r.macros.iter().enumerate() {
        let n = &m.name;
        match (&h.macros[i].body, m.kind) {
            (_, "int") => s.push_str(&format!("  PI(\"{n}\", {n});\n")),
            (MacroBody::CallsFuncLike(_), _) | (MacroBody::Ident(_), _) => s.push_str(&format!("  PI(\"{n}\", {n});\n")),
            (_, "char") => s.push_str(&format!("  PC(\"{n}\", {n});\n")),
            (_, "float") => s.push_str(&format!("  PF(\"{n}\", {n});\n")),
            (_, "str") => s.push_str(&format!("  PS(\"{n}\", {n}, sizeof({n}));\n")),
            _ => {}
        }
    }
    for (name, ty, exprs) in &r.enums {
        for e in exprs {
            let label = e.rsplit("::").next().unwrap();
            s.push_str(&format!("  PE(\"{label}\", {e});\n"));
        }
        match ty {
            Some(t) => s.push_str(&format!("  PT(\"{name}\", {t});\n")),
            None if cpp => s.push_str(&format!("  PT(\"{name}\", __typeof__({}));\n", exprs[0])),
            None => {}
        }
    }
    for (name, kind) in &r.vars {
        match *kind {
            "int" => s.push_str(&format!("  PV(\"{name}\", {name});\n")),
            "float" => s.push_str(&format!("  PF(\"{name}\", {name});\n")),
            _ => s.push_str(&format!("  PS(\"{name}\", {name}, strlen({name}) + 1);\n")),
        }
    }
    s.push_str("  return 0;\n}\n");
    s
}

const RUST_PRELUDE: &str = r#"#![allow(warnings)]
pub trait IF { fn ifv(&self) -> i128; fn isg(&self) -> i32; fn isz(&self) -> usize; }
macro_rules! ifs { ($sg:expr; $($t:ty),*) => {$(impl IF for $t { fn ifv(&self) -> i128 { *self as i128 } fn isg(&self) -> i32 { $sg } fn isz(&self) -> usize { ::core::mem::size_of::<$t>() } })*} }
ifs!(1; i8, i16, i32, i64, isize, i128);
ifs!(0; u8, u16, u32, u64, usize, u128);
impl IF for bool { fn ifv(&self) -> i128 { *self as i128 } fn isg(&self) -> i32 { 0 } fn isz(&self) -> usize { 1 } }
pub fn bytes(tag: &str, name: &str, b: &[u8]) { print!("@{} s {} ", tag, name); for x in b { print!("{:02x}", x); } println!(); }
"#;

/// Statements that print one emitted constant, or None when the bindings do not have it.
fn const_stmt(inv: &Inventory, tag: &str, kind: char, c_name: &str) -> Option<String> {
    let cands = [c_name.to_string(), format!("{c_name}_")];
    let it = inv.items.iter().find(|i| i.kind == "const" && i.module.is_empty() && cands.contains(&i.name))?;
    let n = crate::probe::raw_ident(&it.name);
    let mut ty = it.ty.replace(' ', "");
    // typedef'd types: follow `pub type A = B;`
    for _ in 0..8 {
        match inv.items.iter().find(|i| i.kind == "type" && i.module.is_empty() && i.name == ty) {
            Some(a) => ty = a.ty.replace(' ', ""),
            None => break,
        }
    }
    Some(if ty.contains("[u8;") {
        format!("crate::bytes(\"{tag}\", \"{c_name}\", &{n}[..]);")
    } else if ty.contains("CStr") {
        format!("crate::bytes(\"{tag}\", \"{c_name}\", {n}.to_bytes_with_nul());")
    } else if ty == "f32" || ty == "f64" {
        format!("println!(\"@{tag} f {c_name} {{:016x}} {{}}\", ({n} as f64).to_bits(), ::core::mem::size_of_val(&{n}));")
    } else {
        // integer constant; typedef'd newtypes do not occur here (default alias style)
        format!("println!(\"@{tag} {kind} {c_name} {{}} {{}} {{}}\", ({n}).isg(), ({n}).ifv(), ({n}).isz());")
    })
}

fn repr_signed(it: &Item) -> Option<bool> {
    for r in &it.reprs {
        let r = r.trim();
        if matches!(r, "i8" | "i16" | "i32" | "i64" | "isize") {
            return Some(true);
        }
        if matches!(r, "u8" | "u16" | "u32" | "u64" | "usize") {
            return Some(false);
        }
    }
    None
}

/// Statement printing an enumerator: value and the size/signedness of its carrier type.
fn variant_stmt(inv: &Inventory, tag: &str, enum_name: &str, enum_tag: Option<&str>, vn: &str) -> Option<(String, &'static str)> {
    let mut cands = vec![vn.to_string(), format!("{enum_name}_{vn}")];
    if let Some(t) = enum_tag {
        cands.push(format!("{t}_{vn}"));
    }
    let by_type = |expr: &str, ty_name: &str, module: &str| -> (String, &'static str) {
        let t = inv.items.iter().find(|i| i.name == ty_name && i.module == module && matches!(i.kind.as_str(), "struct" | "enum" | "type"));
        match t {
            Some(t) if t.kind == "struct" => (format!("println!(\"@{tag} e {vn} {{}} {{}} {{}}\", ({expr}.0).isg(), ({expr}.0).ifv(), ::core::mem::size_of_val(&{expr}));"), "newtype"),
            Some(t) if t.kind == "enum" => {
                let sg = repr_signed(t).map(|b| b as i32).unwrap_or(2);
                (format!("println!(\"@{tag} e {vn} {sg} {{}} {{}}\", {expr} as i128, ::core::mem::size_of_val(&{expr}));"), "rust-enum")
            }
            _ => (format!("println!(\"@{tag} e {vn} {{}} {{}} {{}}\", ({expr}).isg(), ({expr}).ifv(), ({expr}).isz());"), "consts"),
        }
    };
    // (1) a root constant
    if let Some(it) = inv.items.iter().find(|i| i.kind == "const" && i.module.is_empty() && cands.contains(&i.name)) {
        return Some(by_type(&it.name, it.ty.trim(), ""));
    }
    // (2) a constant inside a module of constants
    if let Some(it) = inv.items.iter().find(|i| i.kind == "const" && !i.module.is_empty() && cands.contains(&i.name)) {
        let expr = format!("{}::{}", it.module, it.name);
        let (s, _) = by_type(&expr, "Type", &it.module);
        return Some((s, "moduleconsts"));
    }
    // (3) an associated constant
    if let Some(im) = inv.items.iter().find(|i| i.kind == "impl" && i.impl_trait.is_empty() && i.methods.iter().any(|m| cands.contains(m))) {
        let name = im.methods.iter().find(|m| cands.contains(m)).unwrap();
        let self_ty = im.impl_self.trim().to_string();
        let expr = format!("{self_ty}::{name}");
        return Some(by_type(&expr, &self_ty, &im.module));
    }
    // (4) a variant of a Rust enum
    if let Some(en) = inv.items.iter().find(|i| i.kind == "enum" && i.variants.iter().any(|(n, _)| cands.contains(n))) {
        let name = &en.variants.iter().find(|(n, _)| cands.contains(n)).unwrap().0;
        let expr = format!("{}::{name}", en.name);
        return Some(by_type(&expr, &en.name, &en.module));
    }
    None
}

fn style_of(flags: &[String]) -> String {
    flags.iter().position(|f| f == "--default-enum-style").and_then(|i| flags.get(i + 1)).cloned().unwrap_or_else(|| "consts".into())
}

fn macro_type_of(flags: &[String]) -> String {
    let mut s = String::new();
    if flags.iter().any(|f| f == "--fit-macro-constant-types") {
        s.push_str("fit");
    }
    if let Some(i) = flags.iter().position(|f| f == "--default-macro-constant-type") {
        s.push_str(&flags[i + 1]);
    }
    if flags.iter().any(|f| f == "--clang-macro-fallback") {
        s.push_str("+fallback");
    }
    if s.is_empty() {
        "default".into()
    } else {
        s
    }
}

impl Property for C05 {
    type Case = Case;
    fn id(&self) -> &'static str {
        "C05"
    }
    fn rule(&self) -> String {
        "generated headers of 3..24 object-like macros (typed integer expression grammar over dec/hex/oct/bin literals with u/l/ll suffixes, unary - ~ ! +, binary + - * / % << >> & | ^ && || comparisons, ?:, casts, sizeof, character constants, references to earlier macros; made free of undefined behaviour by a C-typed evaluator; float expressions; character and string literals with escapes, concatenation and macro references; empty/type/function-like macros, macros over enumerators, duplicate and keyword-named macros), 0..3 enums (five declaration forms incl. fixed underlying types and enum class; implicit, explicit, negative, duplicate, >32-bit and >63-bit values) and 0..7 const variables of every scalar type; C and C++; 2 option sets per header drawn from macro typing, the seven enum styles, translate-enum-integer-types, prepend-enum-name, generate-cstr, clang-macro-fallback, use-core. Oracle: clang-compiled C probe vs rustc-compiled Rust probe over the bindings. Non-trivial = an option set under which at least one emitted integer macro with an operator and one enumerator or variable were compared; distinct by (header, option set)".into()
    }
    fn assumptions(&self) -> Vec<String> {
        vec![
            "host target only (x86_64 LP64); the clang binary's constant evaluation equals libclang's".into(),
            "a character constant is compared modulo 256 (bindgen emits the byte, C an int that may be negative)".into(),
            "float tolerance: exact bits for double expressions; relative 2^-22 after rounding to f32 when a float-suffixed literal takes part; relative 1e-15 when a long double literal takes part".into(),
            "a macro that is redefined after #undef is compared against its value at the end of the header".into(),
        ]
    }
    fn strategy(&self, _tier: Tier) -> BoxedStrategy<Case> {
        (header_strategy(), proptest::collection::vec(opt_set_strategy(), 2)).prop_map(|(header, opt_sets)| Case { header, opt_sets, keep_known: false }).boxed()
    }
    fn generated(&self, tier: Tier) -> usize {
        tier.pick(1200, 20000)
    }
    fn shrink_steps(&self) -> usize {
        80
    }
    fn max_shrunk_signatures(&self) -> usize {
        4
    }
    fn evaluate(&self, case: &Case, env: &Env) -> Outcome {
        let mut out = Outcome::new();
        out.evaluations = 0;
        let mut h = case.header.clone();
        h.normalise(case.keep_known);
        let r = h.render();
        let file = if h.cpp { "in.hpp" } else { "in.h" };
        std::fs::write(env.dir.join(file), &r.text).ok();
        if h.cpp {
            // the C probe includes "in.h"
            std::fs::write(env.dir.join("in.h"), &r.text).ok();
        }
        // ---- C side
        let probe_name = if h.cpp { "probe.cpp" } else { "probe.c" };
        std::fs::write(env.dir.join(probe_name), c_probe(&h, &r)).ok();
        let mut cargs: Vec<String> = vec!["-w".into()];
        if h.cpp {
            cargs.extend(["-x".to_string(), "c++".to_string(), "-std=c++17".to_string()]);
        } else {
            cargs.push("-std=gnu11".into());
        }
        let c_out = match tools::clang_run(&env.dir, probe_name, &cargs) {
            Ok(o) => o,
            Err(e) => return out.inconclusive(format!("C probe: {}\n{}", e.chars().take(600).collect::<String>(), r.text)),
        };
        let c_facts = parse_probe(&c_out);
        // sanity of the harness itself: the typed model must agree with clang
        for m in &r.macros {
            if let (Some(v), false, Some(Fact::Int { v: cv, .. })) = (m.model, m.redefined, c_facts.get(&format!("i {}", m.name))) {
                let same = if m.kind == "char" { (v.v & 0xff) == (*cv & 0xff) } else { v.v == *cv };
                if !same {
                    return out.inconclusive(format!("harness model disagrees with clang on {}: model {} clang {}\n{}", m.name, v.v, cv, r.text));
                }
            }
        }
        // ---- Rust side: all option sets in one crate
        let mut sets: Vec<Vec<String>> = vec![];
        for s in &case.opt_sets {
            if !sets.contains(s) {
                sets.push(s.clone());
            }
        }
        let mut src = String::from(RUST_PRELUDE);
        let mut present: Vec<BTreeSet<String>> = vec![];
        let mut styles: Vec<BTreeMap<String, &'static str>> = vec![];
        for (k, flags) in sets.iter().enumerate() {
            let mut f: Vec<String> = vec!["--no-include-path-detection".into(), "--formatter=none".into(), "--no-layout-tests".into()];
            f.extend(flags.iter().cloned());
            if flags.iter().any(|x| x == "--clang-macro-fallback") {
                f.push("--clang-macro-fallback-build-dir".into());
                f.push(format!("{{DIR}}/fb{k}"));
                std::fs::create_dir_all(env.dir.join(format!("fb{k}"))).ok();
            }
            let clang_args: Vec<String> = if h.cpp { vec!["-x".into(), "c++".into(), "-std=c++17".into()] } else { vec!["-std=gnu11".into()] };
            let input = BgInput { files: vec![], headers: vec![file.into()], flags: f, clang_args, callbacks: vec![] };
            let text = match bg::generate(&input, &env.dir) {
                BgResult::Ok(t) => t,
                other => {
                    out.fail("generation-failed", format!("flags {flags:?}: {}\n{}", other.describe(), r.text));
                    present.push(BTreeSet::new());
                    styles.push(BTreeMap::new());
                    continue;
                }
            };
            out.evaluations += 1;
            let inv = match rs::inventory(&text) {
                Ok(i) => i,
                Err(e) => {
                    out.fail("bindings-unparseable", format!("flags {flags:?}: {e}"));
                    present.push(BTreeSet::new());
                    styles.push(BTreeMap::new());
                    continue;
                }
            };
            let tag = format!("v{k}");
            let mut stmts: Vec<String> = vec![];
            let mut have = BTreeSet::new();
            let mut st = BTreeMap::new();
            for m in &r.macros {
                if let Some(s) = const_stmt(&inv, &tag, 'i', &m.name) {
                    stmts.push(s);
                    have.insert(m.name.clone());
                }
            }
            for (ei, (name, _, exprs)) in r.enums.iter().enumerate() {
                for e in exprs {
                    let vn = e.rsplit("::").next().unwrap();
                    if let Some((s, style)) = variant_stmt(&inv, &tag, name, r.enum_tags[ei].as_deref(), vn) {
                        stmts.push(s);
                        have.insert(vn.to_string());
                        st.insert(vn.to_string(), style);
                    }
                }
            }
            for (name, _) in &r.vars {
                if let Some(s) = const_stmt(&inv, &tag, 'v', name) {
                    stmts.push(s);
                    have.insert(name.clone());
                }
            }
            std::fs::write(env.dir.join(format!("b_{k}.rs")), &text).ok();
            src.push_str(&format!("pub mod {tag} {{\n    use crate::IF as _;\n    include!(\"b_{k}.rs\");\n    pub fn run() {{\n"));
            for s in stmts {
                src.push_str("        ");
                src.push_str(&s);
                src.push('\n');
            }
            src.push_str("    }\n}\n");
            present.push(have);
            styles.push(st);
        }
        src.push_str("fn main() {\n");
        for k in 0..sets.len() {
            if !present[k].is_empty() || true {
                src.push_str(&format!("    v{k}::run();\n"));
            }
        }
        src.push_str("}\n");
        // modules of failed generations do not exist
        for (k, p) in present.iter().enumerate() {
            if p.is_empty() && !src.contains(&format!("pub mod v{k} ")) {
                src = src.replace(&format!("    v{k}::run();\n"), "");
            }
        }
        std::fs::write(env.dir.join("p.rs"), &src).ok();
        let o = match (tools::Rustc { dir: &env.dir, edition: "2021", nightly: false }).build_exe("p.rs", "p.exe", &[], false) {
            Ok(o) => o,
            Err(e) => return out.inconclusive(format!("rustc: {e}")),
        };
        if !o.ok() {
            let (codes, first) = tools::rustc_error_summary(&o.stderr);
            let code = codes.first().cloned().unwrap_or_else(|| "E----".into());
            out.fail(format!("probe-compile/{code}"), format!("option sets {sets:?}: {first}\n{}\n--- header ---\n{}", o.stderr.chars().take(1500).collect::<String>(), r.text));
            return out;
        }
        let run = match tools::run_exe(&env.dir, "p.exe", &[], 60) {
            Ok(x) if x.ok() => x,
            Ok(x) => {
                out.fail("probe-crashed", format!("status {:?} signal {:?}\n{}", x.status, x.signal, r.text));
                return out;
            }
            Err(e) => return out.inconclusive(format!("probe run: {e}")),
        };
        // ---- compare
        for (k, flags) in sets.iter().enumerate() {
            let prefix = format!("@v{k} ");
            let mine: String = run.stdout.lines().filter_map(|l| l.strip_prefix(&prefix)).map(|l| format!("{l}\n")).collect();
            let rf = parse_probe(&mine);
            let ctx = |what: &str| format!("flags {flags:?}: {what}\n--- header ---\n{}", r.text);
            let mt = macro_type_of(flags);
            let fallback = flags.iter().any(|f| f == "--clang-macro-fallback");
            let mut compared_op_macro = false;
            let mut compared_other = false;
            for (i, m) in r.macros.iter().enumerate() {
                let emitted = present[k].contains(&m.name);
                out.class(format!("macro:{}:{}", m.kind, if emitted { "emitted" } else { "omitted" }));
                if !emitted {
                    continue;
                }
                match m.kind {
                    "int" | "char" | "none" => {
                        let Some(Fact::Int { v: cv, .. }) = c_facts.get(&format!("i {}", m.name)) else {
                            // emitted although it is no integer constant in C
                            if matches!(h.macros[i].body, MacroBody::Empty | MacroBody::TypeName | MacroBody::FuncLike(_)) {
                                out.fail("macro-value/not-a-constant", ctx(&format!("`{}` has no value in C but a constant was emitted", m.name)));
                            }
                            continue;
                        };
                        let Some(Fact::Int { v: rv, .. }) = rf.get(&format!("i {}", m.name)) else {
                            out.fail(format!("macro-kind/{}", m.kind), ctx(&format!("`{}` is an integer in C, emitted as {:?}", m.name, rf.get(&format!("f {}", m.name)).or(rf.get(&format!("s {}", m.name))))));
                            continue;
                        };
                        let same = if m.kind == "char" { (cv & 0xff) == (rv & 0xff) } else { cv == rv };
                        // known classes, decided from the input alone
                        let untyped_differs = match (m.model, if fallback { m.untyped_fb } else { m.untyped }) {
                            (Some(mv), Some(u)) => mv.v != u as i128,
                            _ => false,
                        };
                        // decided from the input and clang's value alone, never from bindgen's output
                        let fallback_unsigned = fallback && ((m.fb_direct && untyped_differs) || (m.model.is_none() && *cv > i64::MAX as i128));
                        let known_class = if m.redefined {
                            Some("redefinition")
                        } else if fallback_unsigned {
                            Some("fallback-unsigned-64")
                        } else if untyped_differs {
                            Some("untyped-i64-arithmetic")
                        } else {
                            None
                        };
                        if let (Some(_), false) = (known_class, case.keep_known) {
                            out.excluded_known += 1;
                            continue;
                        }
                        if !same {
                            // the untyped-arithmetic finding is about unsigned operands: a wrong value of a
                            // macro in which one takes part belongs to it even where the classifier's own
                            // re-evaluation happens to agree with C
                            let known_class = known_class.or(if m.involves_unsigned && m.kind == "int" { Some("untyped-i64-arithmetic") } else { None });
                            let class = known_class.unwrap_or(if m.kind == "char" { "char" } else { "mismatch" });
                            out.fail(format!("macro-value/{class}"), ctx(&format!("`{}` ({mt}): C = {cv}, Rust = {rv} [model {:?}, untyped {:?}, untyped with fallback {:?}]", m.name, m.model.map(|v| v.v), m.untyped, m.untyped_fb)));
                        }
                        if m.kind == "int" && !m.features.is_disjoint(&["add-sub", "mul-div-rem", "shift", "bitwise", "neg", "bitnot", "macro-ref"].into_iter().collect()) {
                            compared_op_macro = true;
                        }
                    }
                    "float" => {
                        let Some(Fact::Float { bits: cb, .. }) = c_facts.get(&format!("f {}", m.name)) else { continue };
                        // known finding "redefinition": the macro itself keeps its first (integer)
                        // definition; what matters here are the macros defined after it
                        if m.redefined {
                            out.excluded_known += 1;
                            out.class("macro:int-then-float (the macro itself is the known redefinition class)");
                            continue;
                        }
                        let Some(Fact::Float { bits: rb, .. }) = rf.get(&format!("f {}", m.name)) else {
                            out.fail("macro-kind/float", ctx(&format!("`{}` is a float in C, emitted as {:?}", m.name, rf.get(&format!("i {}", m.name)))));
                            continue;
                        };
                        let c = f64::from_bits(*cb);
                        let rr = f64::from_bits(*rb);
                        let (f32_ops, ld_ops, arith) = m.fprec;
                        // known class: arithmetic on float- or long-double-typed operands is carried
                        // out in double precision (suffixes are ignored)
                        let known = (f32_ops || ld_ops) && arith;
                        if known && !case.keep_known {
                            out.excluded_known += 1;
                            continue;
                        }
                        let ok = if c.is_nan() || rr.is_nan() {
                            c.is_nan() && rr.is_nan()
                        } else if cb == rb {
                            true
                        } else if f32_ops {
                            let (a, b) = (c as f32, rr as f32);
                            a == b || ((a - b).abs() as f64) <= (a.abs().max(b.abs()) as f64) * 2.4e-7 || (a.is_infinite() && b.is_infinite() && a.signum() == b.signum())
                        } else if ld_ops {
                            (c - rr).abs() <= c.abs().max(rr.abs()) * 1e-15
                        } else {
                            false
                        };
                        if !ok {
                            out.fail(if known { "macro-value/float-non-double-arithmetic" } else { "macro-value/float" }, ctx(&format!("`{}`: C = {c:e} ({cb:016x}), Rust = {rr:e} ({rb:016x})", m.name)));
                        }
                        compared_other = true;
                    }
                    "str" => {
                        let Some(Fact::Bytes(cb)) = c_facts.get(&format!("s {}", m.name)) else { continue };
                        match rf.get(&format!("s {}", m.name)) {
                            Some(Fact::Bytes(rb)) => {
                                if cb != rb {
                                    out.fail("macro-value/string", ctx(&format!("`{}`: C = {cb:02x?}, Rust = {rb:02x?}", m.name)));
                                }
                            }
                            other => out.fail("macro-kind/str", ctx(&format!("`{}` is a string in C, emitted as {other:?}", m.name))),
                        }
                        compared_other = true;
                    }
                    _ => {}
                }
            }
            let style = style_of(flags);
            for (name, _, exprs) in &r.enums {
                let ct = c_facts.get(&format!("t {name}"));
                for e in exprs {
                    let vn = e.rsplit("::").next().unwrap();
                    let Some(Fact::Int { v: cv, .. }) = c_facts.get(&format!("e {vn}")) else { continue };
                    let Some(Fact::Int { v: rv, signed: rsg, size: rsz }) = rf.get(&format!("e {vn}")) else {
                        out.fail(format!("enumerator-missing/{style}"), ctx(&format!("no constant for enumerator `{vn}`")));
                        continue;
                    };
                    let found_as = styles[k].get(vn).copied().unwrap_or("?");
                    out.class(format!("enumerator:{found_as}"));
                    if cv != rv {
                        out.fail(format!("enum-value/{style}"), ctx(&format!("`{vn}`: C = {cv}, Rust = {rv}")));
                    }
                    if let Some(Fact::Int { signed: csg, size: csz, .. }) = ct {
                        if csz != rsz {
                            out.fail(format!("enum-type/size/{style}"), ctx(&format!("`{name}` (via `{vn}`): C size {csz}, Rust size {rsz}")));
                        }
                        if csg != rsg {
                            out.fail(format!("enum-type/sign/{style}"), ctx(&format!("`{name}` (via `{vn}`): C signed {csg}, Rust signed {rsg}")));
                        }
                    }
                    compared_other = true;
                }
            }
            for (name, kind) in &r.vars {
                if !present[k].contains(name) {
                    out.class(format!("var:{kind}:not-a-const"));
                    continue;
                }
                out.class(format!("var:{kind}:const"));
                match *kind {
                    "int" => {
                        let Some(Fact::Int { v: cv, signed: csg, size: csz }) = c_facts.get(&format!("v {name}")) else { continue };
                        match rf.get(&format!("v {name}")) {
                            Some(Fact::Int { v: rv, signed: rsg, size: rsz }) => {
                                if cv != rv {
                                    out.fail("var-value/int", ctx(&format!("`{name}`: C = {cv}, Rust = {rv}")));
                                }
                                if csz != rsz || csg != rsg {
                                    out.fail("var-type/int", ctx(&format!("`{name}`: C size {csz} signed {csg}, Rust size {rsz} signed {rsg}")));
                                }
                            }
                            other => out.fail("var-kind/int", ctx(&format!("`{name}` emitted as {other:?}"))),
                        }
                    }
                    "float" => {
                        let Some(Fact::Float { bits: cb, size: csz }) = c_facts.get(&format!("f {name}")) else { continue };
                        match rf.get(&format!("f {name}")) {
                            Some(Fact::Float { bits: rb, size: rsz }) => {
                                let (c, rr) = (f64::from_bits(*cb), f64::from_bits(*rb));
                                if !(cb == rb || (c.is_nan() && rr.is_nan())) {
                                    out.fail("var-value/float", ctx(&format!("`{name}`: C = {c:e}, Rust = {rr:e}")));
                                }
                                if csz != rsz {
                                    out.fail("var-type/float", ctx(&format!("`{name}`: C size {csz}, Rust size {rsz}")));
                                }
                            }
                            other => out.fail("var-kind/float", ctx(&format!("`{name}` emitted as {other:?}"))),
                        }
                    }
                    _ => {
                        let Some(Fact::Bytes(cb)) = c_facts.get(&format!("s {name}")) else { continue };
                        match rf.get(&format!("s {name}")) {
                            Some(Fact::Bytes(rb)) => {
                                if cb != rb {
                                    out.fail("var-value/string", ctx(&format!("`{name}`: C = {cb:02x?}, Rust = {rb:02x?}")));
                                }
                            }
                            other => out.fail("var-kind/str", ctx(&format!("`{name}` emitted as {other:?}"))),
                        }
                    }
                }
                compared_other = true;
            }
            out.class(format!("enum-style:{style}"));
            out.class(format!("macro-typing:{mt}"));
            if compared_op_macro && compared_other {
                out.nontrivial(format!("{:x}|{:x}", fnv(&r.text), fnv(&format!("{flags:?}"))));
            }
        }
        out.class(if h.cpp { "lang:c++" } else { "lang:c" });
        out.sample = Some(json!({"header": r.text, "option_sets": sets}));
        out
    }
}
