use crate::engine::{run_check, run_replay, Tier};
use std::path::Path;

pub mod c01;
pub mod c02;
pub mod c03;
pub mod c04;
pub mod c05;
pub mod c06;
pub mod c07;
pub mod c08;
pub mod c09;
pub mod c10;
pub mod c11;
pub mod c12;
pub mod c13;
pub mod c14;
pub mod c15;
pub mod c16;
pub mod c17;
pub mod c18;

pub fn worker_main() {
    crate::bg::install_quiet_panic_hook();
    crate::worker::serve(|req, io| match req["op"].as_str() {
        Some("gen") => c12::worker_gen(req, io),
        Some("c11") => c11::worker_c11(req, io),
        Some("c13") => c13::worker_c13(req, io),
        Some("c15") => c15::worker_c15(req, io),
        Some("c17") => c17::worker_c17(req, io),
        Some("ping") => serde_json::json!({"pong": true}),
        other => serde_json::json!({"error": format!("unknown op {other:?}")}),
    });
}

macro_rules! table {
    ($id:expr, $f:ident, $arg:expr) => {
        match $id {
            "C01" => $f(&c01::C01, $arg),
            "C02" => $f(&c02::C02, $arg),
            "C03" => $f(&c03::C03, $arg),
            "C04" => $f(&c04::C04, $arg),
            "C05" => $f(&c05::C05, $arg),
            "C06" => $f(&c06::C06, $arg),
            "C07" => $f(&c07::C07, $arg),
            "C08" => $f(&c08::C08, $arg),
            "C09" => $f(&c09::C09, $arg),
            "C10" => $f(&c10::C10, $arg),
            "C11" => $f(&c11::C11, $arg),
            "C12" => $f(&c12::C12, $arg),
            "C13" => $f(&c13::C13, $arg),
            "C14" => $f(&c14::C14, $arg),
            "C15" => $f(&c15::C15, $arg),
            "C16" => $f(&c16::C16, $arg),
            "C17" => $f(&c17::C17, $arg),
            "C18" => $f(&c18::C18, $arg),
            other => {
                eprintln!("unknown property {other}");
                2
            }
        }
    };
}

pub fn dispatch_check(id: &str, tier: Tier) -> i32 {
    table!(id, run_check, tier)
}

pub fn dispatch_replay(id: &str, path: &Path) -> i32 {
    table!(id, run_replay, path)
}
