//! C15 — formatter choice changes only whitespace; formatter failure is not fatal.
//! Fault enumeration x sizes x settings, plus proptest-drawn fault sequences applied to
//! consecutive write() calls on the same `Bindings` value. Runs in an isolated worker with a
//! watchdog (a hang is observable as a timeout).

use crate::engine::{Env, Outcome, Property, Tier};
use crate::rs::layout_neutral_tokens as flat_tokens;
use crate::worker::{self, Reply, ServerIo};
use proptest::prelude::*;
use serde::{Deserialize, Serialize};
use serde_json::{json, Value};
use std::path::Path;

pub struct C15;

#[derive(Clone, Debug, Serialize, Deserialize, PartialEq, Eq, Hash)]
pub enum Fmt {
    None,
    Prettyplease,
    /// real rustfmt found on PATH
    RustfmtReal,
    /// with_rustfmt(<path kind>) + scripted mode
    Fake(String),
    /// with_rustfmt pointing at: "absent" | "directory" | "nonexec" | "empty-script"
    BadPath(String),
}

#[derive(Clone, Debug, Serialize, Deserialize)]
pub struct Case {
    /// number of structs in the generated header (size class)
    pub structs: u32,
    pub header_comment: bool,
    pub raw_lines: Vec<String>,
    pub config_file: bool,
    /// consecutive write() calls on the same Bindings
    pub writes: Vec<Fmt>,
}

pub const FAULT_MODES: &[&str] = &[
    "exit:1:nothing",
    "exit:1:half",
    "exit:1:all",
    "exit:2:nothing",
    "exit:2:all",
    "exit:101:half",
    "exit:255:all",
    "exit:3:all",
    "signal:KILL:nothing",
    "signal:KILL:half",
    "signal:SEGV:nothing",
    "signal:SEGV:half",
    "signal:PIPE:half",
    "signal:ABRT:nothing",
    "badutf8",
    "badutf8:3",
    "badutf8:1",
    "close-stdin:1",
    "never-read:1",
    "never-read:2",
    "never-read-flood:1",
    "slow-reader",
    "write-before-read",
    "echo",
];
pub const BAD_PATHS: &[&str] = &["absent", "directory", "nonexec", "empty-script"];

const RAW_POOL: &[&str] = &[
    "pub const RAW_ONE: u8 = 1;",
    "// a raw comment line",
    "use core::ffi::c_void as RawVoid;",
    "#[allow(dead_code)] pub struct RawS { pub x: u8 }",
    "pub type RawT = u32;",
];

fn header_text(n: u32) -> String {
    let mut s = String::from("/** documented */\nstruct S0 { int a; char b; long c[3]; unsigned bf : 3; };\nint f0(struct S0 *p, int x);\n#define M0 \"str\"\nenum E0 { E0_A, E0_B = 7 };\n");
    for i in 1..n {
        s.push_str(&format!("struct S{i} {{ int a{i}; struct S{} *prev; double d; char name[{}]; }};\n", i - 1, (i % 7) + 1));
        if i % 8 == 0 {
            s.push_str(&format!("int f{i}(struct S{i} *p, int x);\n"));
        }
    }
    s
}

// ---------------------------------------------------------------------------------------------
// worker side

fn make_builder(dir: &Path, case: &Case) -> bindgen::Builder {
    let mut b = bindgen::builder().header(dir.join("in.h").to_str().unwrap()).detect_include_paths(false);
    if !case.header_comment {
        b = b.disable_header_comment();
    }
    for l in &case.raw_lines {
        b = b.raw_line(l.as_str());
    }
    b
}

fn apply_fmt(mut b: bindgen::Builder, dir: &Path, f: &Fmt, config_file: bool) -> bindgen::Builder {
    if config_file {
        b = b.rustfmt_configuration_file(Some(dir.join("rustfmt.toml")));
    }
    match f {
        Fmt::None => b.formatter(bindgen::Formatter::None),
        Fmt::Prettyplease => b.formatter(bindgen::Formatter::Prettyplease),
        Fmt::RustfmtReal => b.formatter(bindgen::Formatter::Rustfmt),
        Fmt::Fake(_) => b.formatter(bindgen::Formatter::Rustfmt).with_rustfmt(std::env::var("BGV_FAKEFMT").unwrap_or_else(|_| "/verif/target/release/fakefmt".into())),
        Fmt::BadPath(k) => {
            let p = match k.as_str() {
                "absent" => dir.join("no-such-formatter"),
                "directory" => dir.to_path_buf(),
                "nonexec" => dir.join("nonexec-fmt"),
                _ => dir.join("empty-script"),
            };
            b.formatter(bindgen::Formatter::Rustfmt).with_rustfmt(p)
        }
    }
}

pub fn worker_c15(req: &Value, _io: &mut ServerIo) -> Value {
    use std::os::unix::fs::PermissionsExt;
    let dir = Path::new(req["dir"].as_str().unwrap()).to_path_buf();
    let case: Case = match serde_json::from_value(req["case"].clone()) {
        Ok(c) => c,
        Err(e) => return json!({"error": format!("bad case: {e}")}),
    };
    std::fs::create_dir_all(&dir).ok();
    std::fs::write(dir.join("in.h"), header_text(case.structs)).ok();
    std::fs::write(dir.join("rustfmt.toml"), "max_width = 90\n").ok();
    std::fs::write(dir.join("nonexec-fmt"), "#!/bin/sh\ncat\n").ok();
    let _ = std::fs::set_permissions(dir.join("nonexec-fmt"), std::fs::Permissions::from_mode(0o644));
    std::fs::write(dir.join("empty-script"), "").ok();
    let _ = std::fs::set_permissions(dir.join("empty-script"), std::fs::Permissions::from_mode(0o755));
    // reference: the unformatted text of the same bindings
    let reference = {
        let b = apply_fmt(make_builder(&dir, &case), &dir, &Fmt::None, false);
        match b.generate() {
            Ok(x) => x.to_string(),
            Err(e) => return json!({"error": format!("reference generation failed: {e:?}")}),
        }
    };
    let ref_tokens = flat_tokens(&reference);
    let mut results = vec![];
    // one Bindings value per distinct formatter setting is unavoidable (the formatter is a
    // builder option); consecutive writes with the same setting reuse the value
    let mut current: Option<(Fmt, bindgen::Bindings)> = None;
    for (k, f) in case.writes.iter().enumerate() {
        let key = match f {
            Fmt::Fake(_) => Fmt::Fake(String::new()),
            other => other.clone(),
        };
        if current.as_ref().map(|c| &c.0) != Some(&key) {
            let b = apply_fmt(make_builder(&dir, &case), &dir, f, case.config_file);
            match b.generate() {
                Ok(x) => current = Some((key.clone(), x)),
                Err(e) => return json!({"error": format!("generation failed: {e:?}")}),
            }
        }
        if let Fmt::Fake(mode) = f {
            std::env::set_var("FAKEFMT_MODE", mode);
        }
        let _ = std::fs::write(dir.join("progress.json"), json!({"write": k, "fmt": f}).to_string());
        let bindings = &current.as_ref().unwrap().1;
        let t0 = std::time::Instant::now();
        // write() runs on its own thread so that a hang can be told from slowness: after
        // `limit` the formatter is driven by a reference pipe driver (writer thread, drained
        // stdout, wait); if it terminates there, the formatter is not what blocks
        struct SendPtr(*const bindgen::Bindings);
        unsafe impl Send for SendPtr {}
        let (tx, rx) = std::sync::mpsc::channel::<(Result<std::io::Result<()>, String>, Vec<u8>)>();
        let ptr = SendPtr(bindings as *const _);
        let _ = std::thread::Builder::new().stack_size(64 << 20).spawn(move || {
            let ptr = ptr;
            // the pointee outlives the thread: the worker either waits for the result or exits
            let b: &bindgen::Bindings = unsafe { &*ptr.0 };
            let mut buf: Vec<u8> = vec![];
            let r = std::panic::catch_unwind(std::panic::AssertUnwindSafe(|| b.write(&mut buf)));
            let r = r.map_err(|_| crate::bg::take_last_panic().unwrap_or_default());
            let _ = tx.send((r, buf));
        });
        let limit = std::env::var("BGV_C15_HANG_S").ok().and_then(|s| s.parse().ok()).unwrap_or(60u64);
        let mut got = rx.recv_timeout(std::time::Duration::from_secs(limit)).ok();
        let mut reference_ms = None;
        if got.is_none() {
            reference_ms = reference_drive(&dir, f, &reference, 120);
            // slowness is not a hang: allow 50 times what the formatter itself needs
            if let Some(ms) = reference_ms {
                let allow = std::time::Duration::from_millis(ms.saturating_mul(50));
                if allow > t0.elapsed() {
                    got = rx.recv_timeout(allow - t0.elapsed()).ok();
                }
            }
        }
        let (r, buf) = match got {
            Some(x) => x,
            None => {
                let mut res = json!({"fmt": f, "ms": t0.elapsed().as_millis() as u64, "outcome": "hang", "reference_driver_ms": reference_ms});
                res["detail"] = json!(format!("write() has not returned after {} s; the same formatter fed the same text through a draining pipe driver {}", t0.elapsed().as_secs(), match reference_ms { Some(ms) => format!("terminates in {ms} ms"), None => "does not terminate either".into() }));
                results.push(res);
                // the write thread still borrows the bindings: answer and leave
                return json!({"results": results, "reference_bytes": reference.len(), "_exit": true});
            }
        };
        let ms = t0.elapsed().as_millis() as u64;
        let mut res = json!({"fmt": f, "ms": ms});
        match r {
            Err(p) => {
                res["outcome"] = json!("panic");
                res["detail"] = json!(p);
            }
            Ok(Err(e)) => {
                res["outcome"] = json!("err");
                res["detail"] = json!(e.to_string());
            }
            Ok(Ok(())) => {
                res["outcome"] = json!("ok");
                match String::from_utf8(buf) {
                    Err(_) => {
                        res["text_problem"] = json!("not-utf8");
                    }
                    Ok(text) => {
                        res["bytes"] = json!(text.len());
                        res["marker"] = json!(text.contains("// fakefmt-was-here"));
                        res["byte_identical_to_unformatted"] = json!(text == reference);
                        let marker = "/* automatically generated by rust-bindgen";
                        let count = text.matches(marker).count();
                        if case.header_comment {
                            if !text.starts_with(marker) || count != 1 {
                                res["text_problem"] = json!(format!("header-comment (count {count}, at start {})", text.starts_with(marker)));
                            }
                        } else if count != 0 {
                            res["text_problem"] = json!("header-comment-present-although-disabled");
                        }
                        // comment-only raw lines vanish from the token stream: check them textually
                        let mut pos = 0usize;
                        for l in &case.raw_lines {
                            match text[pos..].find(l.as_str()) {
                                Some(i) => pos += i + l.len(),
                                None => {
                                    res["text_problem"] = json!(format!("raw-line-missing-or-out-of-order: {l}"));
                                    break;
                                }
                            }
                        }
                        let toks = flat_tokens(&text);
                        if toks != ref_tokens {
                            let d = toks.iter().zip(ref_tokens.iter()).position(|(a, b)| a != b).unwrap_or(toks.len().min(ref_tokens.len()));
                            res["tokens_differ"] = json!(format!(
                                "at token {d} of {}/{}: got `{}` expected `{}`",
                                toks.len(),
                                ref_tokens.len(),
                                toks[d.saturating_sub(3)..(d + 4).min(toks.len())].join(" "),
                                ref_tokens[d.saturating_sub(3)..(d + 4).min(ref_tokens.len())].join(" ")
                            ));
                        }
                    }
                }
            }
        }
        results.push(res);
    }
    json!({"results": results, "reference_bytes": reference.len()})
}

/// Runs the external formatter of `f` the way a correct caller does (stdin fed from a thread,
/// stdout drained to the end, then wait). Some(ms) = it terminated; None = it did not within
/// `limit_s` (or `f` has no external process).
fn reference_drive(dir: &Path, f: &Fmt, text: &str, limit_s: u64) -> Option<u64> {
    use std::io::{Read, Write};
    use std::process::{Command, Stdio};
    let exe = match f {
        Fmt::Fake(_) => std::env::var("BGV_FAKEFMT").unwrap_or_else(|_| "/verif/target/release/fakefmt".into()),
        Fmt::RustfmtReal => "rustfmt".to_string(),
        _ => return None,
    };
    let t0 = std::time::Instant::now();
    let mut child = Command::new(exe).current_dir(dir).stdin(Stdio::piped()).stdout(Stdio::piped()).stderr(Stdio::null()).spawn().ok()?;
    let mut stdin = child.stdin.take()?;
    let mut stdout = child.stdout.take()?;
    let input = text.to_string();
    std::thread::spawn(move || {
        let _ = stdin.write_all(input.as_bytes());
    });
    let (tx, rx) = std::sync::mpsc::channel();
    std::thread::spawn(move || {
        let mut v = vec![];
        let _ = stdout.read_to_end(&mut v);
        let _ = tx.send(());
    });
    let drained = rx.recv_timeout(std::time::Duration::from_secs(limit_s)).is_ok();
    if !drained {
        let _ = child.kill();
        let _ = child.wait();
        return None;
    }
    use wait_timeout::ChildExt;
    match child.wait_timeout(std::time::Duration::from_secs(limit_s)) {
        Ok(Some(_)) => Some(t0.elapsed().as_millis() as u64),
        _ => {
            let _ = child.kill();
            let _ = child.wait();
            None
        }
    }
}

// ---------------------------------------------------------------------------------------------

fn fmt_name(f: &Fmt) -> String {
    match f {
        Fmt::None => "none".into(),
        Fmt::Prettyplease => "prettyplease".into(),
        Fmt::RustfmtReal => "rustfmt".into(),
        Fmt::Fake(m) => format!("fake:{m}"),
        Fmt::BadPath(k) => format!("badpath:{k}"),
    }
}

fn all_faults() -> Vec<Fmt> {
    let mut v: Vec<Fmt> = BAD_PATHS.iter().map(|k| Fmt::BadPath(k.to_string())).collect();
    v.extend(FAULT_MODES.iter().map(|m| Fmt::Fake(m.to_string())));
    v
}

fn fmt_strategy() -> BoxedStrategy<Fmt> {
    prop_oneof![
        1 => Just(Fmt::None),
        1 => Just(Fmt::Prettyplease),
        1 => Just(Fmt::RustfmtReal),
        10 => (0..FAULT_MODES.len()).prop_map(|i| Fmt::Fake(FAULT_MODES[i].to_string())),
        2 => (0..BAD_PATHS.len()).prop_map(|i| Fmt::BadPath(BAD_PATHS[i].to_string())),
    ]
    .boxed()
}

impl Property for C15 {
    type Case = Case;
    fn id(&self) -> &'static str {
        "C15"
    }
    fn level(&self) -> &'static str {
        "fault_enumeration"
    }
    fn rule(&self) -> String {
        "fixed: every fault mode (4 bad paths + 22 scripted child behaviours: exit codes 1/2/3/101/255 after writing nothing/half/everything, SIGKILL/SIGSEGV/SIGPIPE/SIGABRT, invalid UTF-8 with exit 0, stdin closed at once, stdin never read (with and without flooding stdout), slow reader, output before input) and the three real formatters x 3 size classes (tiny, ~200 KB, >= 4 MB) x settings (header comment, raw lines, configuration file); generated: sequences of 1..8 formatter behaviours applied to consecutive write() calls on the same Bindings, random settings and sizes. Non-trivial = a failing-formatter write on bindings >= 200 KB (the pipe protocol only matters when the child can block); distinct by (fault, size class, settings)".into()
    }
    fn assumptions(&self) -> Vec<String> {
        vec![
            "a formatter that exits 0 with well-formed but different text is trusted by design (outside the claim)".into(),
            "the scripted child (harness/fakefmt) stands in for rustfmt; real rustfmt is used for the no-fault formatter comparison on the two smaller size classes".into(),
            "a write() that has not returned after max(60 s, 50 x the reference driver's time) is a violation only if the same formatter, fed the same text by a reference pipe driver that drains its output, terminates (then the formatter is not what blocks); otherwise, and for the 240 s + 1200 s worker watchdog, the case is inconclusive".into(),
        ]
    }
    fn parallelism(&self) -> usize {
        8
    }
    fn strategy(&self, _tier: Tier) -> BoxedStrategy<Case> {
        (
            prop_oneof![3 => Just(1u32), 3 => Just(450u32), 1 => Just(9000u32)],
            any::<bool>(),
            proptest::collection::vec(0..RAW_POOL.len(), 0..5),
            proptest::bool::weighted(0.3),
            proptest::collection::vec(fmt_strategy(), 1..8),
        )
            .prop_map(|(structs, header_comment, raw, config_file, writes)| {
                let mut seen = std::collections::BTreeSet::new();
                let raw_lines = raw.into_iter().filter(|i| seen.insert(*i)).map(|i| RAW_POOL[i].to_string()).collect();
                Case { structs, header_comment, raw_lines, config_file, writes }
            })
            .boxed()
    }
    fn generated(&self, tier: Tier) -> usize {
        tier.pick(60, 2000)
    }
    // an evaluation that ends in a hang costs a minute: keep minimisation short
    fn shrink_steps(&self) -> usize {
        12
    }
    fn max_shrunk_signatures(&self) -> usize {
        3
    }
    fn fixed_cases(&self, tier: Tier) -> Vec<Case> {
        let mut v = vec![];
        let sizes: &[u32] = &[1, 450, 9000];
        for &structs in sizes {
            for (header_comment, nraw, config_file) in [(true, 0usize, false), (false, 3, false), (true, 5, true), (false, 0, true)] {
                if structs == 9000 && matches!(tier, Tier::Quick) && (nraw == 3 || (!header_comment && config_file)) {
                    continue; // the 4 MB class is run with two of the four settings in the quick tier
                }
                let raw_lines: Vec<String> = RAW_POOL.iter().take(nraw).map(|s| s.to_string()).collect();
                let mut writes = all_faults();
                writes.push(Fmt::None);
                writes.push(Fmt::Prettyplease);
                if structs < 9000 {
                    writes.push(Fmt::RustfmtReal);
                }
                v.push(Case { structs, header_comment, raw_lines, config_file, writes });
            }
        }
        v
    }

    fn evaluate(&self, case: &Case, env: &Env) -> Outcome {
        let mut out = Outcome::new();
        out.evaluations = case.writes.len();
        let req = json!({"op": "c15", "dir": env.dir.to_str().unwrap(), "case": case});
        let size_class = match case.structs {
            0..=10 => "tiny",
            11..=2000 => "200KB",
            _ => "4MB",
        };
        let v = match worker::call(&req, 600) {
            Reply::Ok(v) => v,
            Reply::Timeout => {
                let progress = std::fs::read_to_string(env.dir.join("progress.json")).unwrap_or_default();
                // re-run once with a much longer watchdog before calling it a hang
                return match worker::call(&req, 1200) {
                    Reply::Ok(_) => out.inconclusive(format!("slow (needed > 600 s) at {progress}")),
                    _ => out.inconclusive(format!("write() did not return within the watchdog at {progress} (possible hang)")),
                };
            }
            Reply::Died { status, signal, stderr, .. } => {
                let progress: Value = std::fs::read_to_string(env.dir.join("progress.json")).ok().and_then(|s| serde_json::from_str(&s).ok()).unwrap_or(Value::Null);
                let f: Option<Fmt> = serde_json::from_value(progress["fmt"].clone()).ok();
                out.fail(
                    format!("process-died/{}/{size_class}", f.as_ref().map(fmt_name).unwrap_or_else(|| "?".into())),
                    format!("worker died (status {status:?}, signal {signal:?}) during write #{}: {}", progress["write"], stderr.chars().take(500).collect::<String>()),
                );
                return out;
            }
        };
        if let Some(e) = v.get("error") {
            return out.inconclusive(format!("harness: {e}"));
        }
        let settings = format!("hc={} raw={} cfg={}", case.header_comment, case.raw_lines.len(), case.config_file);
        for r in v["results"].as_array().cloned().unwrap_or_default() {
            let f: Fmt = serde_json::from_value(r["fmt"].clone()).unwrap();
            let name = fmt_name(&f);
            let faulty = matches!(&f, Fmt::BadPath(_)) || matches!(&f, Fmt::Fake(m) if m != "echo" && m != "slow-reader" && m != "write-before-read" && m != "exit:3:all");
            out.class(format!("{}:{}", if faulty { "fault" } else { "nofault" }, size_class));
            if faulty && case.structs > 10 {
                out.nontrivial(format!("{name}|{size_class}|{settings}"));
            }
            match r["outcome"].as_str().unwrap_or("?") {
                "ok" => {}
                "err" => {
                    out.fail(format!("write-returned-error/{name}"), format!("{size_class} {settings}: {}", r["detail"]));
                    continue;
                }
                "panic" => {
                    out.fail(format!("write-panicked/{name}"), format!("{size_class} {settings}: {}", r["detail"]));
                    continue;
                }
                "hang" => {
                    // the statement names a hang as a forbidden outcome; it is reported only when
                    // the formatter demonstrably terminates on the same input with a correct
                    // caller (otherwise nothing can be concluded from a bounded wait)
                    if r["reference_driver_ms"].as_u64().is_some() {
                        out.fail(format!("write-hangs/{name}/{size_class}"), format!("{settings}: {}", r["detail"]));
                    } else {
                        out.inconclusive = Some(format!("{name} {size_class} {settings}: {}", r["detail"]));
                    }
                    continue;
                }
                _ => continue,
            }
            if let Some(p) = r.get("text_problem") {
                let class = p.as_str().unwrap_or("").split(&[' ', ':'][..]).next().unwrap_or("").to_string();
                out.fail(format!("text/{class}/{name}"), format!("{size_class} {settings}: {p}"));
            }
            if let Some(t) = r.get("tokens_differ") {
                out.fail(format!("tokens-differ/{name}"), format!("{size_class} {settings}: {t}"));
            }
            if let Fmt::Fake(_) = &f {
                let marker = r["marker"] == json!(true);
                if faulty && marker {
                    out.fail(format!("failed-formatter-output-used/{name}"), format!("{size_class} {settings}: text written by a formatter that signalled failure was used"));
                }
                if !faulty && !marker {
                    out.fail(format!("formatter-output-not-used/{name}"), format!("{size_class} {settings}: the formatter succeeded (or exited 3 with complete output) but its text was discarded"));
                }
            }
            // a failed formatter must yield exactly the unformatted code
            if faulty && r["byte_identical_to_unformatted"] == json!(false) && r.get("tokens_differ").is_none() && r.get("text_problem").is_none() {
                // token-identical but not byte-identical after a *failure*: tolerated by the
                // statement ("unformatted, token-identical code"), recorded as a class only
                out.class("fault:token-identical-not-byte-identical");
            }
        }
        out.sample = Some(json!({"structs": case.structs, "settings": settings, "writes": case.writes.iter().map(fmt_name).collect::<Vec<_>>(), "reference_bytes": v["reference_bytes"]}));
        out
    }
}
