//! C08 — traits are derived exactly when the rules allow; hand-written impls act like derives.
//! A direct recursive specification of derivability over the generator's own model says, for
//! every top-level struct/union and every trait, whether the trait must be present. Presence
//! is observed through rustc (autoref-specialisation probes that report at run time whether
//! `T: Trait` holds), behaviour by executing default()/eq()/fmt().

use crate::bg::{self, BgInput, BgResult};
use crate::cmodel::*;
use crate::engine::{fnv, Env, Outcome, Property, Tier};
use crate::rs::{self, Inventory};
use crate::tools;
use proptest::prelude::*;
use serde::{Deserialize, Serialize};
use serde_json::json;
use std::collections::{BTreeMap, BTreeSet};

pub struct C08;

#[derive(Clone, Copy, Debug, PartialEq, Eq, PartialOrd, Ord)]
pub enum Tr {
    Copy,
    Debug,
    Default,
    Hash,
    PartialEq,
    PartialOrd,
    Eq,
    Ord,
}

pub const TRAITS: &[Tr] = &[Tr::Copy, Tr::Debug, Tr::Default, Tr::Hash, Tr::PartialEq, Tr::PartialOrd, Tr::Eq, Tr::Ord];

#[derive(Clone, Copy, Debug, PartialEq, Eq)]
enum Can {
    Yes,
    Manually,
    No,
}

fn join(a: Can, b: Can) -> Can {
    match (a, b) {
        (Can::No, _) | (_, Can::No) => Can::No,
        (Can::Manually, _) | (_, Can::Manually) => Can::Manually,
        _ => Can::Yes,
    }
}

#[derive(Clone, Debug, Serialize, Deserialize)]
pub struct Case {
    pub prog: Program,
    /// bit k set = option k of OPTION_BITS is passed
    pub option_bits: u16,
    /// (which exclusion 0..5, declaration picker)
    pub exclusions: Vec<(u8, u16)>,
    #[serde(default)]
    pub keep_known: bool,
    /// metamorphic spelling: function-pointer members `R (*m)(P..)` are written as `ft_N *m` with
    /// `typedef R ft_N(P..);` (pointer to a typedef'd function type); nothing may change
    #[serde(default)]
    pub fn_typedefs: bool,
}

/// See `Case::fn_typedefs`. Members whose parameter list names a tag type are left alone (the
/// typedef would have to follow the tag's declaration).
fn spell_fn_pointers_through_typedefs(header: &str) -> (String, usize) {
    let re = regex::Regex::new(r"^(\s+)((?:const )?[A-Za-z_][A-Za-z0-9_ ]*?)\s*\(\*([A-Za-z_][A-Za-z0-9_]*)\)\(([^()]*)\);$").unwrap();
    let mut out: Vec<String> = vec![];
    let mut decl_start = 0usize;
    let mut n = 0usize;
    for line in header.lines() {
        if !line.starts_with(' ') && !line.starts_with('}') && !line.is_empty() {
            decl_start = out.len();
        }
        match re.captures(line) {
            Some(c) if !["struct ", "union ", "enum "].iter().any(|k| c[4].contains(k) || c[2].contains(k)) => {
                n += 1;
                let name = format!("c08_ft_{n}");
                out.insert(decl_start, format!("typedef {} {name}({});", &c[2], &c[4]));
                decl_start += 1;
                out.push(format!("{}{name} *{};", &c[1], &c[3]));
            }
            _ => out.push(line.to_string()),
        }
    }
    (out.join("\n") + "\n", n)
}

pub const OPTION_BITS: &[&str] = &[
    "--with-derive-default",
    "--with-derive-hash",
    "--with-derive-partialeq",
    "--with-derive-eq",
    "--with-derive-partialord",
    "--with-derive-ord",
    "--no-derive-copy",
    "--no-derive-debug",
    "--impl-debug",
    "--impl-partialeq",
];
const EXCLUSION_FLAGS: &[&str] = &["--no-copy", "--no-debug", "--no-default", "--no-hash", "--no-partialeq"];

#[derive(Clone, Debug, Default)]
struct Opts {
    default: bool,
    hash: bool,
    partialeq: bool,
    eq: bool,
    partialord: bool,
    ord: bool,
    copy: bool,
    debug: bool,
    impl_debug: bool,
    /// names excluded per EXCLUSION_FLAGS index
    excluded: [BTreeSet<String>; 5],
}

impl Opts {
    fn excludes(&self, which: usize, name: &str) -> bool {
        self.excluded[which].contains(name)
    }
}

struct Spec<'a> {
    p: &'a Program,
    o: &'a Opts,
}

impl<'a> Spec<'a> {
    /// the analysis trait a user-facing trait is decided by
    fn excl_index(tr: Tr) -> usize {
        match tr {
            Tr::Copy => 0,
            Tr::Debug => 1,
            Tr::Default => 2,
            Tr::Hash => 3,
            _ => 4,
        }
    }
    fn ty(&self, t: &Ty, tr: Tr) -> Can {
        match t {
            Ty::Void => Can::Yes,
            Ty::Prim(p) => {
                let float = matches!(p, Prim::Float | Prim::Double | Prim::LongDouble);
                if float && tr == Tr::Hash {
                    Can::No
                } else {
                    Can::Yes
                }
            }
            Ty::Ptr { .. } => {
                if tr == Tr::Default {
                    Can::No
                } else {
                    Can::Yes
                }
            }
            Ty::FnPtr { params, .. } => {
                if params.len() <= 12 {
                    Can::Yes
                } else {
                    match tr {
                        Tr::Copy | Tr::Default => Can::Yes,
                        Tr::Debug => Can::Manually,
                        _ => Can::No,
                    }
                }
            }
            Ty::Array { of, dims } => {
                let inner = if dims.len() > 1 { self.ty(&Ty::Array { of: of.clone(), dims: dims[1..].to_vec() }, tr) } else { self.ty(of, tr) };
                if inner != Can::Yes {
                    return Can::No;
                }
                let len = match dims[0] {
                    ArrLen::Fixed(n) => n as u64,
                    ArrLen::Zero | ArrLen::Flexible => 0,
                };
                if len == 0 && matches!(tr, Tr::Copy | Tr::Hash | Tr::PartialEq | Tr::PartialOrd | Tr::Eq | Tr::Ord) {
                    return Can::No;
                }
                if tr == Tr::Default && len > 32 {
                    return Can::Manually;
                }
                Can::Yes
            }
            Ty::Named(k) => match &self.p.decls[*k] {
                Decl::Comp(c) => {
                    let name = self.p.decls[*k].rust_name().unwrap_or_default();
                    if self.o.excludes(Self::excl_index(tr), &name) {
                        Can::No
                    } else {
                        self.comp(c, tr)
                    }
                }
                Decl::Enum(_) => {
                    if tr == Tr::Default {
                        Can::No
                    } else {
                        Can::Yes
                    }
                }
                Decl::Typedef { ty, .. } => self.ty(ty, tr),
                _ => Can::Yes,
            },
        }
    }
    fn comp(&self, c: &Comp, tr: Tr) -> Can {
        if c.is_union && tr != Tr::Copy {
            return Can::No;
        }
        let mut r = Can::Yes;
        for f in &c.fields {
            let x = if f.bits.is_some() {
                Can::Yes
            } else {
                match &f.ty {
                    FieldTy::Ty(t) => self.ty(t, tr),
                    FieldTy::Inline(ic) => self.comp(ic, tr),
                }
            };
            r = join(r, x);
        }
        r
    }
    fn has_float_ty(&self, t: &Ty) -> bool {
        match t {
            Ty::Prim(p) => matches!(p, Prim::Float | Prim::Double | Prim::LongDouble),
            Ty::Array { of, .. } => self.has_float_ty(of),
            Ty::Named(k) => match &self.p.decls[*k] {
                Decl::Comp(c) => self.has_float(c),
                Decl::Typedef { ty, .. } => self.has_float_ty(ty),
                _ => false,
            },
            _ => false,
        }
    }
    fn has_float(&self, c: &Comp) -> bool {
        c.fields.iter().any(|f| match &f.ty {
            FieldTy::Ty(t) => f.bits.is_none() && self.has_float_ty(t),
            FieldTy::Inline(ic) => self.has_float(ic),
        })
    }
    /// Is `tr` expected on the top-level comp `name`? None = the rules leave it to details the
    /// model does not carry (reported as undetermined, not compared).
    fn expected(&self, name: &str, c: &Comp, tr: Tr) -> Option<bool> {
        let o = self.o;
        let copy_ok = o.copy && self.comp(c, Tr::Copy) == Can::Yes && !o.excludes(0, name);
        if tr == Tr::Copy {
            return Some(copy_ok);
        }
        // hand-written impls do not depend on the derive list
        if tr == Tr::Default {
            return Some(o.default && !o.excludes(2, name));
        }
        let packed_without_copy = c.packed && !copy_ok;
        if c.pragma_pack.is_some() && !copy_ok {
            // whether the pragma makes the Rust type packed depends on the member alignments
            return None;
        }
        let can = self.comp(c, tr);
        let can_peq = self.comp(c, Tr::PartialEq);
        Some(match tr {
            Tr::Debug => o.debug && !o.excludes(1, name) && ((can == Can::Yes && !packed_without_copy) || o.impl_debug),
            Tr::Hash => o.hash && can == Can::Yes && !o.excludes(3, name) && !packed_without_copy,
            Tr::PartialEq => o.partialeq && can_peq == Can::Yes && !o.excludes(4, name) && !packed_without_copy,
            Tr::PartialOrd => o.partialord && can_peq == Can::Yes && !o.excludes(4, name) && !packed_without_copy,
            Tr::Eq => o.eq && can_peq == Can::Yes && !self.has_float(c) && !o.excludes(4, name) && !packed_without_copy,
            Tr::Ord => o.ord && can_peq == Can::Yes && !self.has_float(c) && !o.excludes(4, name) && !packed_without_copy,
            Tr::Copy | Tr::Default => unreachable!(),
        })
    }
}

const PROBE_PRELUDE: &str = r#"
use ::core::marker::PhantomData;
pub struct Has<T>(pub PhantomData<T>);
pub trait Fallback {
    fn t_copy(&self) -> bool { false }
    fn t_clone(&self) -> bool { false }
    fn t_debug(&self) -> bool { false }
    fn t_default(&self) -> bool { false }
    fn t_hash(&self) -> bool { false }
    fn t_partialeq(&self) -> bool { false }
    fn t_partialord(&self) -> bool { false }
    fn t_eq(&self) -> bool { false }
    fn t_ord(&self) -> bool { false }
    fn b_default(&self, _offs: &[(usize, usize)]) -> Option<bool> { None }
    fn b_debug(&self) -> Option<bool> { None }
    fn b_eq(&self, _offs: &[(usize, usize)]) -> Option<String> { None }
}
impl<T> Fallback for Has<T> {}
impl<T: Copy> Has<T> { pub fn t_copy(&self) -> bool { true } }
impl<T: Clone> Has<T> { pub fn t_clone(&self) -> bool { true } }
impl<T: ::core::fmt::Debug> Has<T> {
    pub fn t_debug(&self) -> bool { true }
    pub fn b_debug(&self) -> Option<bool> {
        // a frame holding a huge T would overflow the stack on entry: decide before calling
        if ::core::mem::size_of::<T>() > (1 << 20) { None } else { self.b_debug_inner() }
    }
    #[inline(never)]
    fn b_debug_inner(&self) -> Option<bool> {
        let v: T = unsafe { ::core::mem::zeroed() };
        let r = ::std::panic::catch_unwind(::std::panic::AssertUnwindSafe(|| format!("{:?}", v).len()));
        ::core::mem::forget(v);
        Some(r.is_ok())
    }
}
impl<T: Default> Has<T> {
    pub fn t_default(&self) -> bool { true }
    /// every member is all-zero (padding cannot be observed after the value has been moved)
    pub fn b_default(&self, offs: &[(usize, usize)]) -> Option<bool> {
        if ::core::mem::size_of::<T>() > (1 << 20) { None } else { self.b_default_inner(offs) }
    }
    #[inline(never)]
    fn b_default_inner(&self, offs: &[(usize, usize)]) -> Option<bool> {
        let v = T::default();
        let bytes = unsafe { ::core::slice::from_raw_parts(&v as *const T as *const u8, ::core::mem::size_of::<T>()) };
        let ok = offs.iter().all(|(o, s)| bytes[*o..*o + *s].iter().all(|b| *b == 0));
        ::core::mem::forget(v);
        Some(ok)
    }
}
impl<T: ::core::hash::Hash> Has<T> { pub fn t_hash(&self) -> bool { true } }
impl<T: PartialEq> Has<T> {
    pub fn t_partialeq(&self) -> bool { true }
    /// zeroed objects are equal; changing one byte inside any member makes them unequal
    pub fn b_eq(&self, offs: &[(usize, usize)]) -> Option<String> {
        if ::core::mem::size_of::<T>() > (1 << 20) { None } else { self.b_eq_inner(offs) }
    }
    #[inline(never)]
    fn b_eq_inner(&self, offs: &[(usize, usize)]) -> Option<String> {
        let a: T = unsafe { ::core::mem::zeroed() };
        let mut b: T = unsafe { ::core::mem::zeroed() };
        let mut bad = String::new();
        if !(a == b) { bad.push_str("zeroed-objects-differ "); }
        for (k, (off, size)) in offs.iter().enumerate() {
            if *size == 0 { continue; }
            unsafe {
                let p = (&mut b as *mut T as *mut u8).add(*off);
                *p ^= 1;
                if a == b { bad.push_str(&format!("member{}-change-not-seen ", k)); }
                *p ^= 1;
            }
        }
        ::core::mem::forget(a);
        ::core::mem::forget(b);
        Some(bad)
    }
}
impl<T: PartialOrd> Has<T> { pub fn t_partialord(&self) -> bool { true } }
impl<T: Eq> Has<T> { pub fn t_eq(&self) -> bool { true } }
impl<T: Ord> Has<T> { pub fn t_ord(&self) -> bool { true } }
"#;

impl Property for C08 {
    type Case = Case;
    fn id(&self) -> &'static str {
        "C08"
    }
    fn rule(&self) -> String {
        "generated C type graphs (C02 generator: scalars incl. floats, pointers, function pointers with up to 14 parameters, arrays below and above 32 elements incl. nested, zero-length and flexible arrays, bit-fields, nested/anonymous structs and unions, enums, typedef chains, packed/aligned/pragma-pack) x a random subset of the 10 derive/impl options x 0..2 per-type exclusions (--no-copy/debug/default/hash/partialeq on a generated type). For every top-level struct/union and each of Copy(+Clone), Debug, Default, Hash, PartialEq, PartialOrd, Eq, Ord the expected presence comes from a direct recursive specification over the model; the observed presence from rustc. Behaviour: default() leaves every member all-zero, fmt() does not panic on a zeroed object, == holds for two zeroed objects and fails after one byte of any member changes. Non-trivial = a type for which at least one trait is expected present and one absent for a member-dependent reason; distinct by (type text, options)".into()
    }
    fn assumptions(&self) -> Vec<String> {
        vec![
            "latest Rust target (arrays of any length implement every trait but Default); C only: destructors and vtables of the statement are C++ (C10's C++ branch and C07 exercise those analyses)".into(),
            "a type under #pragma pack that is not Copy is not compared (whether it becomes repr(packed) depends on member alignments the model does not compute)".into(),
            "cases whose plain bindings do not compile (C01's known findings) are not compared".into(),
        ]
    }
    fn strategy(&self, _tier: Tier) -> BoxedStrategy<Case> {
        let cfg = GenCfg { keyword_names: false, ..GenCfg::data_types() };
        (program_strategy(cfg), any::<u16>(), proptest::collection::vec((0u8..5, any::<u16>()), 0..3), proptest::bool::weighted(0.3))
            .prop_map(|(prog, bits, exclusions, fn_typedefs)| Case { prog, option_bits: bits & ((1 << OPTION_BITS.len()) - 1), exclusions, keep_known: false, fn_typedefs })
            .boxed()
    }
    fn generated(&self, tier: Tier) -> usize {
        tier.pick(1200, 20000)
    }
    fn shrink_steps(&self) -> usize {
        60
    }
    fn max_shrunk_signatures(&self) -> usize {
        4
    }
    fn evaluate(&self, case: &Case, env: &Env) -> Outcome {
        let mut out = Outcome::new();
        out.evaluations = 0;
        let mut prog = case.prog.clone();
        prog.normalise();
        if !case.keep_known {
            out.excluded_known += prog.strip_unrepresentable();
        }
        let mut bits = case.option_bits;
        // known C01 finding (derives through packed members that are not Copy): without Copy
        // nothing is packed here (counted), so that the rest of the derive rules stay testable
        if !case.keep_known && (bits & (1 << 6) != 0 || case.exclusions.iter().any(|(w, _)| w % 5 == 0)) {
            // only types that are members of other types matter for that finding: a packed type
            // that nothing contains by value keeps its packing (then it must derive nothing)
            fn unpack(c: &mut Comp, n: &mut usize, top: bool, used: bool) {
                if (!top || used) && (c.packed || c.pragma_pack.is_some()) {
                    c.packed = false;
                    c.pragma_pack = None;
                    *n += 1;
                }
                for f in c.fields.iter_mut() {
                    if let FieldTy::Inline(ic) = &mut f.ty {
                        unpack(ic, n, false, true);
                    }
                }
            }
            fn uses(c: &Comp, out: &mut std::collections::BTreeSet<usize>) {
                for f in &c.fields {
                    match &f.ty {
                        FieldTy::Ty(t) => t.named_refs(out, true),
                        FieldTy::Inline(ic) => uses(ic, out),
                    }
                }
            }
            let mut used = std::collections::BTreeSet::new();
            for d in prog.decls.iter() {
                match d {
                    Decl::Comp(c) => uses(c, &mut used),
                    Decl::Typedef { ty, .. } => ty.named_refs(&mut used, true),
                    _ => {}
                }
            }
            let mut k = 0usize;
            for (i, d) in prog.decls.iter_mut().enumerate() {
                if let Decl::Comp(c) = d {
                    unpack(c, &mut k, true, used.contains(&i));
                }
            }
            out.excluded_known += k;
        }
        let mut header = prog.render();
        if case.fn_typedefs {
            let (h, n) = spell_fn_pointers_through_typedefs(&header);
            header = h;
            if n > 0 {
                out.class("function-pointer-members-through-function-typedefs");
            }
        }
        std::fs::write(env.dir.join("in.h"), &header).ok();
        // ---- options
        // Eq needs PartialEq, Ord needs PartialOrd + Eq (user-side precondition of the derives)
        let has = |b: u16, k: usize| b & (1 << k) != 0;
        if has(bits, 3) {
            bits |= 1 << 2;
        }
        if has(bits, 5) {
            bits |= (1 << 4) | (1 << 3) | (1 << 2);
        }
        if has(bits, 4) {
            bits |= 1 << 2;
        }
        let mut flags: Vec<String> = vec!["--no-include-path-detection".into(), "--formatter=none".into(), "--no-layout-tests".into()];
        for (k, f) in OPTION_BITS.iter().enumerate() {
            if has(bits, k) {
                flags.push(f.to_string());
            }
        }
        let mut o = Opts { default: has(bits, 0), hash: has(bits, 1), partialeq: has(bits, 2), eq: has(bits, 3), partialord: has(bits, 4), ord: has(bits, 5), copy: !has(bits, 6), debug: !has(bits, 7), impl_debug: has(bits, 8), ..Default::default() };
        let comps: Vec<usize> = (0..prog.decls.len()).filter(|i| matches!(prog.decls[*i], Decl::Comp(_))).collect();
        if comps.is_empty() {
            return out;
        }
        for (which, pick) in &case.exclusions {
            let i = comps[(*pick as usize * comps.len()) >> 16];
            let name = prog.decls[i].rust_name().unwrap_or_default();
            let w = *which as usize % 5;
            if o.excluded[w].insert(name.clone()) {
                flags.push(EXCLUSION_FLAGS[w].to_string());
                flags.push(name);
            }
        }
        // ---- bindings
        let input = BgInput { files: vec![], headers: vec!["in.h".into()], flags: flags.clone(), clang_args: vec!["-std=gnu11".into()], callbacks: vec![] };
        let text = match bg::generate(&input, &env.dir) {
            BgResult::Ok(t) => t,
            other => return out.inconclusive(format!("generation: {}\n{header}", other.describe())),
        };
        out.evaluations += 1;
        let inv: Inventory = match rs::inventory(&text) {
            Ok(i) => i,
            Err(e) => return out.inconclusive(format!("unparseable: {e}")),
        };
        std::fs::write(env.dir.join("b.rs"), &text).ok();
        // ---- probe
        let mut src = String::from("#![allow(warnings)]\ninclude!(\"b.rs\");\n");
        src.push_str(PROBE_PRELUDE);
        src.push_str("fn main() { ::std::thread::Builder::new().stack_size(1 << 30).spawn(real_main).unwrap().join().unwrap(); }\nfn real_main() {\n");
        let mut probed: Vec<(usize, String)> = vec![];
        for i in &comps {
            let name = prog.decls[*i].rust_name().unwrap_or_default();
            let Some(item) = inv.items.iter().find(|x| (x.kind == "struct" || x.kind == "union") && x.name == name && x.module.is_empty()) else { continue };
            if !item.generics.is_empty() {
                // flexible-array DSTs: not a plain type
                continue;
            }
            // an opaque fallback is decided by layout, not by members
            if item.fields.iter().any(|f| f.name == "_bindgen_opaque_blob") {
                out.class("opaque-fallback (not compared)");
                continue;
            }
            let offs: Vec<String> = item
                .fields
                .iter()
                .filter(|f| !f.name.starts_with("__bindgen_padding") && f.name != "_bindgen_align")
                // members of struct/union type have padding of their own, which cannot be observed
                // after a move: only scalar, pointer and array-of-scalar members are byte-checked
                .filter(|f| {
                    // (through type aliases: `typedef struct S {..} S_t;` members are aggregates too)
                    let mut el = crate::probe::element_type(&f.ty);
                    for _ in 0..8 {
                        match inv.items.iter().find(|x| x.kind == "type" && x.name == el && x.module.is_empty()) {
                            Some(a) => el = crate::probe::element_type(&a.ty),
                            None => break,
                        }
                    }
                    el.starts_with("__Bindgen") || !inv.items.iter().any(|x| (x.kind == "struct" || x.kind == "union") && x.name == el)
                })
                .map(|f| format!("(::core::mem::offset_of!({name}, {n}), {{ fn sz<T, U>(_: fn(&T) -> &U) -> usize {{ ::core::mem::size_of::<U>() }} sz(|x: &{name}| &x.{n}) }})", n = crate::probe::raw_ident(&f.name)))
                .collect();
            let is_packed = item.reprs.iter().any(|r| r.contains("packed"));
            // references to packed fields are not allowed: measure sizes through offsets only
            let offs = if is_packed || item.kind == "union" { vec![] } else { offs };
            src.push_str(&format!(
                "  {{ let h = Has::<{name}>(PhantomData); println!(\"T {i} {{}} {{}} {{}} {{}} {{}} {{}} {{}} {{}} {{}}\", h.t_copy(), h.t_clone(), h.t_debug(), h.t_default(), h.t_hash(), h.t_partialeq(), h.t_partialord(), h.t_eq(), h.t_ord()); println!(\"B {i} {{:?}} {{:?}} {{:?}}\", h.b_default(&[{0}]), h.b_debug(), h.b_eq(&[{0}])); }}\n",
                offs.join(", ")
            ));
            probed.push((*i, name));
        }
        src.push_str("}\n");
        std::fs::write(env.dir.join("p.rs"), &src).ok();
        let rc = tools::Rustc { dir: &env.dir, edition: "2021", nightly: false };
        let o_build = match rc.build_exe("p.rs", "p.exe", &[], false) {
            Ok(x) => x,
            Err(e) => return out.inconclusive(format!("rustc: {e}")),
        };
        let ctx = |what: &str| format!("{what}\nflags {:?}\n--- header ---\n{header}", &flags[3..]);
        if !o_build.ok() {
            // soundness of derives is what rustc just judged: a derive through a member that lacks
            // the trait does not compile. C01's known classes are not this check's subject.
            let (code, class) = crate::props::c01::error_class(&o_build.stderr);
            let known_c01 = crate::engine::known_sigs("C01").iter().any(|s| s.contains(&format!("/{code}/")) && s.ends_with(&class));
            if known_c01 && !case.keep_known {
                out.excluded_known += 1;
                out.class("bindings-do-not-compile (C01 known class)");
                return out;
            }
            out.fail(format!("derive-does-not-compile/{code}/{class}"), ctx(&o_build.stderr.chars().take(1500).collect::<String>()));
            return out;
        }
        let run = match tools::run_exe(&env.dir, "p.exe", &[], 60) {
            Ok(r) if r.ok() => r,
            Ok(r) => {
                out.fail("probe-crashed", ctx(&format!("status {:?} signal {:?}: {}", r.status, r.signal, r.stderr.chars().take(400).collect::<String>())));
                return out;
            }
            Err(e) => return out.inconclusive(format!("probe: {e}")),
        };
        // ---- compare
        let spec = Spec { p: &prog, o: &o };
        let mut observed: BTreeMap<usize, Vec<bool>> = BTreeMap::new();
        let mut behaviour: BTreeMap<usize, String> = BTreeMap::new();
        for l in run.stdout.lines() {
            let w: Vec<&str> = l.splitn(3, ' ').collect();
            if w.len() < 3 {
                continue;
            }
            let i: usize = w[1].parse().unwrap_or(usize::MAX);
            if w[0] == "T" {
                observed.insert(i, w[2].split(' ').map(|x| x == "true").collect());
            } else {
                behaviour.insert(i, w[2].to_string());
            }
        }
        for (i, name) in &probed {
            let Decl::Comp(c) = &prog.decls[*i] else { continue };
            let Some(obs) = observed.get(i) else { continue };
            // obs: copy clone debug default hash partialeq partialord eq ord
            let get = |tr: Tr| match tr {
                Tr::Copy => obs[0] && obs[1],
                Tr::Debug => obs[2],
                Tr::Default => obs[3],
                Tr::Hash => obs[4],
                Tr::PartialEq => obs[5],
                Tr::PartialOrd => obs[6],
                Tr::Eq => obs[7],
                Tr::Ord => obs[8],
            };
            let mut some_present = false;
            let mut some_absent_by_member = false;
            for tr in TRAITS {
                let Some(want) = spec.expected(name, c, *tr) else {
                    out.class("undetermined (pragma pack without Copy)");
                    continue;
                };
                let got = get(*tr);
                out.class(format!("{tr:?}:{}", if want { "expected" } else { "not-expected" }));
                if want {
                    some_present = true;
                } else if spec.comp(c, *tr) != Can::Yes {
                    some_absent_by_member = true;
                }
                if want != got {
                    let why = if c.is_union {
                        "union"
                    } else if c.packed {
                        "packed"
                    } else {
                        "struct"
                    };
                    out.fail(format!("{}/{tr:?}/{why}", if want { "withheld" } else { "unexpected" }), ctx(&format!("`{name}`: {tr:?} expected {want}, observed {got} (model: can = {:?}, has_float = {})", spec.comp(c, *tr), spec.has_float(c))));
                }
            }
            if let Some(b) = behaviour.get(i) {
                // "Some(true) Some(true) Some(\"\")"
                // only a hand-written Default promises zeroed padding; a derived one sets the members
                let manual_default = inv.items.iter().any(|x| x.kind == "impl" && x.impl_self.trim() == name.as_str() && x.impl_trait.replace(' ', "").ends_with("Default"));
                if b.starts_with("Some(false)") && manual_default {
                    out.fail("behaviour/default-not-zero", ctx(&format!("`{name}`: default() is not all-zero bytes")));
                }
                let parts: Vec<&str> = b.splitn(3, ' ').collect();
                if parts.get(1) == Some(&"Some(false)") {
                    out.fail("behaviour/debug-panics", ctx(&format!("`{name}`: fmt() panicked on a zeroed object")));
                }
                if let Some(eqs) = parts.get(2) {
                    if eqs.starts_with("Some(\"") && !eqs.starts_with("Some(\"\")") {
                        out.fail("behaviour/partialeq", ctx(&format!("`{name}`: {eqs}")));
                    }
                }
            }
            if some_present && some_absent_by_member {
                out.nontrivial(format!("{:x}", fnv(&format!("{:?}{:?}", c, &flags[3..]))));
            }
        }
        out.sample = Some(json!({"header": header, "flags": &flags[3..]}));
        out
    }
}
