//! C12 — generation always ends with bindings or an error value, never a panic.
//! G-MUT mutants of repository headers classified by `clang -fsyntax-only`, deep nesting
//! families, option sets, path faults, unsupported edition/target pairs; every generation
//! runs in an isolated worker (panic, abort, stack overflow and hang are observable).

use crate::bg::BgInput;
use crate::corpus;
use crate::engine::{fnv, Env, Outcome, Property, Tier};
use crate::mutate::{self, Edit};
use crate::props::c13::{self, Op};
use crate::tools;
use crate::worker::{self, Reply, ServerIo};
use proptest::prelude::*;
use serde::{Deserialize, Serialize};
use serde_json::{json, Value};
use std::path::Path;
use std::sync::Mutex;

/// coverage-guided stage (thorough tier): cases flagged by the libFuzzer campaign and its statistics
static FUZZ_CASES: Mutex<Vec<Case>> = Mutex::new(Vec::new());
static FUZZ_STATS: Mutex<Option<Value>> = Mutex::new(None);

pub struct C12;

#[derive(Clone, Debug, Serialize, Deserialize)]
pub enum Case {
    /// mutant of a repository header (empty edit list = the header as written)
    Mut { header: String, edits: Vec<Edit>, splice_from: Option<String> },
    /// deep nesting family
    Nest { family: String, depth: u32, cpp: bool },
    /// repository header under extra builder calls
    Opts { header: String, ops: Vec<Op> },
    /// file-system fault on the input path
    PathFault { kind: String },
    /// (rust target, edition)
    Edition { target: String, edition: String },
    /// free-form header text (replay of fuzz findings)
    Text { name: String, text: String, flags: Vec<String>, clang_args: Vec<String> },
}

pub const NEST_FAMILIES: &[&str] = &["struct", "anon-struct", "union", "pointer", "array", "template", "typedef", "namespace", "paren", "fnptr", "inherit", "nested-class", "enum-in-struct", "array-of-struct"];

pub fn nest_text(family: &str, depth: u32) -> String {
    let d = depth as usize;
    let mut s = String::new();
    match family {
        "struct" => {
            for i in 0..d {
                s.push_str(&format!("struct N{i} {{ int a{i}; "));
            }
            for i in (0..d).rev() {
                s.push_str(&format!("}} m{i}; "));
            }
            // close: the outermost needs `;` not a member name
            s = s.trim_end().trim_end_matches(&format!("m0;")).to_string();
            s.push_str(";\n");
        }
        "anon-struct" | "union" => {
            let kw = if family == "union" { "union" } else { "struct" };
            s.push_str("struct Top { ");
            for i in 0..d {
                s.push_str(&format!("{kw} {{ int a{i}; "));
            }
            for _ in 0..d {
                s.push_str("}; ");
            }
            s.push_str("};\n");
        }
        "pointer" => {
            s.push_str(&format!("int {}p;\nstruct S {{ char {}q; }};\n", "*".repeat(d), "*".repeat(d)));
        }
        "array" => {
            let dims = "[2]".repeat(d.min(60));
            s.push_str(&format!("extern char a{dims};\nstruct S {{ char m{}; }};\n", "[1]".repeat(d)));
        }
        "template" => {
            s.push_str("template<class T> struct W { T t; };\n");
            let mut ty = "int".to_string();
            for _ in 0..d {
                ty = format!("W<{ty} >");
            }
            s.push_str(&format!("struct Use {{ {ty} m; }};\n"));
        }
        "typedef" => {
            s.push_str("typedef int T0;\n");
            for i in 1..=d {
                s.push_str(&format!("typedef T{} T{i};\n", i - 1));
            }
            s.push_str(&format!("struct S {{ T{d} m; T{d} *p; }};\n"));
        }
        "namespace" => {
            for i in 0..d {
                s.push_str(&format!("namespace n{i} {{ "));
            }
            s.push_str("struct Deep { int x; }; int f(Deep*);");
            for _ in 0..d {
                s.push_str(" }");
            }
            s.push('\n');
        }
        "paren" => {
            s.push_str(&format!("int {}x{};\n", "(".repeat(d), ")".repeat(d)));
            s.push_str(&format!("int {}f{}(int);\n", "(".repeat(d), ")".repeat(d)));
        }
        "fnptr" => {
            // function returning pointer to function returning ...
            let mut decl = "f(int)".to_string();
            for _ in 0..d.min(80) {
                decl = format!("(*{decl})(int)");
            }
            s.push_str(&format!("int {decl};\n"));
        }
        "inherit" => {
            s.push_str("struct B0 { int x0; virtual void v0(); };\n");
            for i in 1..=d {
                s.push_str(&format!("struct B{i} : B{} {{ int x{i}; }};\n", i - 1));
            }
        }
        "nested-class" => {
            for i in 0..d {
                s.push_str(&format!("class C{i} {{ public: int a{i}; "));
            }
            for _ in 0..d {
                s.push_str("}; ");
            }
            s.push('\n');
        }
        "enum-in-struct" => {
            for i in 0..d {
                s.push_str(&format!("struct E{i} {{ enum {{ K{i} = {i} }} e{i}; "));
            }
            for i in (0..d).rev() {
                if i == 0 {
                    s.push_str("};");
                } else {
                    s.push_str(&format!("}} m{i}; "));
                }
            }
            s.push('\n');
        }
        _ => {
            // array-of-struct
            s.push_str("struct A0 { int x; };\n");
            for i in 1..=d {
                s.push_str(&format!("struct A{i} {{ struct A{} a[2]; }};\n", i - 1));
            }
        }
    }
    s
}

fn family_is_cpp(f: &str) -> bool {
    matches!(f, "template" | "namespace" | "inherit" | "nested-class")
}

// ---------------------------------------------------------------------------------------------
// worker: generic generation request

pub fn worker_gen(req: &Value, _io: &mut ServerIo) -> Value {
    let dir = Path::new(req["dir"].as_str().unwrap()).to_path_buf();
    let input: BgInput = match serde_json::from_value(req["input"].clone()) {
        Ok(c) => c,
        Err(e) => return json!({"error": format!("bad input: {e}")}),
    };
    let ops: Vec<Op> = serde_json::from_value(req["ops"].clone()).unwrap_or_default();
    std::fs::create_dir_all(&dir).ok();
    let _ = std::env::set_current_dir(&dir);
    let mut b = match crate::bg::builder_for(&input, &dir) {
        Ok(b) => b,
        Err(e) => return json!({"error": e}),
    };
    for op in &ops {
        if matches!(op, Op::Header(_)) {
            c13::write_extra_headers(&dir);
        }
        let r = std::panic::catch_unwind(std::panic::AssertUnwindSafe(|| c13::apply(b.clone(), op, &dir)));
        b = match r {
            Ok(Ok(x)) => x,
            Ok(Err(e)) => return json!({"error": format!("apply: {e}")}),
            Err(_) => return json!({"k": "panic", "v": format!("builder method {op:?}: {}", crate::bg::take_last_panic().unwrap_or_default())}),
        };
    }
    match crate::bg::generate_with(b) {
        crate::bg::BgResult::Ok(s) => json!({"k": "ok", "v": s.len()}),
        crate::bg::BgResult::Err(s) => json!({"k": "err", "v": s}),
        crate::bg::BgResult::Panic(s) => json!({"k": "panic", "v": s}),
    }
}

// ---------------------------------------------------------------------------------------------

fn panic_sig(p: &str) -> String {
    // "/repo/bindgen/codegen/mod.rs:123: message" -> file + message skeleton (no line numbers,
    // no quoted input fragments), so that the signature names the panic site, not the input
    let loc = p.split(": ").next().unwrap_or("?");
    let loc = loc.rsplit("/repo/").next().unwrap_or(loc);
    let file = loc.split(':').next().unwrap_or(loc);
    let msg = p.splitn(2, ": ").nth(1).unwrap_or("");
    let mut skeleton = String::new();
    let mut in_quote = false;
    for c in msg.chars() {
        if c == '"' || c == '`' {
            in_quote = !in_quote;
            continue;
        }
        if !in_quote && !c.is_ascii_digit() {
            skeleton.push(c);
        }
    }
    // the same panic site, different root cause: a C identifier with characters Rust has no
    // identifier syntax for (clang 14 follows C11 Annex D, Rust follows UAX #31)
    let class = if msg.contains("is not a valid Ident") && !msg.is_ascii() { "/non-ascii-identifier" } else { "" };
    format!("{file}/{}{class}", skeleton.split_whitespace().take(6).collect::<Vec<_>>().join("-"))
}

/// Options the property excludes: they are documented to need a cooperating callback.
fn strip_excluded(flags: &mut Vec<String>) {
    flags.retain(|f| f != "--represent-cxx-operators" && f != "--use-distinct-char16-t");
}

fn err_kind(e: &str) -> &str {
    for k in ["ClangDiagnostic", "NotExist", "FolderAsHeader", "InsufficientPermissions", "UnsupportedEdition", "Codegen"] {
        if e.starts_with(k) {
            return k;
        }
    }
    "other"
}

fn ops_strategy() -> BoxedStrategy<Vec<Op>> {
    let safe = c13::op_strategy().prop_filter("C12 option domain", |op| match op {
        // the property's own exclusion
        Op::Bool(m, _) if m == "represent_cxx_operators" || m == "use_distinct_char16_t" => false,
        // a second input header would become the main file and decide the language
        Op::Header(_) => false,
        // values pasted as Rust tokens / attributes / paths: user-code preconditions
        Op::Str(m, v) => {
            let pasted = matches!(m.as_str(), "ctypes_prefix" | "anon_fields_prefix" | "raw_line" | "extern_fn_block_attrs" | "wasm_import_module_name" | "dynamic_library_name" | "wrap_static_fns_suffix");
            if pasted {
                // identifiers (a path only where a path is documented: ctypes_prefix)
                let ident = |s: &str| !s.is_empty() && s.chars().all(|c| c.is_ascii_alphanumeric() || c == '_') && !s.chars().next().unwrap().is_ascii_digit();
                match m.as_str() {
                    "raw_line" | "extern_fn_block_attrs" => false,
                    "ctypes_prefix" => v.trim_start_matches("::").split("::").all(ident),
                    _ => ident(v),
                }
            } else {
                // regexes: valid regular expressions only
                regex::Regex::new(v).is_ok()
            }
        }
        Op::ModuleRawLine(m, _) => m.chars().all(|c| c.is_ascii_alphanumeric() || c == '_' || c == ':'),
        Op::FieldAttr(_, _, a) => a.starts_with("#["),
        Op::OverrideAbi(_, r) => regex::Regex::new(r).is_ok(),
        Op::Nullary(m) if m == "emit_diagnostics" => false,
        // both need crates/side files that only matter for compiling, harmless here
        Op::Depfile(..) | Op::RustfmtConfig(_) => false,
        _ => true,
    });
    proptest::collection::vec(safe, 1..10).boxed()
}

impl C12 {
    fn run_gen(&self, input: &BgInput, ops: &[Op], env: &Env) -> Result<Value, String> {
        let req = json!({"op": "gen", "dir": env.dir.to_str().unwrap(), "input": input, "ops": ops});
        match worker::call(&req, 30) {
            Reply::Ok(v) => Ok(v),
            Reply::Timeout => match worker::call(&req, 300) {
                Reply::Ok(v) => Ok(v),
                Reply::Timeout => Err("timeout: generation still running after 300 s (inconclusive: a bounded wait cannot establish 'forever')".into()),
                Reply::Died { status, signal, stderr, .. } => Ok(json!({"k": "died", "status": status, "signal": signal, "stderr": stderr})),
            },
            Reply::Died { status, signal, stderr, .. } => Ok(json!({"k": "died", "status": status, "signal": signal, "stderr": stderr})),
        }
    }

    /// Returns false when the evaluation must stop (inconclusive set).
    fn judge(&self, v: &Value, accepted: Option<(bool, String)>, ctx: &str, out: &mut Outcome) {
        match v["k"].as_str().unwrap_or("?") {
            "panic" => {
                let p = v["v"].as_str().unwrap_or("");
                out.fail(format!("panic/{}", panic_sig(p)), format!("{ctx}: panicked at {p}"));
            }
            "died" => {
                let stderr = v["stderr"].as_str().unwrap_or("");
                let sig = v["signal"].as_i64();
                let what = if stderr.contains("stack overflow") || sig == Some(11) {
                    "stack-overflow-or-segv"
                } else if sig == Some(6) {
                    "abort"
                } else if sig == Some(8) {
                    // Rust arithmetic panics instead of trapping: SIGFPE comes from C code (libclang)
                    "sigfpe"
                } else {
                    "exit"
                };
                // a crash inside libclang itself is not bindgen's: attribute by the abort text
                if stderr.contains("LLVM ERROR") || stderr.contains("PLEASE submit a bug report") || stderr.contains("libclang: crash detected") {
                    out.inconclusive = Some(format!("{ctx}: libclang crashed: {}", stderr.chars().take(300).collect::<String>()));
                    out.class("libclang-crash");
                    return;
                }
                out.fail(format!("process-died/{what}"), format!("{ctx}: status {:?} signal {:?}: {}", v["status"], v["signal"], stderr.chars().take(600).collect::<String>()));
            }
            "ok" => {
                if let Some((false, first)) = &accepted {
                    out.fail("rejected-by-clang-but-bindings-produced", format!("{ctx}: clang: {first}"));
                }
            }
            "err" => {
                let e = v["v"].as_str().unwrap_or("");
                let kind = err_kind(e);
                match &accepted {
                    Some((true, _)) => {
                        if kind == "ClangDiagnostic" && (e.contains("file not found") || e.contains("unknown argument") || e.contains("unsupported option")) {
                            out.inconclusive = Some(format!("{ctx}: include/argument environment differs between clang and libclang: {}", e.chars().take(200).collect::<String>()));
                        } else {
                            out.fail(format!("accepted-by-clang-but-error/{kind}"), format!("{ctx}: {}", e.chars().take(500).collect::<String>()));
                        }
                    }
                    Some((false, first)) => {
                        if kind != "ClangDiagnostic" {
                            out.fail(format!("rejected-header-wrong-error-kind/{kind}"), format!("{ctx}: {e}"));
                        } else {
                            // the error value must carry clang's diagnostic text
                            let msg = first.splitn(2, "error: ").nth(1).unwrap_or("").trim();
                            let unescaped = e.replace("\\\"", "\"").replace("\\'", "'").replace("\\\\", "\\");
                            if !msg.is_empty() && !unescaped.contains(msg) && !e.contains(msg) {
                                out.class("diagnostic-text-differs-from-clang-binary");
                            }
                            if e.len() < "ClangDiagnostic(\"\")".len() + 3 {
                                out.fail("rejected-header-empty-diagnostic", format!("{ctx}: {e}"));
                            }
                        }
                    }
                    None => {}
                }
            }
            _ => {}
        }
    }
}

impl Property for C12 {
    type Case = Case;
    fn id(&self) -> &'static str {
        "C12"
    }
    fn rule(&self) -> String {
        "fixed: every repository header as written; 14 deep-nesting families at depths {10,50,100,150,200}; path faults (missing, directory, mode 000, dangling symlink, empty file, symlink loop); every (target, edition) pair at the edition boundaries. generated: token/line mutants (1..6 edits: delete, duplicate, swap, identifier/keyword/literal substitution, splice from another header, range deletion) of repository headers, classified by `clang -fsyntax-only -nostdlibinc` with the same arguments; repository headers under 1..9 random builder calls from the option space (C13 table minus the property's exclusions, syntactically valid pasted values). Non-trivial = an accepted mutant differing from its seed in a non-comment token, any rejected mutant, or nesting depth >= 50; distinct by text hash".into()
    }
    fn assumptions(&self) -> Vec<String> {
        vec![
            "the clang 14 binary classifies headers the way libclang 14 does (same front end); disagreements about missing include files are reported as inconclusive".into(),
            "a generation that exceeds 300 s is inconclusive, not a violation".into(),
            "crashes inside libclang (LLVM crash banner) are recorded separately as inconclusive".into(),
        ]
    }
    fn parallelism(&self) -> usize {
        16
    }
    fn strategy(&self, _tier: Tier) -> BoxedStrategy<Case> {
        let names: Vec<String> = corpus::load_all().into_iter().map(|h| h.name).collect();
        let n = names.len();
        let names2 = names.clone();
        let names3 = names.clone();
        prop_oneof![
            8 => (0..n, proptest::collection::vec(mutate::edit_strategy(), 1..7), 0..n).prop_map(move |(h, edits, s)| {
                let uses_splice = edits.iter().any(|e| matches!(e, Edit::Splice { .. }));
                Case::Mut { header: names[h].clone(), edits, splice_from: if uses_splice { Some(names2[s].clone()) } else { None } }
            }),
            2 => (0..n, ops_strategy()).prop_map(move |(h, ops)| Case::Opts { header: names3[h].clone(), ops }),
            3 => (any::<bool>(), proptest::collection::vec(any::<u16>(), 1..9), proptest::bool::weighted(0.5)).prop_map(|(cpp, picks, derives)| {
                let text = if cpp {
                    // totality also covers C++ the book calls unsupported
                    let mut t = crate::zoo::render(crate::zoo::ZOO_CPP, &picks);
                    if picks.first().map(|p| p % 5 == 0).unwrap_or(false) {
                        t.push_str(&crate::zoo::render(crate::zoo::ZOO_CPP_UNSUPPORTED, &picks[..1]).replace("0", "x9"));
                    }
                    t
                } else {
                    crate::zoo::render(crate::zoo::ZOO_C, &picks)
                };
                let mut flags: Vec<String> = vec!["--formatter=none".into(), "--no-include-path-detection".into()];
                if derives {
                    for f in ["--with-derive-default", "--with-derive-hash", "--with-derive-partialeq", "--with-derive-ord", "--impl-debug", "--impl-partialeq", "--generate-inline-functions"] {
                        flags.push(f.into());
                    }
                }
                Case::Text { name: if cpp { "zoo.hpp".into() } else { "zoo.h".into() }, text, flags, clang_args: if cpp { vec!["-std=c++17".into()] } else { vec![] } }
            }),
            1 => (0..NEST_FAMILIES.len(), 1u32..200).prop_map(|(f, depth)| Case::Nest { family: NEST_FAMILIES[f].to_string(), depth, cpp: true }),
            3 => (crate::tmplgen::tprog_strategy(), 0u8..4).prop_map(|(p, fl)| {
                let mut flags: Vec<String> = vec!["--formatter=none".into(), "--no-include-path-detection".into()];
                match fl {
                    1 => flags.push("--no-recursive-allowlist".into()),
                    2 => flags.extend(["--with-derive-default".to_string(), "--with-derive-hash".to_string(), "--with-derive-partialeq".to_string(), "--impl-debug".to_string()]),
                    3 => flags.extend(["--enable-cxx-namespaces".to_string(), "--opaque-type".to_string(), "D1".to_string()]),
                    _ => {}
                }
                Case::Text { name: "tmpl.hpp".into(), text: p.render(), flags, clang_args: vec!["-std=c++14".into()] }
            }),
        ]
        .boxed()
    }
    fn generated(&self, tier: Tier) -> usize {
        tier.pick(12000, 200000)
    }
    /// Thorough tier: a libFuzzer campaign (`/verif/fuzz_c12.sh`: header text + option selector,
    /// coverage of bindgen's own code) runs first; everything it flags becomes a `Text` case of
    /// this run and is judged by `evaluate` like any other case. BGV_FUZZ_SECS=0 skips it.
    fn prepare(&self, tier: Tier) -> Result<(), String> {
        if tier != Tier::Thorough {
            return Ok(());
        }
        let secs: u64 = std::env::var("BGV_FUZZ_SECS").ok().and_then(|s| s.parse().ok()).unwrap_or(900);
        if secs == 0 {
            return Ok(());
        }
        let out = Path::new(crate::engine::VERIF).join("work").join("fuzz-C12");
        let mut cmd = std::process::Command::new("/verif/fuzz_c12.sh");
        cmd.arg(secs.to_string()).arg("16").arg(&out);
        let o = tools::run(&mut cmd, &Path::new(crate::engine::VERIF).join("work"), secs + 1200).map_err(|e| format!("fuzz stage: {e}"))?;
        if !o.ok() {
            return Err(format!("fuzz stage failed: {}", o.stdout.chars().rev().take(300).collect::<String>().chars().rev().collect::<String>()));
        }
        let stats: Value = std::fs::read_to_string(out.join("stats.json")).ok().and_then(|t| serde_json::from_str(&t).ok()).unwrap_or(Value::Null);
        *FUZZ_STATS.lock().unwrap() = Some(stats);
        let mut cases = vec![];
        if let Ok(rd) = std::fs::read_dir(out.join("cases")) {
            let mut files: Vec<_> = rd.filter_map(|e| e.ok()).map(|e| e.path()).collect();
            files.sort();
            for f in files {
                if let Ok(c) = crate::engine::load_replay::<Case>(&f) {
                    cases.push(c);
                }
            }
        }
        *FUZZ_CASES.lock().unwrap() = cases;
        Ok(())
    }
    fn extra_coverage(&self) -> std::collections::BTreeMap<String, Value> {
        let mut m = std::collections::BTreeMap::new();
        if let Some(s) = FUZZ_STATS.lock().unwrap().clone() {
            m.insert("coverage_guided_stage".to_string(), s);
        }
        m
    }
    fn fixed_cases(&self, _tier: Tier) -> Vec<Case> {
        let mut v: Vec<Case> = corpus::load_all().into_iter().map(|h| Case::Mut { header: h.name, edits: vec![], splice_from: None }).collect();
        v.extend(FUZZ_CASES.lock().unwrap().iter().cloned());
        for f in NEST_FAMILIES {
            for d in [10u32, 50, 100, 150, 200] {
                v.push(Case::Nest { family: f.to_string(), depth: d, cpp: true });
                if !family_is_cpp(f) {
                    v.push(Case::Nest { family: f.to_string(), depth: d, cpp: false });
                }
            }
        }
        for k in ["missing", "directory", "mode000", "dangling-symlink", "empty", "symlink-loop", "mode000-directory-parent"] {
            v.push(Case::PathFault { kind: k.into() });
        }
        for t in ["1.51", "1.55", "1.56", "1.84", "1.85", "1.82", "nightly", "1.56.0-nightly", "1.85.0-beta"] {
            for e in ["2018", "2021", "2024"] {
                v.push(Case::Edition { target: t.into(), edition: e.into() });
            }
        }
        v
    }

    fn evaluate(&self, case: &Case, env: &Env) -> Outcome {
        let mut out = Outcome::new();
        match case {
            Case::Mut { header, edits, splice_from } => {
                let Some(h) = corpus::load_one(&Path::new(corpus::HEADERS_DIR).join(header)) else { return out.inconclusive("no such header") };
                let other = splice_from.as_ref().and_then(|s| corpus::load_one(&Path::new(corpus::HEADERS_DIR).join(s))).map(|o| o.text);
                let text = if edits.is_empty() { h.text.clone() } else { mutate::apply(&h.text, edits, other.as_deref()) };
                let mut input = h.input_with_text(&text);
                strip_excluded(&mut input.flags);
                input.flags.push("--no-include-path-detection".into());
                crate::bg::write_files(&env.dir, &input.files);
                let mut cargs: Vec<String> = vec!["-nostdlibinc".into()];
                cargs.extend(input.clang_args.iter().cloned());
                let accepted = match tools::clang_accepts(&env.dir, &input.headers[0], &cargs) {
                    Ok(a) => a,
                    Err(e) => return out.inconclusive(format!("clang: {e}")),
                };
                // objective-C headers need -x objective-c which is in the flags already
                let v = match self.run_gen(&input, &[], env) {
                    Ok(v) => v,
                    Err(e) => return out.inconclusive(e),
                };
                if let Some(e) = v.get("error") {
                    return out.inconclusive(format!("harness: {e}"));
                }
                let ctx = format!("{header} {} edits", edits.len());
                self.judge(&v, Some(accepted.clone()), &ctx, &mut out);
                out.class(if accepted.0 { "mutant:accepted" } else { "mutant:rejected" });
                if !edits.is_empty() && (!accepted.0 || mutate::differs_in_tokens(&h.text, &text)) {
                    out.nontrivial(format!("{:x}", fnv(&text)));
                }
                if !out.failures.is_empty() {
                    // make the failing text visible in the report
                    for f in &mut out.failures {
                        f.msg.push_str(&format!("\n--- header text ---\n{}", text.chars().take(3000).collect::<String>()));
                    }
                }
                out.sample = Some(json!({"seed_header": header, "edits": edits.len(), "accepted_by_clang": accepted.0, "result": v["k"], "text_head": text.chars().take(300).collect::<String>()}));
            }
            Case::Nest { family, depth, cpp } => {
                let cpp = *cpp || family_is_cpp(family);
                let text = nest_text(family, *depth);
                let file = if cpp { "nest.hpp" } else { "nest.h" };
                let input = BgInput {
                    files: vec![(file.into(), text.clone())],
                    headers: vec![file.into()],
                    flags: vec!["--formatter=none".into(), "--no-include-path-detection".into(), "--with-derive-default".into(), "--with-derive-hash".into(), "--with-derive-partialeq".into(), "--impl-debug".into()],
                    clang_args: if cpp { vec!["-std=c++17".into(), "-fbracket-depth=1024".into()] } else { vec!["-fbracket-depth=1024".into()] },
                    callbacks: vec![],
                };
                crate::bg::write_files(&env.dir, &input.files);
                let mut cargs: Vec<String> = vec!["-nostdlibinc".into()];
                cargs.extend(input.clang_args.iter().cloned());
                let accepted = match tools::clang_accepts(&env.dir, file, &cargs) {
                    Ok(a) => a,
                    Err(e) => return out.inconclusive(format!("clang: {e}")),
                };
                let v = match self.run_gen(&input, &[], env) {
                    Ok(v) => v,
                    Err(e) => return out.inconclusive(e),
                };
                if let Some(e) = v.get("error") {
                    return out.inconclusive(format!("harness: {e}"));
                }
                self.judge(&v, Some(accepted.clone()), &format!("nesting family {family} depth {depth} cpp={cpp}"), &mut out);
                // normalise signatures of deep-recursion failures by family
                for f in &mut out.failures {
                    if f.sig.starts_with("process-died/") {
                        f.sig = format!("{}/nest-{family}", f.sig);
                    }
                }
                out.class(format!("nest:{family}"));
                if *depth >= 50 {
                    out.nontrivial(format!("nest|{family}|{depth}|{cpp}"));
                }
                out.sample = Some(json!({"family": family, "depth": depth, "accepted_by_clang": accepted.0, "result": v["k"]}));
            }
            Case::Opts { header, ops } => {
                let Some(h) = corpus::load_one(&Path::new(corpus::HEADERS_DIR).join(header)) else { return out.inconclusive("no such header") };
                let mut input = h.input();
                strip_excluded(&mut input.flags);
                input.flags.push("--no-include-path-detection".into());
                let mut cargs: Vec<String> = vec!["-nostdlibinc".into()];
                cargs.extend(input.clang_args.iter().cloned());
                for op in ops {
                    if let Op::ClangArg(a) = op {
                        cargs.push(a.clone());
                    }
                }
                let accepted = match tools::clang_accepts(&env.dir, &input.headers[0], &cargs) {
                    Ok(a) => a,
                    Err(e) => return out.inconclusive(format!("clang: {e}")),
                };
                let v = match self.run_gen(&input, ops, env) {
                    Ok(v) => v,
                    Err(e) => return out.inconclusive(e),
                };
                if let Some(e) = v.get("error") {
                    return out.inconclusive(format!("harness: {e}"));
                }
                // UnsupportedEdition is a legitimate error value for some (target, edition) op pairs
                let unsupported = v["k"] == json!("err") && v["v"].as_str().unwrap_or("").starts_with("UnsupportedEdition");
                if !unsupported {
                    self.judge(&v, Some(accepted), &format!("{header} with {ops:?}"), &mut out);
                }
                out.class("opts");
                out.nontrivial(format!("opts|{header}|{:x}", fnv(&format!("{ops:?}"))));
                out.sample = Some(json!({"header": header, "ops": format!("{ops:?}"), "result": v["k"]}));
            }
            Case::PathFault { kind } => {
                use std::os::unix::fs::PermissionsExt;
                let d = &env.dir;
                let (path, want): (String, &str) = match kind.as_str() {
                    "missing" => (d.join("nope.h").to_str().unwrap().into(), "NotExist"),
                    "directory" => {
                        std::fs::create_dir_all(d.join("adir.h")).ok();
                        (d.join("adir.h").to_str().unwrap().into(), "FolderAsHeader")
                    }
                    "mode000" => {
                        std::fs::write(d.join("secret.h"), "int x;\n").ok();
                        let _ = std::fs::set_permissions(d.join("secret.h"), std::fs::Permissions::from_mode(0o000));
                        (d.join("secret.h").to_str().unwrap().into(), "InsufficientPermissions")
                    }
                    "dangling-symlink" => {
                        let _ = std::os::unix::fs::symlink(d.join("gone.h"), d.join("link.h"));
                        (d.join("link.h").to_str().unwrap().into(), "NotExist")
                    }
                    "symlink-loop" => {
                        let _ = std::os::unix::fs::symlink(d.join("loop2.h"), d.join("loop1.h"));
                        let _ = std::os::unix::fs::symlink(d.join("loop1.h"), d.join("loop2.h"));
                        (d.join("loop1.h").to_str().unwrap().into(), "NotExist")
                    }
                    "mode000-directory-parent" => {
                        // metadata() of a path below a file is ENOTDIR: the path does not exist
                        std::fs::write(d.join("plain.h"), "int x;\n").ok();
                        (d.join("plain.h/inner.h").to_str().unwrap().into(), "NotExist")
                    }
                    _ => {
                        std::fs::write(d.join("empty.h"), "").ok();
                        (d.join("empty.h").to_str().unwrap().into(), "ok")
                    }
                };
                let input = BgInput { files: vec![], headers: vec![path.clone()], flags: vec!["--formatter=none".into(), "--no-include-path-detection".into()], clang_args: vec![], callbacks: vec![] };
                let v = match self.run_gen(&input, &[], env) {
                    Ok(v) => v,
                    Err(e) => return out.inconclusive(e),
                };
                self.judge(&v, None, &format!("path fault {kind}"), &mut out);
                let got = match v["k"].as_str().unwrap_or("?") {
                    "ok" => "ok".to_string(),
                    "err" => err_kind(v["v"].as_str().unwrap_or("")).to_string(),
                    o => o.to_string(),
                };
                if got != want && v["k"] != json!("panic") && v["k"] != json!("died") {
                    out.fail(format!("path-fault/{kind}/got-{got}"), format!("expected {want}, got {}", v));
                }
                out.nontrivial(format!("path|{kind}"));
                out.sample = Some(json!({"path_fault": kind, "result": v}));
            }
            Case::Edition { target, edition } => {
                let input = BgInput {
                    files: vec![("e.h".into(), "int f(int);\nstruct S { int a; };\n".into())],
                    headers: vec!["e.h".into()],
                    flags: vec!["--formatter=none".into(), "--no-include-path-detection".into(), "--rust-target".into(), target.clone(), "--rust-edition".into(), edition.clone()],
                    clang_args: vec![],
                    callbacks: vec![],
                };
                let v = match self.run_gen(&input, &[], env) {
                    Ok(v) => v,
                    Err(e) => return out.inconclusive(e),
                };
                self.judge(&v, None, &format!("target {target} edition {edition}"), &mut out);
                let minor: Option<u64> = if target == "nightly" { None } else { target.split('.').nth(1).and_then(|m| m.parse().ok()).map(|m: u64| if target.ends_with("-nightly") { m - 1 } else { m }) };
                let need: u64 = match edition.as_str() {
                    "2018" => 31,
                    "2021" => 56,
                    _ => 85,
                };
                let unsupported = minor.map(|m| m < need).unwrap_or(false);
                let got_unsupported = v["k"] == json!("err") && v["v"].as_str().unwrap_or("").starts_with("UnsupportedEdition");
                if unsupported != got_unsupported {
                    out.fail("edition-pair/wrong-outcome", format!("target {target} edition {edition}: expected unsupported={unsupported}, got {v}"));
                }
                out.nontrivial(format!("edition|{target}|{edition}"));
                out.sample = Some(json!({"target": target, "edition": edition, "result": v["k"]}));
            }
            Case::Text { name, text, flags, clang_args } => {
                let input = BgInput { files: vec![(name.clone(), text.clone())], headers: vec![name.clone()], flags: flags.clone(), clang_args: clang_args.clone(), callbacks: vec![] };
                crate::bg::write_files(&env.dir, &input.files);
                let mut cargs: Vec<String> = vec!["-nostdlibinc".into()];
                cargs.extend(clang_args.iter().cloned());
                let accepted = match tools::clang_accepts(&env.dir, name, &cargs) {
                    Ok(a) => a,
                    Err(e) => return out.inconclusive(format!("clang: {e}")),
                };
                let v = match self.run_gen(&input, &[], env) {
                    Ok(v) => v,
                    Err(e) => return out.inconclusive(e),
                };
                self.judge(&v, Some(accepted), &format!("text case {name}"), &mut out);
                // root-cause attribution by differential: a panic that disappears when a class of
                // input is neutralised belongs to that class (one signature per root cause)
                if out.failures.iter().any(|f| f.sig.starts_with("panic/")) {
                    let rerun = |t: String, out: &mut Outcome| -> Option<bool> {
                        let input = BgInput { files: vec![(name.clone(), t)], headers: vec![name.clone()], flags: flags.clone(), clang_args: clang_args.clone(), callbacks: vec![] };
                        crate::bg::write_files(&env.dir, &input.files);
                        out.evaluations += 1;
                        self.run_gen(&input, &[], env).ok().map(|v| v["k"] == json!("panic"))
                    };
                    let mut class: Option<String> = None;
                    if !text.is_ascii() {
                        // characters clang accepts in identifiers (C11 Annex D) that Rust does not
                        if rerun(text.chars().map(|c| if c.is_ascii() { c } else { 'x' }).collect(), &mut out) == Some(false) {
                            class = Some("panic/non-xid-identifier-character".into());
                        }
                    }
                    if class.is_none() && text.contains("rustbindgen") {
                        // annotations in comments: their values are pasted into the bindings
                        if rerun(text.replace("rustbindgen", "rustbindgem"), &mut out) == Some(false) {
                            let site = out.failures.iter().find(|f| f.sig.starts_with("panic/")).map(|f| f.sig.trim_start_matches("panic/").to_string()).unwrap_or_default();
                            let site = if site.contains("postprocessing/mod.rs") {
                                "bindgen/codegen/postprocessing/mod.rs/unparseable".to_string()
                            } else if site.contains("Ident") { "bindgen/ir/context.rs/invalid-identifier".to_string() } else { site };
                            class = Some(format!("panic/malformed-annotation/{site}"));
                        }
                    }
                    if let Some(c) = class {
                        for f in out.failures.iter_mut() {
                            if f.sig.starts_with("panic/") {
                                f.sig = c.clone();
                            }
                        }
                    }
                    crate::bg::write_files(&env.dir, &[(name.clone(), text.clone())]);
                }
                out.nontrivial(format!("{:x}", fnv(text)));
                out.sample = Some(json!({"text": text.chars().take(300).collect::<String>(), "result": v["k"]}));
            }
        }
        out
    }
}
