//! C16 — static-function wrappers compile and behave like the wrapped functions.
//! The C04 library model with every function turned into a `static` / `static inline`
//! definition in the header. Checks: the emitted wrapper source compiles against the header
//! with the same flags; it defines exactly one external symbol `<name><suffix>` per bound
//! static function; calling the Rust binding gives the digest, return value and side effects
//! of the static function (the C04 oracle); variadic static functions get no binding.

use crate::bg::{self, BgInput, BgResult};
use crate::engine::{fnv, Env, Outcome, Property, Tier};
use crate::props::c04::{self, Func, Lib, PTy, RTy};
use crate::rs::{self, Inventory};
use crate::tools;
use proptest::prelude::*;
use serde::{Deserialize, Serialize};
use serde_json::json;
use std::collections::BTreeSet;

pub struct C16;

#[derive(Clone, Copy, Debug, Serialize, Deserialize, PartialEq, Eq)]
pub enum HeaderMode {
    /// one header given by path
    Path,
    /// types in one header, functions in a second one; both given to bindgen
    TwoHeaders,
    /// header text handed over in memory (`Builder::header_contents`)
    Contents,
}

#[derive(Clone, Debug, Serialize, Deserialize)]
pub struct Case {
    pub lib: Lib,
    pub suffix: Option<String>,
    pub cpp: bool,
    pub mode: HeaderMode,
    /// per function: 0 `static inline`, 1 `static`, 2 prototype without parameter names first
    pub styles: Vec<u8>,
    pub with_va_list_fn: bool,
    pub custom_path: bool,
    pub seed: u64,
    #[serde(default)]
    pub keep_known: bool,
    /// further options that must not change which wrappers are written or how they are named:
    /// 0 none, 1 --c-naming, 2 --enable-cxx-namespaces, 3 --merge-extern-blocks --sort-semantically
    #[serde(default)]
    pub extra: u8,
}

const SUFFIXES: &[&str] = &["_w", "__wrapped", "X", "_1"];

fn types_part(lib: &Lib) -> String {
    // everything of C04's header up to the function prototypes
    let h = lib.header();
    let cut = h.find("extern unsigned long long g_digest").unwrap_or(h.len());
    let mut s = h[..cut].replace("#ifndef LIB_H\n#define LIB_H\n", "#ifndef TYPES_H\n#define TYPES_H\n");
    s.push_str(&format!("#ifdef __cplusplus\nextern \"C\" {{\n#endif\nextern unsigned long long g_digest[{}];\nextern int g_static_int;\n#ifdef __cplusplus\n}}\n#endif\n#endif\n", lib.funcs.len().max(1)));
    s
}

fn fns_part(lib: &Lib, styles: &[u8], with_va_list: bool) -> String {
    let mut s = String::from("#ifndef FNS_H\n#define FNS_H\n");
    s.push_str(Lib::HELPERS);
    for k in 0..lib.funcs.len() {
        let style = styles.get(k).copied().unwrap_or(0) % 3;
        let proto = lib.proto(k);
        let kw = if style == 1 { "static " } else { "static inline " };
        if style == 2 {
            // a first declaration without parameter names
            let f = &lib.funcs[k];
            let mut unnamed = proto.clone();
            for i in (0..f.params.len()).rev() {
                let n = lib.pname(f, i);
                // parameter names are whole words directly before `,` `)` `[` or after `*`
                unnamed = unnamed.replace(&format!(" {n},"), ",").replace(&format!(" {n})"), ")").replace(&format!("*{n},"), "*,").replace(&format!("*{n})"), "*)").replace(&format!(" {n}["), " [").replace(&format!("(*{n})"), "(*)");
            }
            s.push_str(&format!("{kw}{unnamed};\n"));
        }
        s.push_str(&format!("{kw}{proto}{}", lib.body(k)));
    }
    if with_va_list {
        s.push_str("static inline int takes_va_list(int n, __builtin_va_list ap) { (void)ap; return n + 1; }\n");
    }
    s.push_str("#endif\n");
    s
}

impl Property for C16 {
    type Case = Case;
    fn id(&self) -> &'static str {
        "C16"
    }
    fn rule(&self) -> String {
        "the generated libraries of C04 (1..15 functions over scalars, typedefs, an enum, pointers with const-qualified pointees, array and function-pointer parameters, callbacks, aggregates by value, void returns, variadic tails) with every function defined `static` or `static inline` in the header, a third of them first declared without parameter names, optionally one function taking a va_list; wrapper suffix default or one of four custom ones, default or custom wrapper path; C and C++ mode; header given by path, as two headers, or as in-memory contents. Checks: wrapper source compiles with the header's flags; nm: exactly one external definition `<name><suffix>` per bound function (C mode); the Rust caller of C04 linked against the wrapper object reproduces digest, return value and side effects for every function; variadic functions have no binding. Non-trivial = a wrapped function with an aggregate by value or a function-pointer/array parameter whose three rounds were compared; distinct by (prototype, mode, language)".into()
    }
    fn assumptions(&self) -> Vec<String> {
        vec![
            "host target only; in C++ mode the symbol-name check is replaced by link success (names are mangled)".into(),
            "the function taking a va_list is compiled, declared and linked, not called".into(),
        ]
    }
    fn strategy(&self, _tier: Tier) -> BoxedStrategy<Case> {
        (
            c04::lib_strategy(),
            proptest::option::weighted(0.5, 0..SUFFIXES.len()),
            proptest::bool::weighted(0.3),
            prop_oneof![3 => Just(HeaderMode::Path), 1 => Just(HeaderMode::TwoHeaders), 1 => Just(HeaderMode::Contents)],
            proptest::collection::vec(0u8..3, 16),
            proptest::bool::weighted(0.2),
            proptest::bool::weighted(0.3),
            any::<u64>(),
            prop_oneof![5 => Just(0u8), 2 => Just(1u8), 2 => Just(2u8), 1 => Just(3u8)],
        )
            .prop_map(|(lib, suffix, cpp, mode, styles, with_va_list_fn, custom_path, seed, extra)| Case { lib, suffix: suffix.map(|i| SUFFIXES[i].to_string()), cpp, mode, styles, with_va_list_fn, custom_path, seed, keep_known: false, extra })
            .boxed()
    }
    fn generated(&self, tier: Tier) -> usize {
        tier.pick(600, 12000)
    }
    fn shrink_steps(&self) -> usize {
        60
    }
    fn max_shrunk_signatures(&self) -> usize {
        4
    }
    fn evaluate(&self, case: &Case, env: &Env) -> Outcome {
        let mut out = Outcome::new();
        out.evaluations = 0;
        let mut lib = case.lib.clone();
        lib.normalise();
        // the wrapped functions are all callable: noreturn ones are C04's
        for f in lib.funcs.iter_mut() {
            f.noreturn = false;
        }
        lib.globals.clear();
        lib.garrays.clear();
        if !case.keep_known {
            for k in 0..lib.funcs.len() {
                // known findings, excluded by construction and counted:
                // (a) the C spelling of a parameter "pointer to function returning a function pointer" is invalid
                let n0 = lib.funcs[k].params.len();
                lib.funcs[k].params.retain(|p| !matches!(p, PTy::CallbackFactory));
                out.excluded_known += n0 - lib.funcs[k].params.len();
                if lib.funcs[k].variadic.is_some() && lib.funcs[k].params.is_empty() {
                    lib.funcs[k].params.push(PTy::Sc(c04::Sc::Int));
                }
                // (a'') and for parameters that are pointers to arrays (`T (*p)[n]`, `T p[a][b]`) or
                //      arrays of function pointers: the declarator is spelled prefix-style
                let n1 = lib.funcs[k].params.len();
                lib.funcs[k].params.retain(|p| !matches!(p, PTy::PtrToArray(..) | PTy::Array2D(..) | PTy::CallbackArray(_)));
                out.excluded_known += n1 - lib.funcs[k].params.len();
                if lib.funcs[k].variadic.is_some() && lib.funcs[k].params.is_empty() {
                    lib.funcs[k].params.push(PTy::Sc(c04::Sc::Int));
                }
                // (d) a const-qualified function-pointer parameter gets a second `const` in front of the
                //     return type (`const int (*const p)(int, double)`): C accepts the call, C++ does not
                if case.cpp {
                    for p in lib.funcs[k].params.iter_mut() {
                        if *p == PTy::ConstCallback {
                            *p = PTy::Callback;
                            out.excluded_known += 1;
                        }
                    }
                }
                // (a') the same declarator problem for a function that returns a function pointer
                if lib.funcs[k].ret == RTy::FnPtr {
                    lib.funcs[k].ret = RTy::Sc(c04::Sc::Int);
                    out.excluded_known += 1;
                }
                // (c) the wrapper of a function with its own calling convention has the default one,
                //     while the binding keeps the function's
                if lib.funcs[k].ms_abi {
                    lib.funcs[k].ms_abi = false;
                    out.excluded_known += 1;
                }
                // (b) a parameter named like the function shadows it inside the wrapper
                let fname = lib.fname(k);
                let clash = (0..lib.funcs[k].params.len()).any(|i| lib.pname(&lib.funcs[k], i) == fname);
                if clash {
                    lib.funcs[k].keyword_params = false;
                    out.excluded_known += 1;
                }
            }
        }
        let cpp = case.cpp;
        let ext = if cpp { "hpp" } else { "h" };
        let mut types = types_part(&lib);
        let mut fns = fns_part(&lib, &case.styles, case.with_va_list_fn);
        if cpp {
            // `_Bool` is C only
            let re = regex::Regex::new(r"\b_Bool\b").unwrap();
            types = re.replace_all(&types, "bool").to_string();
            fns = re.replace_all(&fns, "bool").to_string();
        }
        let dir = &env.dir;
        let (h_types, h_fns) = (format!("types.{ext}"), format!("fns.{ext}"));
        std::fs::write(dir.join(&h_types), &types).ok();
        // the one-header forms include the types first
        let single = format!("#include \"{h_types}\"\n{fns}");
        std::fs::write(dir.join(&h_fns), if case.mode == HeaderMode::TwoHeaders { fns.clone() } else { single.clone() }).ok();
        // the library object only holds the globals (functions are static in the header)
        let globals_c = format!("unsigned long long g_digest[{}];\nint g_static_int = 77;\nint lib_cb_odd(int a, double b) {{ return a * 5 + (int)b; }}\nint lib_cb_even(int a, double b) {{ return a * 7 - (int)b; }}\n", lib.funcs.len().max(1));
        std::fs::write(dir.join("globals.c"), &globals_c).ok();
        match tools::clang_compile(dir, "globals.c", "globals.o", &["-c".into(), "-w".into()]) {
            Ok(o) if o.ok() => {}
            Ok(o) => return out.inconclusive(format!("globals: {}", o.stderr)),
            Err(e) => return out.inconclusive(e),
        }
        let lang_args: Vec<String> = if cpp { vec!["-x".into(), "c++".into(), "-std=c++14".into()] } else { vec!["-std=gnu11".into()] };
        // the generated header must be valid on its own
        let check_src = format!("#include \"{h_types}\"\n#include \"{h_fns}\"\n");
        std::fs::write(dir.join(if cpp { "chk.cpp" } else { "chk.c" }), &check_src).ok();
        {
            let mut a = vec!["-fsyntax-only".to_string(), "-w".to_string()];
            a.extend(lang_args.iter().cloned());
            match tools::clang_accepts(dir, if cpp { "chk.cpp" } else { "chk.c" }, &a) {
                Ok((true, _)) => {}
                Ok((false, msg)) => return out.inconclusive(format!("generated header rejected by clang: {}\n{types}{fns}", msg.chars().take(600).collect::<String>())),
                Err(e) => return out.inconclusive(e),
            }
        }
        let suffix = case.suffix.clone().unwrap_or_else(|| "__extern".to_string());
        let wrap_base = if case.custom_path { dir.join("gen").join("my_wrappers") } else { dir.join("extern") };
        if case.custom_path {
            std::fs::create_dir_all(dir.join("gen")).ok();
        }
        let wrap_base_s = wrap_base.to_str().unwrap().to_string();
        let mut flags: Vec<String> = vec!["--no-include-path-detection".into(), "--formatter=none".into(), "--experimental".into(), "--wrap-static-fns".into(), "--wrap-static-fns-path".into(), wrap_base_s.clone()];
        if let Some(sfx) = &case.suffix {
            flags.push("--wrap-static-fns-suffix".into());
            flags.push(sfx.clone());
        }
        let extra_flags: &[&str] = match case.extra % 4 {
            1 => &["--c-naming"],
            2 => &["--enable-cxx-namespaces"],
            3 => &["--merge-extern-blocks", "--sort-semantically"],
            _ => &[],
        };
        flags.extend(extra_flags.iter().map(|f| f.to_string()));
        out.class(format!("options:{}", if extra_flags.is_empty() { "plain".to_string() } else { extra_flags.join("+") }));
        let ctx = |what: &str| format!("{what}\nmode {:?} cpp={cpp} suffix {:?} custom_path={} extra {extra_flags:?}\n--- header ---\n{types}{fns}", case.mode, case.suffix, case.custom_path);
        // ---- bindgen
        let result = match case.mode {
            HeaderMode::Contents => {
                // in-memory contents: the Builder API is the only way
                let mut b = bindgen::builder().header_contents(&format!("virtual.{ext}"), &single).wrap_static_fns(true).wrap_static_fns_path(&wrap_base_s).formatter(bindgen::Formatter::None).detect_include_paths(false).clang_arg(format!("-I{}", dir.display()));
                for a in &lang_args {
                    b = b.clang_arg(a.clone());
                }
                if let Some(sfx) = &case.suffix {
                    b = b.wrap_static_fns_suffix(sfx);
                }
                b = match case.extra % 4 {
                    1 => b.c_naming(true),
                    2 => b.enable_cxx_namespaces(),
                    3 => b.merge_extern_blocks(true).sort_semantically(true),
                    _ => b,
                };
                bg::generate_with(b)
            }
            _ => {
                let mut clang_args = lang_args.clone();
                clang_args.push(format!("-I{}", dir.display()));
                if case.mode == HeaderMode::TwoHeaders {
                    // both are input headers of the builder (`.header(a).header(b)`)
                    let input = BgInput { files: vec![], headers: vec![h_types.clone()], flags: flags.clone(), clang_args, callbacks: vec![] };
                    match bg::builder_for(&input, dir) {
                        Ok(b) => bg::generate_with(b.header(dir.join(&h_fns).to_str().unwrap())),
                        Err(e) => BgResult::Err(e),
                    }
                } else {
                    let input = BgInput { files: vec![], headers: vec![h_fns.clone()], flags: flags.clone(), clang_args, callbacks: vec![] };
                    bg::generate(&input, dir)
                }
            }
        };
        let text = match result {
            BgResult::Ok(t) => t,
            other => {
                out.fail("generation-failed", ctx(&other.describe()));
                return out;
            }
        };
        out.evaluations += 1;
        let inv: Inventory = match rs::inventory(&text) {
            Ok(i) => i,
            Err(e) => {
                out.fail("bindings-unparseable", ctx(&e));
                return out;
            }
        };
        std::fs::write(dir.join("b.rs"), &text).ok();
        // ---- the wrapper source
        let wrap_file = format!("{wrap_base_s}.{}", if cpp { "cpp" } else { "c" });
        let nothing_to_wrap = lib.funcs.iter().all(|f| f.variadic.is_some()) && !case.with_va_list_fn;
        let wrap_text = match std::fs::read_to_string(&wrap_file) {
            Ok(t) => t,
            Err(_) if nothing_to_wrap => {
                // only variadic functions: no wrapper file is fine, as long as nothing is bound
                for (k, _) in lib.funcs.iter().enumerate() {
                    let cname = lib.fname(k);
                    if inv.items.iter().any(|i| i.kind == "foreign_fn" && (i.name == cname || i.name == format!("{cname}_"))) {
                        out.fail("variadic-static-bound", ctx(&format!("variadic static function `{cname}` has a binding but there is no wrapper file")));
                    }
                }
                out.class("nothing-to-wrap");
                return out;
            }
            Err(_) => {
                out.fail("wrapper-file-missing", ctx(&format!("no file {wrap_file}")));
                return out;
            }
        };
        let mut cargs: Vec<String> = vec!["-c".into(), "-w".into(), format!("-I{}", dir.display())];
        cargs.extend(lang_args.iter().cloned());
        let wrap_rel = std::path::Path::new(&wrap_file).strip_prefix(dir).map(|p| p.to_str().unwrap().to_string()).unwrap_or(wrap_file.clone());
        match tools::clang_compile(dir, &wrap_rel, "wrappers.o", &cargs) {
            Ok(o) if o.ok() => {}
            Ok(o) => {
                let first = o.stderr.lines().find(|l| l.contains("error")).unwrap_or("").to_string();
                // names and types quoted by clang are input-specific: the class is the message skeleton
                let mut skeleton = String::new();
                let mut quoted = false;
                for c in first.split("error:").nth(1).unwrap_or("").chars() {
                    if c == '\'' {
                        quoted = !quoted;
                        if quoted {
                            skeleton.push('_');
                        }
                    } else if !quoted && !c.is_ascii_digit() {
                        skeleton.push(c);
                    }
                }
                let mut class: String = skeleton.chars().take(50).collect::<String>().trim().replace(' ', "-");
                // (only cases that keep the known declarator classes contain such parameters)
                if lib.funcs.iter().any(|f| f.params.iter().any(|p| matches!(p, PTy::PtrToArray(..) | PTy::Array2D(..) | PTy::CallbackArray(_)))) {
                    class.push_str("/array-shaped-parameter");
                } else if case.cpp && lib.funcs.iter().any(|f| f.params.iter().any(|p| *p == PTy::ConstCallback)) {
                    class.push_str("/const-callback-parameter");
                }
                out.fail(format!("wrapper-does-not-compile/{class}"), ctx(&format!("{}\n--- wrapper source ---\n{wrap_text}", o.stderr.chars().take(1200).collect::<String>())));
                return out;
            }
            Err(e) => return out.inconclusive(e),
        }
        // ---- which functions are bound, and to which symbol
        let mut bound: Vec<(usize, String)> = vec![];
        for (k, f) in lib.funcs.iter().enumerate() {
            let cname = lib.fname(k);
            let item = inv.items.iter().find(|i| i.kind == "foreign_fn" && (i.name == cname || i.name == format!("{cname}_")));
            if f.variadic.is_some() {
                if let Some(it) = item {
                    out.fail("variadic-static-bound", ctx(&format!("variadic static function `{cname}` has a binding `{}`", it.name)));
                }
                out.class("fn:variadic-not-wrapped");
                continue;
            }
            let Some(it) = item else {
                out.fail("binding-missing", ctx(&format!("static function `{cname}` has no binding: {}", lib.proto(k))));
                continue;
            };
            let ln = it.attrs.iter().find_map(|a| {
                let a = a.replace(' ', "");
                a.find("link_name=\"").map(|p| a[p + 11..].trim_end_matches("\"]").trim_start_matches("\\u{1}").to_string())
            });
            let want = format!("{cname}{suffix}");
            match ln {
                Some(l) if cpp || l == want => bound.push((k, l)),
                Some(l) => {
                    out.fail("wrapper-name", ctx(&format!("binding of `{cname}` links to `{l}`, expected `{want}`")));
                    bound.push((k, l));
                }
                None => out.fail("wrapper-name", ctx(&format!("binding of static `{cname}` has no link_name (would refer to a symbol that does not exist)"))),
            }
        }
        if !cpp {
            match tools::nm_defined(dir, "wrappers.o") {
                Ok(defined) => {
                    let defined: BTreeSet<String> = defined.into_iter().collect();
                    let mut expected: BTreeSet<String> = bound.iter().map(|(k, _)| format!("{}{suffix}", lib.fname(*k))).collect();
                    if case.with_va_list_fn && inv.items.iter().any(|i| i.kind == "foreign_fn" && i.name == "takes_va_list") {
                        expected.insert(format!("takes_va_list{suffix}"));
                    }
                    for d in defined.difference(&expected) {
                        out.fail("wrapper-symbols/extra", ctx(&format!("wrapper object defines `{d}`, which no binding refers to\n--- wrapper source ---\n{wrap_text}")));
                    }
                    for d in expected.difference(&defined) {
                        out.fail("wrapper-symbols/missing", ctx(&format!("no external definition of `{d}`\n--- wrapper source ---\n{wrap_text}")));
                    }
                }
                Err(e) => return out.inconclusive(e),
            }
        }
        // ---- behaviour: the C04 caller, with bindings looked up by their Rust name
        // (C04 looks functions up by link_name; rewrite the link names to the C names for the lookup)
        let mut inv2 = inv.clone();
        for it in inv2.items.iter_mut().filter(|i| i.kind == "foreign_fn") {
            it.attrs.retain(|a| !a.contains("link_name"));
            // `name_` for keywords: C04 matches the plain C name without link_name
            for k in 0..lib.funcs.len() {
                let cname = lib.fname(k);
                if it.name == format!("{cname}_") {
                    it.attrs.push(format!("# [link_name = \"{cname}\"]"));
                }
            }
        }
        let mut lib_for_caller = lib.clone();
        // variadic functions are not bound: the caller must not try to call them
        let keep: Vec<usize> = (0..lib.funcs.len()).filter(|k| lib.funcs[*k].variadic.is_none() && bound.iter().any(|(b, _)| b == k)).collect();
        let _ = &mut lib_for_caller;
        let mut problems = vec![];
        let src = c04::C04.caller_subset(&lib, &inv2, case.seed, "C", &keep, &mut problems);
        for (sig, msg) in &problems {
            out.fail(format!("caller/{sig}"), ctx(msg));
        }
        if src.is_empty() {
            return out;
        }
        // with C++ namespaces everything lives in `root`
        let src = if case.extra % 4 == 2 { src.replacen("include!(\"b.rs\");", "include!(\"b.rs\");\nuse root::*;", 1) } else { src };
        std::fs::write(dir.join("caller.rs"), &src).ok();
        let o = match (tools::Rustc { dir, edition: "2021", nightly: false }).build_exe("caller.rs", "caller.exe", &["wrappers.o".to_string(), "globals.o".to_string()], false) {
            Ok(o) => o,
            Err(e) => return out.inconclusive(format!("rustc: {e}")),
        };
        if !o.ok() {
            let (code, class) = crate::props::c01::error_class(&o.stderr);
            out.fail(format!("caller-does-not-build/{code}/{class}"), ctx(&format!("{}\n--- wrapper source ---\n{wrap_text}", o.stderr.chars().take(1500).collect::<String>())));
            return out;
        }
        let run = match tools::run_exe(dir, "caller.exe", &[], 60) {
            Ok(r) => r,
            Err(e) => return out.inconclusive(format!("caller: {e}")),
        };
        if !run.stdout.contains("DONE ") {
            out.fail("caller-crashed", ctx(&format!("status {:?} signal {:?}", run.status, run.signal)));
            return out;
        }
        for l in run.stdout.lines().filter(|l| l.starts_with("BAD ")) {
            let w: Vec<&str> = l.split_whitespace().collect();
            let what = w[4.min(w.len())..].join("-");
            let cc = (0..lib.funcs.len()).any(|k| Some(&lib.fname(k).as_str()) == w.get(1) && lib.funcs[k].ms_abi);
            let what = if cc { "calling-convention-attribute".to_string() } else { what };
            out.fail(format!("wrapper-behaviour/{what}"), ctx(&format!("{l}\n--- wrapper source ---\n{wrap_text}")));
        }
        out.evaluations += keep.len() * 3;
        for k in &keep {
            let f: &Func = &lib.funcs[*k];
            let interesting = f.params.iter().any(|p| matches!(p, PTy::Struct(_) | PTy::Callback | PTy::CallbackFactory | PTy::ArrayParam(..))) || matches!(f.ret, RTy::Struct(_));
            if interesting {
                out.nontrivial(format!("{:x}", fnv(&format!("{}{:?}{cpp}", lib.proto(*k), case.mode))));
            }
        }
        out.class(format!("mode:{:?}", case.mode));
        out.class(if cpp { "lang:c++" } else { "lang:c" });
        out.class(if case.suffix.is_some() { "suffix:custom" } else { "suffix:default" });
        out.sample = Some(json!({"header": format!("{types}{fns}"), "wrapper": wrap_text, "mode": format!("{:?}", case.mode), "cpp": cpp}));
        out
    }
}
