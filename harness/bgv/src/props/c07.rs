//! C07 — inferred type facts are the least fixed point; declaration order is irrelevant.
//! (a) repository headers x work-list schedules, (b) generated declaration DAGs x linear
//! extensions x schedules.  Oracles: hook invariant (no FIXPOINT-UNSTABLE-CONSULTED),
//! schedule independence (byte-identical output), order independence (per-type facts by name).

use crate::bg::{self, BgInput, BgResult};
use crate::corpus;
use crate::engine::{fnv, Env, Outcome, Property, Tier};
use crate::rs;
use proptest::prelude::*;
use serde::{Deserialize, Serialize};
use serde_json::json;
use std::collections::{BTreeMap, BTreeSet};

pub struct C07;

#[derive(Clone, Debug, Serialize, Deserialize, PartialEq, Eq, Hash)]
pub enum Arg {
    Int,
    Float,
    Node(usize),
    PtrNode(usize),
}

#[derive(Clone, Debug, Serialize, Deserialize, PartialEq, Eq, Hash)]
pub enum FieldKind {
    Int,
    Float,
    Double,
    IntArr(u32),
    FloatArr(u32),
    /// pointer to any node (forward declaration suffices)
    PtrTo(usize),
    /// by-value member of an earlier class
    ByValue(usize),
    ArrOf(usize, u32),
    /// instantiation of an earlier template with an argument
    Inst(usize, Arg),
    /// pointer to an instantiation
    PtrInst(usize, Arg),
    /// via an earlier typedef node
    ViaTypedef(usize),
    /// template-parameter uses (only inside templates)
    T,
    TArr(u32),
    PtrT,
    FnPtr(u32),
    Bitfield(u32),
}

#[derive(Clone, Debug, Serialize, Deserialize, PartialEq, Eq, Hash)]
pub enum NodeKind {
    Class,
    /// class template with one type parameter
    Template,
    /// `typedef X Nk;` of an earlier node / instantiation
    Typedef(Box<FieldKind>),
    /// `template<class T> using Nk = Nj<T>;`
    AliasTemplate(usize),
    Union,
}

#[derive(Clone, Debug, Serialize, Deserialize, PartialEq, Eq, Hash)]
pub struct Node {
    pub kind: NodeKind,
    pub bases: Vec<usize>,
    pub virtual_bases: bool,
    pub fields: Vec<FieldKind>,
    pub virtual_method: bool,
    pub dtor: bool,
    /// bases that are instantiations of an earlier class template: `None` = `Nb<T>` (the
    /// node's own parameter; only inside templates), `Some(a)` = `Nb<a>`
    #[serde(default)]
    pub tbases: Vec<(usize, Option<Arg>)>,
}

#[derive(Clone, Debug, Serialize, Deserialize, PartialEq, Eq, Hash)]
pub struct Graph {
    pub nodes: Vec<Node>,
    pub cpp: bool,
}

#[derive(Clone, Debug, Serialize, Deserialize)]
pub enum Case {
    Repo { name: String, seeds: Vec<u64> },
    Dag {
        graph: Graph,
        /// priorities driving sampled linear extensions (one vector per extra order)
        order_prios: Vec<Vec<u16>>,
        seeds: Vec<u64>,
        /// node indices made opaque / blocklisted / allowlist roots
        opaque: Vec<usize>,
        blocklist: Vec<usize>,
        allow_roots: Vec<usize>,
        derive_all: bool,
        /// replay of a known finding: do not exclude the known class by construction
        #[serde(default)]
        keep_known: bool,
        /// with allowlist roots: `--no-recursive-allowlist` (what the roots mention is not
        /// generated and its facts are not computed)
        #[serde(default)]
        no_recursive: bool,
    },
}

fn nname(i: usize) -> String {
    format!("N{i}")
}

impl Graph {
    fn is_template(&self, i: usize) -> bool {
        matches!(self.nodes[i].kind, NodeKind::Template | NodeKind::AliasTemplate(_))
    }
    fn is_classlike(&self, i: usize) -> bool {
        matches!(self.nodes[i].kind, NodeKind::Class | NodeKind::Union)
    }
    fn tag(&self, i: usize) -> &'static str {
        match self.nodes[i].kind {
            NodeKind::Union => "union",
            _ => "struct",
        }
    }
    /// C needs the tag keyword in uses
    fn use_name(&self, i: usize) -> String {
        if self.cpp || matches!(self.nodes[i].kind, NodeKind::Typedef(_)) {
            nname(i)
        } else {
            format!("{} {}", self.tag(i), nname(i))
        }
    }
    fn arg_text(&self, a: &Arg) -> String {
        match a {
            Arg::Int => "int".into(),
            Arg::Float => "float".into(),
            Arg::Node(k) => self.use_name(*k),
            Arg::PtrNode(k) => format!("{}*", self.use_name(*k)),
        }
    }
    fn by_value_deps_of_field(&self, f: &FieldKind, out: &mut BTreeSet<usize>, ptr: &mut BTreeSet<usize>) {
        match f {
            FieldKind::PtrTo(k) => {
                ptr.insert(*k);
            }
            FieldKind::ByValue(k) | FieldKind::ArrOf(k, _) | FieldKind::ViaTypedef(k) => {
                out.insert(*k);
            }
            FieldKind::Inst(t, a) => {
                out.insert(*t);
                match a {
                    Arg::Node(k) => {
                        out.insert(*k);
                    }
                    Arg::PtrNode(k) => {
                        ptr.insert(*k);
                    }
                    _ => {}
                }
            }
            FieldKind::PtrInst(t, a) => {
                // the template must be declared; a forward declaration suffices
                ptr.insert(*t);
                match a {
                    Arg::Node(k) | Arg::PtrNode(k) => {
                        ptr.insert(*k);
                    }
                    _ => {}
                }
            }
            _ => {}
        }
    }
    /// (by-value deps, pointer-only deps) of node i
    pub fn deps(&self, i: usize) -> (BTreeSet<usize>, BTreeSet<usize>) {
        let n = &self.nodes[i];
        let mut v = BTreeSet::new();
        let mut p = BTreeSet::new();
        for b in &n.bases {
            v.insert(*b);
        }
        for (b, a) in &n.tbases {
            v.insert(*b);
            match a {
                Some(Arg::Node(k)) => {
                    v.insert(*k);
                }
                Some(Arg::PtrNode(k)) => {
                    p.insert(*k);
                }
                _ => {}
            }
        }
        for f in &n.fields {
            self.by_value_deps_of_field(f, &mut v, &mut p);
        }
        match &n.kind {
            NodeKind::Typedef(f) => self.by_value_deps_of_field(f, &mut v, &mut p),
            NodeKind::AliasTemplate(t) => {
                v.insert(*t);
            }
            _ => {}
        }
        v.remove(&i);
        (v, p)
    }
    /// Make the graph well-formed: references point to suitable earlier nodes, otherwise the
    /// field degrades to `int`. Keeps generation by construction instead of rejection.
    pub fn normalise(&mut self) {
        let n = self.nodes.len();
        if !self.cpp {
            for node in &mut self.nodes {
                if matches!(node.kind, NodeKind::Template | NodeKind::AliasTemplate(_)) {
                    node.kind = NodeKind::Class;
                }
                node.bases.clear();
                node.tbases.clear();
                node.virtual_method = false;
                node.dtor = false;
                node.virtual_bases = false;
            }
        }
        for i in 0..n {
            let kinds: Vec<NodeKind> = self.nodes.iter().map(|n| n.kind.clone()).collect();
            let classlike_before = |k: usize| k < i && matches!(kinds[k], NodeKind::Class | NodeKind::Union);
            let class_before = |k: usize| k < i && matches!(kinds[k], NodeKind::Class);
            let template_before = |k: usize| k < i && matches!(kinds[k], NodeKind::Template | NodeKind::AliasTemplate(_));
            let typedef_before = |k: usize| k < i && matches!(kinds[k], NodeKind::Typedef(_));
            let any_class = |k: usize| k < n && matches!(kinds[k], NodeKind::Class | NodeKind::Union);
            let is_tmpl = matches!(kinds[i], NodeKind::Template);
            let is_union = matches!(kinds[i], NodeKind::Union);
            let cpp = self.cpp;
            let fix_arg = |a: &mut Arg| match a {
                Arg::Node(k) if !classlike_before(*k) => *a = Arg::Int,
                Arg::PtrNode(k) if !any_class(*k) => *a = Arg::Int,
                _ => {}
            };
            let fix = |f: &mut FieldKind| match f {
                FieldKind::PtrTo(k) if !any_class(*k) => *f = FieldKind::Int,
                FieldKind::ByValue(k) | FieldKind::ArrOf(k, _) if !classlike_before(*k) => *f = FieldKind::Int,
                FieldKind::ViaTypedef(k) if !typedef_before(*k) => *f = FieldKind::Int,
                FieldKind::Inst(t, a) | FieldKind::PtrInst(t, a) => {
                    if !template_before(*t) {
                        *f = FieldKind::Double;
                    } else {
                        fix_arg(a);
                    }
                }
                FieldKind::T | FieldKind::TArr(_) | FieldKind::PtrT if !is_tmpl => *f = FieldKind::Float,
                FieldKind::Bitfield(_) if is_union => *f = FieldKind::Int,
                _ => {}
            };
            let node = &mut self.nodes[i];
            node.bases.retain(|b| class_before(*b));
            node.bases.sort();
            node.bases.dedup();
            node.tbases.retain(|(b, _)| template_before(*b));
            for (_, a) in node.tbases.iter_mut() {
                match a {
                    None if !is_tmpl => *a = Some(Arg::Int),
                    Some(x) => fix_arg(x),
                    None => {}
                }
            }
            // a class cannot have the same direct base twice
            let mut seen: Vec<(usize, Option<Arg>)> = vec![];
            node.tbases.retain(|(b, a)| {
                let t = (if let NodeKind::AliasTemplate(t) = &kinds[*b] { *t } else { *b }, a.clone());
                if seen.contains(&t) {
                    false
                } else {
                    seen.push(t);
                    true
                }
            });
            if is_union || !cpp {
                node.tbases.clear();
                node.bases.clear();
                node.virtual_method = false;
                node.virtual_bases = false;
            }
            if is_union {
                node.dtor = false;
            }
            for f in &mut node.fields {
                fix(f);
            }
            match &mut node.kind {
                NodeKind::Typedef(f) => {
                    fix(f);
                    if matches!(**f, FieldKind::T | FieldKind::TArr(_) | FieldKind::PtrT | FieldKind::Bitfield(_)) {
                        **f = FieldKind::Int;
                    }
                    node.fields.clear();
                    node.bases.clear();
                    node.tbases.clear();
                }
                NodeKind::AliasTemplate(t) => {
                    if !(*t < i && matches!(kinds[*t], NodeKind::Template)) {
                        node.kind = NodeKind::Class;
                    } else {
                        node.fields.clear();
                        node.bases.clear();
                        node.tbases.clear();
                    }
                }
                _ => {}
            }
        }
    }

    fn field_text(&self, f: &FieldKind, name: &str) -> String {
        match f {
            FieldKind::Int => format!("int {name};"),
            FieldKind::Float => format!("float {name};"),
            FieldKind::Double => format!("double {name};"),
            FieldKind::IntArr(n) => format!("int {name}[{n}];"),
            FieldKind::FloatArr(n) => format!("float {name}[{n}];"),
            FieldKind::PtrTo(k) => format!("{}* {name};", self.use_name(*k)),
            FieldKind::ByValue(k) => format!("{} {name};", self.use_name(*k)),
            FieldKind::ArrOf(k, n) => format!("{} {name}[{n}];", self.use_name(*k)),
            FieldKind::Inst(t, a) => format!("{}<{}> {name};", nname(*t), self.arg_text(a)),
            FieldKind::PtrInst(t, a) => format!("{}<{}>* {name};", nname(*t), self.arg_text(a)),
            FieldKind::ViaTypedef(k) => format!("{} {name};", nname(*k)),
            FieldKind::T => format!("T {name};"),
            FieldKind::TArr(n) => format!("T {name}[{n}];"),
            FieldKind::PtrT => format!("T* {name};"),
            FieldKind::FnPtr(n) => {
                let params: Vec<String> = (0..*n).map(|_| "int".to_string()).collect();
                format!("int (*{name})({});", if params.is_empty() { "void".into() } else { params.join(", ") })
            }
            FieldKind::Bitfield(w) => format!("unsigned {name} : {};", (*w).clamp(1, 32)),
        }
    }

    fn def_text(&self, i: usize) -> String {
        let n = &self.nodes[i];
        match &n.kind {
            NodeKind::Typedef(f) => {
                let t = self.field_text(f, &nname(i));
                format!("typedef {t}\n")
            }
            NodeKind::AliasTemplate(t) => format!("template<class T> using {} = {}<T>;\n", nname(i), nname(*t)),
            _ => {
                let mut s = String::new();
                if matches!(n.kind, NodeKind::Template) {
                    s.push_str("template<class T> ");
                }
                s.push_str(&format!("{} {}", self.tag(i), nname(i)));
                if !n.bases.is_empty() || !n.tbases.is_empty() {
                    let mut bs: Vec<String> = n
                        .bases
                        .iter()
                        .map(|b| format!("{}public {}", if n.virtual_bases { "virtual " } else { "" }, nname(*b)))
                        .collect();
                    for (b, a) in &n.tbases {
                        let arg = a.as_ref().map(|a| self.arg_text(a)).unwrap_or_else(|| "T".into());
                        bs.push(format!("public {}<{}>", nname(*b), arg));
                    }
                    s.push_str(&format!(" : {}", bs.join(", ")));
                }
                s.push_str(" {\n");
                if n.virtual_method {
                    s.push_str(&format!("  virtual void vm{i}();\n"));
                }
                if n.dtor {
                    s.push_str(&format!("  ~{}();\n", nname(i)));
                }
                for (k, f) in n.fields.iter().enumerate() {
                    s.push_str("  ");
                    s.push_str(&self.field_text(f, &format!("f{k}")));
                    s.push('\n');
                }
                s.push_str("};\n");
                s
            }
        }
    }

    /// Render in the given order, hoisting a forward declaration exactly where a node is
    /// mentioned by pointer before its definition.
    pub fn render(&self, order: &[usize]) -> String {
        let mut out = String::new();
        let mut defined: BTreeSet<usize> = BTreeSet::new();
        let mut declared: BTreeSet<usize> = BTreeSet::new();
        for &i in order {
            let (_, p) = self.deps(i);
            for k in p {
                if !defined.contains(&k) && !declared.contains(&k) && k != i {
                    if matches!(self.nodes[k].kind, NodeKind::Template) {
                        out.push_str(&format!("template<class T> struct {};\n", nname(k)));
                    } else if self.is_classlike(k) {
                        out.push_str(&format!("{} {};\n", self.tag(k), nname(k)));
                    }
                    declared.insert(k);
                }
            }
            out.push_str(&self.def_text(i));
            defined.insert(i);
        }
        out
    }

    /// topological order driven by priorities (lowest (prio, index) first among ready nodes)
    pub fn order_from_prios(&self, prios: &[u16]) -> Vec<usize> {
        let n = self.nodes.len();
        let deps: Vec<BTreeSet<usize>> = (0..n)
            .map(|i| {
                let (mut v, p) = self.deps(i);
                // pointer-only mention of a *typedef or alias template* cannot be forward declared
                for k in p {
                    if !self.is_classlike(k) && !matches!(self.nodes[k].kind, NodeKind::Template) {
                        v.insert(k);
                    }
                }
                v
            })
            .collect();
        let mut done: Vec<bool> = vec![false; n];
        let mut order = vec![];
        while order.len() < n {
            let mut best: Option<(u16, usize)> = None;
            for i in 0..n {
                if !done[i] && deps[i].iter().all(|d| done[*d]) {
                    let key = (prios.get(i).copied().unwrap_or(0), i);
                    if best.map(|b| key < b).unwrap_or(true) {
                        best = Some(key);
                    }
                }
            }
            let (_, i) = best.expect("graph is a DAG by construction");
            done[i] = true;
            order.push(i);
        }
        order
    }

    pub fn all_orders(&self, cap: usize) -> Vec<Vec<usize>> {
        let n = self.nodes.len();
        let deps: Vec<BTreeSet<usize>> = (0..n)
            .map(|i| {
                let (mut v, p) = self.deps(i);
                for k in p {
                    if !self.is_classlike(k) && !matches!(self.nodes[k].kind, NodeKind::Template) {
                        v.insert(k);
                    }
                }
                v
            })
            .collect();
        let mut res = vec![];
        let mut cur = vec![];
        let mut used = vec![false; n];
        fn rec(n: usize, deps: &[BTreeSet<usize>], cur: &mut Vec<usize>, used: &mut Vec<bool>, res: &mut Vec<Vec<usize>>, cap: usize) {
            if res.len() >= cap {
                return;
            }
            if cur.len() == n {
                res.push(cur.clone());
                return;
            }
            for i in 0..n {
                if !used[i] && deps[i].iter().all(|d| used[*d]) {
                    used[i] = true;
                    cur.push(i);
                    rec(n, deps, cur, used, res, cap);
                    cur.pop();
                    used[i] = false;
                }
            }
        }
        rec(n, &deps, &mut cur, &mut used, &mut res, cap);
        res
    }

    /// polymorphic[i]: node i or one of its ancestors has a vtable pointer
    pub fn polymorphic(&self) -> Vec<bool> {
        let n = self.nodes.len();
        let mut p = vec![false; n];
        for i in 0..n {
            let node = &self.nodes[i];
            p[i] = node.virtual_method || (node.virtual_bases && !node.bases.is_empty()) || node.bases.iter().any(|b| p[*b]) || node.tbases.iter().any(|(b, _)| p[*b]);
        }
        p
    }

    /// longest by-value chain below a tainted node (taint = float / vtable / dtor / T use)
    pub fn taint_depth(&self) -> usize {
        let n = self.nodes.len();
        let mut tainted = vec![false; n];
        for (i, node) in self.nodes.iter().enumerate() {
            tainted[i] = node.virtual_method
                || node.dtor
                || node.fields.iter().any(|f| matches!(f, FieldKind::Float | FieldKind::Double | FieldKind::FloatArr(_) | FieldKind::T | FieldKind::TArr(_) | FieldKind::IntArr(33..)));
        }
        // depth[i] = longest chain from a tainted node up to i through by-value deps
        let mut depth = vec![0usize; n];
        let mut best = 0;
        for i in 0..n {
            let (v, _) = self.deps(i);
            for d in v {
                if tainted[d] || depth[d] > 0 {
                    depth[i] = depth[i].max(depth[d] + 1);
                }
            }
            best = best.max(depth[i]);
        }
        best
    }
}

fn field_strategy(n: usize) -> impl Strategy<Value = FieldKind> {
    let idx = 0..n.max(1);
    let arg = prop_oneof![
        Just(Arg::Int),
        Just(Arg::Float),
        (0..n.max(1)).prop_map(Arg::Node),
        (0..n.max(1)).prop_map(Arg::PtrNode)
    ];
    prop_oneof![
        2 => Just(FieldKind::Int),
        2 => Just(FieldKind::Float),
        1 => Just(FieldKind::Double),
        1 => prop_oneof![Just(3u32), Just(32), Just(33), Just(64)].prop_map(FieldKind::IntArr),
        1 => prop_oneof![Just(2u32), Just(33)].prop_map(FieldKind::FloatArr),
        3 => idx.clone().prop_map(FieldKind::PtrTo),
        5 => idx.clone().prop_map(FieldKind::ByValue),
        2 => (idx.clone(), prop_oneof![Just(2u32), Just(33)]).prop_map(|(k, n)| FieldKind::ArrOf(k, n)),
        4 => (idx.clone(), arg.clone()).prop_map(|(t, a)| FieldKind::Inst(t, a)),
        1 => (idx.clone(), arg).prop_map(|(t, a)| FieldKind::PtrInst(t, a)),
        2 => idx.clone().prop_map(FieldKind::ViaTypedef),
        3 => Just(FieldKind::T),
        1 => prop_oneof![Just(2u32), Just(40)].prop_map(FieldKind::TArr),
        1 => Just(FieldKind::PtrT),
        1 => prop_oneof![Just(0u32), Just(12), Just(13)].prop_map(FieldKind::FnPtr),
        1 => (1u32..31).prop_map(FieldKind::Bitfield),
    ]
}

fn node_strategy(n: usize) -> impl Strategy<Value = Node> {
    let kind = prop_oneof![
        6 => Just(NodeKind::Class),
        3 => Just(NodeKind::Template),
        2 => field_strategy(n).prop_map(|f| NodeKind::Typedef(Box::new(f))),
        1 => (0..n.max(1)).prop_map(NodeKind::AliasTemplate),
        1 => Just(NodeKind::Union),
    ];
    (
        kind,
        proptest::collection::vec(0..n.max(1), 0..3),
        proptest::bool::weighted(0.15),
        proptest::collection::vec(field_strategy(n), 0..4),
        proptest::bool::weighted(0.15),
        proptest::bool::weighted(0.15),
    )
        .prop_map(|(kind, bases, virtual_bases, fields, virtual_method, dtor)| Node { kind, bases, virtual_bases, fields, virtual_method, dtor, tbases: vec![] })
}

fn tbases_strategy(n: usize) -> impl Strategy<Value = Vec<(usize, Option<Arg>)>> {
    let arg = prop_oneof![
        4 => Just(None),
        1 => Just(Some(Arg::Int)),
        1 => Just(Some(Arg::Float)),
        1 => (0..n.max(1)).prop_map(|k| Some(Arg::Node(k))),
        1 => (0..n.max(1)).prop_map(|k| Some(Arg::PtrNode(k))),
    ];
    proptest::collection::vec((0..n.max(1), arg), 0..3)
}

/// As `graph_strategy`, with classes and class templates that also derive from instantiations
/// of earlier class templates (`struct N3 : N1<int>`, `template<class T> struct N4 : N2<T>`).
pub fn graph_strategy_tb(max_nodes: usize) -> impl Strategy<Value = Graph> {
    (3..=max_nodes, proptest::bool::weighted(0.8))
        .prop_flat_map(|(n, cpp)| (proptest::collection::vec((node_strategy(n), proptest::option::weighted(0.45, tbases_strategy(n))), n), Just(cpp)))
        .prop_map(|(nodes, cpp)| {
            let nodes = nodes
                .into_iter()
                .map(|(mut nd, tb)| {
                    nd.tbases = tb.unwrap_or_default();
                    nd
                })
                .collect();
            let mut g = Graph { nodes, cpp };
            g.normalise();
            g
        })
}

pub fn graph_strategy(max_nodes: usize) -> impl Strategy<Value = Graph> {
    (3..=max_nodes, proptest::bool::weighted(0.8))
        .prop_flat_map(|(n, cpp)| (proptest::collection::vec(node_strategy(n), n), Just(cpp)))
        .prop_map(|(nodes, cpp)| {
            let mut g = Graph { nodes, cpp };
            g.normalise();
            g
        })
}

struct RunOut {
    result: BgResult,
    consulted: Vec<String>,
    unstable: usize,
}

fn generate_hooked(input: &BgInput, dir: &std::path::Path, seed: Option<u64>) -> RunOut {
    bindgen::verif::set_thread_config(Some((true, seed)));
    let _ = bindgen::verif::take_thread_log();
    let result = bg::generate(input, dir);
    let log = bindgen::verif::take_thread_log();
    bindgen::verif::set_thread_config(None);
    let consulted: BTreeSet<String> = log.iter().filter(|l| l.starts_with("FIXPOINT-UNSTABLE-CONSULTED")).cloned().collect();
    let unstable = log.iter().filter(|l| l.starts_with("FIXPOINT-UNSTABLE ")).count();
    RunOut { result, consulted: consulted.into_iter().collect(), unstable }
}

fn analysis_of(line: &str) -> String {
    let a = line.split_whitespace().find_map(|w| w.strip_prefix("analysis=")).unwrap_or("?");
    let opaque = line.split_whitespace().any(|w| w == "opaque=true");
    format!("{a}/{}", if opaque { "opaque-item" } else { "plain-item" })
}

/// facts of one output used for order independence
fn facts(text: &str) -> Result<BTreeMap<String, String>, String> {
    let inv = rs::inventory(text)?;
    let mut m = inv.type_facts();
    for a in &inv.asserts {
        let key = format!("assert {}::{}", a.module, a.ty);
        let mut offs = a.offsets.clone();
        offs.sort();
        m.entry(key).or_insert_with(|| format!("size={:?} align={:?} offsets={:?}", a.size, a.align, offs));
    }
    // functions / methods by name (signature)
    for i in inv.items.iter().filter(|i| i.kind == "foreign_fn") {
        m.insert(format!("fn {}::{}", i.module, i.name), format!("{} abi={} attrs={:?}", i.sig, i.abi, i.attrs));
    }
    Ok(m)
}

impl C07 {
    fn eval_repo(&self, name: &str, seeds: &[u64], env: &Env, out: &mut Outcome) {
        let path = std::path::Path::new(corpus::HEADERS_DIR).join(name);
        let Some(h) = corpus::load_one(&path) else {
            out.inconclusive = Some(format!("cannot load {name}"));
            return;
        };
        let input = h.input();
        let base = generate_hooked(&input, &env.dir, None);
        out.evaluations = 1;
        for l in &base.consulted {
            out.fail(format!("hook/unstable-consulted/{}", analysis_of(l)), format!("{name} (default schedule): {l}"));
        }
        if let BgResult::Panic(p) = &base.result {
            // not this property's business (C12), but a schedule must not change it either
            out.class("repo:panic-default");
            let _ = p;
        }
        if base.unstable > 0 {
            out.class("repo:has-unstable-unconsulted");
            out.nontrivial(format!("repo|{name}|default"));
        }
        for s in seeds {
            let r = generate_hooked(&input, &env.dir, Some(*s));
            out.evaluations += 1;
            out.nontrivial(format!("repo|{name}|{s}"));
            for l in &r.consulted {
                out.fail(format!("hook/unstable-consulted/{}", analysis_of(l)), format!("{name} (work-list seed {s}): {l}"));
            }
            if r.result != base.result {
                let d = first_diff(&base.result, &r.result);
                out.fail("schedule/output-differs", format!("{name}: work-list seed {s} changes the output: {d}"));
            }
        }
        out.sample = Some(json!({"repo_header": name, "seeds": seeds, "unstable_nodes_default_schedule": base.unstable}));
    }

    #[allow(clippy::too_many_arguments)]
    fn eval_dag(&self, case: &Case, env: &Env, out: &mut Outcome) {
        let Case::Dag { graph, order_prios, seeds, opaque, blocklist, allow_roots, derive_all, keep_known, no_recursive } = case else { unreachable!() };
        let mut g = graph.clone();
        g.normalise();
        let n = g.nodes.len();
        let cap = env.tier.pick(24, 720);
        let mut orders: Vec<Vec<usize>> = if n <= 6 { g.all_orders(cap) } else { vec![g.order_from_prios(&[])] };
        for p in order_prios {
            let o = g.order_from_prios(p);
            if !orders.contains(&o) {
                orders.push(o);
            }
        }
        let mut flags: Vec<String> = vec!["--formatter=none".into(), "--no-include-path-detection".into(), "--disable-header-comment".into()];
        if *derive_all {
            for f in ["--with-derive-default", "--with-derive-hash", "--with-derive-partialeq", "--with-derive-partialord", "--with-derive-eq", "--with-derive-ord", "--impl-debug", "--impl-partialeq"] {
                flags.push(f.into());
            }
        }
        let classlike: Vec<usize> = (0..n).filter(|i| g.is_classlike(*i) || matches!(g.nodes[*i].kind, NodeKind::Template)).collect();
        // known finding (known_findings.json, C07 HasVtableAnalysis): the vtable fact of an opaque
        // struct with a polymorphic base is not a fixed point. Excluded by construction (counted),
        // unless this case is the replay of that finding.
        let poly = g.polymorphic();
        // (the same holds for the destructor fact: an opaque struct whose base has a destructor)
        let mut dtor_any = vec![false; n];
        for i in 0..n {
            dtor_any[i] = g.nodes[i].dtor || g.nodes[i].bases.iter().any(|b| dtor_any[*b]) || g.nodes[i].tbases.iter().any(|(b, _)| dtor_any[*b]);
        }
        let mut kept_known_opaque = false;
        let mut kept_known_dtor = false;
        for i in opaque.iter().filter(|i| classlike.contains(i)) {
            let has_poly_base = g.nodes[*i].bases.iter().any(|b| poly[*b]) || g.nodes[*i].tbases.iter().any(|(b, _)| poly[*b]);
            let has_dtor_base = g.nodes[*i].bases.iter().any(|b| dtor_any[*b]) || g.nodes[*i].tbases.iter().any(|(b, _)| dtor_any[*b]);
            if (has_poly_base || has_dtor_base) && !*keep_known {
                out.excluded_known += 1;
                continue;
            }
            kept_known_opaque |= has_poly_base;
            kept_known_dtor |= has_dtor_base;
            flags.push("--opaque-type".into());
            flags.push(nname(*i));
        }
        let sig_of = |l: &str| -> String {
            let a = analysis_of(l);
            if kept_known_opaque && a.starts_with("HasVtableAnalysis/") {
                "HasVtableAnalysis/opaque-polymorphic-base".to_string()
            } else if kept_known_dtor && a.starts_with("HasDestructorAnalysis/") {
                "HasDestructorAnalysis/opaque-base-with-destructor".to_string()
            } else {
                a
            }
        };
        for i in blocklist.iter().filter(|i| classlike.contains(i) && !opaque.contains(i)) {
            flags.push("--blocklist-type".into());
            flags.push(nname(*i));
        }
        for i in allow_roots.iter().filter(|i| **i < n) {
            flags.push("--allowlist-type".into());
            flags.push(nname(*i));
        }
        if *no_recursive && allow_roots.iter().any(|i| *i < n) {
            flags.push("--no-recursive-allowlist".into());
            out.class("dag:no-recursive-allowlist");
        }
        let clang_args: Vec<String> = if g.cpp { vec!["-x".into(), "c++".into(), "-std=c++14".into()] } else { vec!["-x".into(), "c".into()] };
        let depth = g.taint_depth();
        out.evaluations = 0;
        let mut reference: Option<(Vec<usize>, BTreeMap<String, String>)> = None;
        let ghash = fnv(&format!("{g:?}{flags:?}"));
        for order in &orders {
            let text = g.render(order);
            let input = BgInput {
                files: vec![("in.hpp".into(), text.clone())],
                headers: vec!["in.hpp".into()],
                flags: flags.clone(),
                clang_args: clang_args.clone(),
                callbacks: vec![],
            };
            let base = generate_hooked(&input, &env.dir, None);
            out.evaluations += 1;
            let okey = format!("dag|{ghash:x}|{order:?}");
            if depth >= 2 {
                out.nontrivial(okey.clone());
            }
            for l in &base.consulted {
                out.fail(format!("hook/unstable-consulted/{}", sig_of(l)), format!("order {order:?} default schedule: {l}\n{text}"));
            }
            let Some(btext) = base.result.ok() else {
                match &base.result {
                    BgResult::Err(e) if e.contains("ClangDiagnostic") => {
                        // the renderer produced C++ clang rejects: generator bug, not a violation
                        out.inconclusive = Some(format!("generated header rejected by clang: {e}\n{text}"));
                        return;
                    }
                    other => {
                        out.class("dag:generation-failed");
                        out.inconclusive = Some(format!("generation failed ({}); left to C12", other.describe()));
                        return;
                    }
                }
            };
            for s in seeds {
                let r = generate_hooked(&input, &env.dir, Some(*s));
                out.evaluations += 1;
                for l in &r.consulted {
                    out.fail(format!("hook/unstable-consulted/{}", sig_of(l)), format!("order {order:?} work-list seed {s}: {l}\n{text}"));
                }
                if r.result != base.result {
                    out.fail(if kept_known_dtor || kept_known_opaque { "schedule/output-differs/opaque-struct-base-fact" } else { "schedule/output-differs" }, format!("order {order:?}: work-list seed {s} changes the output: {}\n{text}", first_diff(&base.result, &r.result)));
                }
            }
            match facts(btext) {
                Err(e) => {
                    out.fail("order/output-unparseable", format!("order {order:?}: {e}"));
                }
                Ok(f) => match &reference {
                    None => reference = Some((order.clone(), f)),
                    Some((o0, f0)) => {
                        if *f0 != f {
                            let mut diffs = vec![];
                            let keys: BTreeSet<&String> = f0.keys().chain(f.keys()).collect();
                            for k in keys {
                                if f0.get(k) != f.get(k) {
                                    diffs.push(format!("{k}:\n   order {o0:?}: {}\n   order {order:?}: {}", f0.get(k).map(|s| s.as_str()).unwrap_or("<absent>"), f.get(k).map(|s| s.as_str()).unwrap_or("<absent>")));
                                }
                            }
                            let what = diff_class(&diffs);
                            out.fail(
                                format!("order/facts-differ/{what}"),
                                format!("{}\n--- header (order {o0:?}) ---\n{}--- header (order {order:?}) ---\n{}", diffs.join("\n"), g.render(o0), text),
                            );
                        }
                    }
                },
            }
        }
        out.class(if g.cpp { "dag:c++" } else { "dag:c" });
        out.class(format!("dag:taint-depth-{}", depth.min(4)));
        out.class(format!("dag:orders-{}", match orders.len() { 1 => "1", 2..=5 => "2-5", 6..=24 => "6-24", _ => "25+" }));
        if !opaque.is_empty() || !blocklist.is_empty() {
            out.class("dag:opaque-or-blocklist");
        }
        if !allow_roots.is_empty() {
            out.class("dag:allowlist-cut");
        }
        if g.nodes.iter().any(|n| n.bases.len() >= 2) {
            out.class("dag:multiple-inheritance");
        }
        if g.nodes.iter().any(|n| matches!(n.kind, NodeKind::Template)) {
            out.class("dag:template");
        }
        if g.nodes.iter().any(|n| !n.tbases.is_empty()) {
            out.class("dag:base-is-instantiation");
        }
        if g.nodes.iter().enumerate().any(|(i, n)| n.tbases.iter().any(|(b, a)| a.is_none() && g.nodes[*b].tbases.iter().any(|(_, a2)| a2.is_none()) && i > *b)) {
            out.class("dag:template-base-chain-2+");
        }
        out.sample = Some(json!({"header_canonical_order": g.render(&orders[0]), "orders": orders.len(), "seeds": seeds, "flags": flags}));
    }
}

fn diff_class(diffs: &[String]) -> &'static str {
    let all = diffs.join("\n");
    // classify by the first differing facet
    let a = all.find("order [").map(|i| &all[i..]).unwrap_or(&all);
    let _ = a;
    if all.contains("<absent>") {
        "item-set"
    } else {
        "item-content"
    }
}

fn first_diff(a: &BgResult, b: &BgResult) -> String {
    match (a, b) {
        (BgResult::Ok(x), BgResult::Ok(y)) => {
            let la: Vec<&str> = x.split(';').collect();
            let lb: Vec<&str> = y.split(';').collect();
            for (p, q) in la.iter().zip(lb.iter()) {
                if p != q {
                    return format!("`{}` vs `{}`", p.chars().take(300).collect::<String>(), q.chars().take(300).collect::<String>());
                }
            }
            format!("lengths {} vs {}", x.len(), y.len())
        }
        _ => format!("{} vs {}", a.describe(), b.describe()),
    }
}

/// A fact that starts at the root of a chain of class templates has to travel along every edge
/// kind: root feature x chain of 1..3 links (template base `Nk<T>`, by-value member `Nk<T>`,
/// member array, alias template) x a concrete use at the end (member, base, typedef).
pub fn chain_grid() -> Vec<Case> {
    let roots: Vec<(Vec<FieldKind>, bool, bool)> = vec![
        (vec![FieldKind::TArr(2)], false, false),
        (vec![FieldKind::TArr(40)], false, false),
        (vec![FieldKind::T], false, false),
        (vec![FieldKind::PtrT, FieldKind::FloatArr(33)], false, false),
        (vec![FieldKind::IntArr(33)], false, false),
        (vec![FieldKind::Float], false, false),
        (vec![FieldKind::Int], true, false),
        (vec![FieldKind::Int], false, true),
        (vec![FieldKind::FnPtr(13), FieldKind::Bitfield(3)], false, false),
    ];
    let node = |kind: NodeKind, fields: Vec<FieldKind>, tbases: Vec<(usize, Option<Arg>)>, vm: bool, dtor: bool| Node { kind, bases: vec![], virtual_bases: false, fields, virtual_method: vm, dtor, tbases };
    let mut v = vec![];
    for (rf, vm, dtor) in &roots {
        for depth in 1..=3usize {
            for link in 0..3u8 {
                for end in 0..3u8 {
                    let mut nodes = vec![node(NodeKind::Template, rf.clone(), vec![], *vm, *dtor)];
                    for d in 0..depth {
                        let prev = nodes.len() - 1;
                        // links alternate so that mixed chains occur at depth >= 2
                        match (link + d as u8) % 3 {
                            0 => nodes.push(node(NodeKind::Template, vec![FieldKind::Int], vec![(prev, None)], false, false)),
                            1 => nodes.push(node(NodeKind::Template, vec![FieldKind::Int, FieldKind::PtrInst(prev, Arg::Int)], vec![(prev, None)], false, false)),
                            _ => {
                                nodes.push(node(NodeKind::AliasTemplate(prev), vec![], vec![], false, false));
                                let a = nodes.len() - 1;
                                nodes.push(node(NodeKind::Template, vec![FieldKind::Int], vec![(a, None)], false, false));
                            }
                        }
                    }
                    let last = nodes.len() - 1;
                    match end {
                        0 => nodes.push(node(NodeKind::Class, vec![FieldKind::Inst(last, Arg::Int)], vec![], false, false)),
                        1 => nodes.push(node(NodeKind::Class, vec![FieldKind::Int], vec![(last, Some(Arg::Float))], false, false)),
                        _ => {
                            nodes.push(node(NodeKind::Typedef(Box::new(FieldKind::Inst(last, Arg::Int))), vec![], vec![], false, false));
                            let t = nodes.len() - 1;
                            nodes.push(node(NodeKind::Class, vec![FieldKind::ViaTypedef(t), FieldKind::Int], vec![], false, false));
                        }
                    }
                    v.push(Case::Dag { graph: Graph { nodes, cpp: true }, order_prios: vec![], seeds: vec![1], opaque: vec![], blocklist: vec![], allow_roots: vec![], derive_all: true, keep_known: false, no_recursive: false });
                }
            }
        }
    }
    v
}

impl Property for C07 {
    type Case = Case;
    fn id(&self) -> &'static str {
        "C07"
    }
    fn rule(&self) -> String {
        "fixed: every repository header under the default schedule + k work-list seeds (hooks H1-H3); generated: declaration DAGs (classes, unions, templates, alias templates, typedefs; bases, by-value/pointer/array/instantiation members; float, vtable, destructor, type-parameter taint; opaque/blocklist/allowlist cuts) rendered in all linear extensions (<=6 nodes, capped) or proptest-sampled ones, each under the default schedule and the seeds; non-trivial = a (graph, order) whose taint must cross >=2 by-value edges, or a (repo header, seed) schedule; distinct by (graph hash, order) / (header, seed)".into()
    }
    fn assumptions(&self) -> Vec<String> {
        vec![
            "the H1 sweep re-applies each analysis' own constrain() to a clone; a rule that is wrong everywhere (not merely unconverged) is invisible to it".into(),
            "work-list seeds permute the initial work-list (group order only for CannotDerive, LIFO kept) and flip LIFO/FIFO; they emulate renumberings of declarations".into(),
        ]
    }
    fn strategy(&self, tier: Tier) -> BoxedStrategy<Case> {
        let max_nodes = tier.pick(8, 9);
        (
            prop_oneof![graph_strategy(max_nodes).boxed(), graph_strategy_tb(max_nodes).boxed()],
            proptest::collection::vec(proptest::collection::vec(0u16..8, 9), 0..4),
            proptest::collection::vec(0usize..9, 0..2),
            proptest::collection::vec(0usize..9, 0..2),
            prop_oneof![3 => Just(vec![]), 1 => proptest::collection::vec(0usize..9, 1..3), 1 => proptest::collection::vec(0usize..9, 2..6)],
            proptest::bool::weighted(0.6),
            proptest::bool::weighted(0.5),
        )
            .prop_map(move |(graph, order_prios, opaque, blocklist, allow_roots, derive_all, no_recursive)| Case::Dag {
                graph,
                order_prios,
                seeds: vec![1, 2],
                opaque,
                blocklist,
                allow_roots,
                derive_all,
                keep_known: false,
                no_recursive,
            })
            .boxed()
    }
    fn generated(&self, tier: Tier) -> usize {
        tier.pick(400, 6000)
    }
    fn fixed_cases(&self, tier: Tier) -> Vec<Case> {
        let seeds: Vec<u64> = match tier {
            Tier::Quick => vec![1, 2, 3],
            Tier::Thorough => (1..=16).collect(),
        };
        let mut v: Vec<Case> = corpus::load_all().into_iter().map(|h| Case::Repo { name: h.name, seeds: seeds.clone() }).collect();
        v.extend(chain_grid());
        v
    }
    fn evaluate(&self, case: &Case, env: &Env) -> Outcome {
        let mut out = Outcome::new();
        match case {
            Case::Repo { name, seeds } => self.eval_repo(name, seeds, env, &mut out),
            Case::Dag { .. } => self.eval_dag(case, env, &mut out),
        }
        out
    }
}
