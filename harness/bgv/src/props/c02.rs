//! C02 — generated types match the C compiler's size, alignment, offsets, widths, signedness.
//! Differential: C probe compiled by clang vs Rust probe compiled by rustc on the bindings,
//! for three presentation option sets per generated type graph.

use crate::bg::{self, BgInput, BgResult};
use crate::cmodel::*;
use crate::engine::{fnv, Env, Outcome, Property, Tier};
use crate::probe::{self, Facts, RustWalk};
use crate::rs;
use crate::tools;
use proptest::prelude::*;
use serde::{Deserialize, Serialize};
use serde_json::json;
use std::collections::BTreeSet;

pub struct C02;

#[derive(Clone, Debug, Serialize, Deserialize)]
pub struct Case {
    pub prog: Program,
    /// presentation option sets (flag vectors); the default set is always run first
    pub opt_sets: Vec<Vec<String>>,
    /// replay of a known finding: keep the constructs that are otherwise excluded by construction
    #[serde(default)]
    pub keep_known: bool,
}

pub const PRESENTATION_FLAGS: &[&[&str]] = &[
    &["--with-derive-default"],
    &["--with-derive-hash", "--with-derive-partialeq", "--with-derive-eq"],
    &["--with-derive-partialord", "--with-derive-ord", "--with-derive-partialeq", "--with-derive-eq"],
    &["--no-derive-copy"],
    &["--no-derive-debug"],
    &["--impl-debug", "--impl-partialeq", "--with-derive-partialeq"],
    &["--default-enum-style", "rust"],
    &["--default-enum-style", "newtype"],
    &["--default-enum-style", "bitfield"],
    &["--default-enum-style", "moduleconsts"],
    &["--default-enum-style", "newtype_global"],
    &["--default-alias-style", "new_type"],
    &["--default-alias-style", "new_type_deref"],
    &["--disable-untagged-union"],
    &["--default-non-copy-union-style", "manually_drop", "--no-derive-copy"],
    &["--explicit-padding"],
    &["--no-layout-tests"],
    &["--c-naming"],
    &["--enable-cxx-namespaces"],
    &["--rust-target", "1.76"],
    &["--rust-target", "1.64"],
    &["--translate-enum-integer-types"],
    &["--no-size_t-is-usize"],
    &["--flexarray-dst", "--rust-target", "nightly"],
    &["--default-visibility", "crate"],
    &["--use-core"],
    &["--anon-fields-prefix", "anonf_"],
];

/// Systematic family the random generator reaches only rarely: a member whose C alignment
/// exceeds what its Rust type carries (aligned typedef, member attribute, over-aligned
/// struct, 16-aligned scalar), placed after a gap of 1..15 bytes, in structs and unions.
/// One program per (over-aligned kind, alignment); two option sets each.
/// Systematic family: typedefs with the names bindgen maps by *name* (`size_t`, `ssize_t`,
/// `intptr_t`, `uintptr_t`, `ptrdiff_t`, the fixed-width `intN_t` family, `wchar_t`), used as
/// members, array elements and through a further typedef, with and without the size_t mapping.
fn well_known_typedef_grid() -> Vec<Case> {
    let names: &[(&str, Prim)] = &[
        ("size_t", Prim::ULong),
        ("ssize_t", Prim::Long),
        ("intptr_t", Prim::Long),
        ("uintptr_t", Prim::ULong),
        ("ptrdiff_t", Prim::Long),
        ("int8_t", Prim::SChar),
        ("uint8_t", Prim::UChar),
        ("int16_t", Prim::Short),
        ("uint16_t", Prim::UShort),
        ("int32_t", Prim::Int),
        ("uint32_t", Prim::UInt),
        ("int64_t", Prim::Long),
        ("uint64_t", Prim::ULong),
        ("off_t", Prim::Long),
        ("time_t", Prim::Long),
    ];
    let mut decls: Vec<Decl> = names.iter().map(|(n, p)| Decl::Typedef { name: n.to_string(), ty: Ty::Prim(*p), aligned: None }).collect();
    let n = names.len();
    // a second-level typedef of each
    for (k, (nm, _)) in names.iter().enumerate() {
        decls.push(Decl::Typedef { name: format!("my_{nm}"), ty: Ty::Named(k), aligned: None });
    }
    let mut fields = vec![Field { name: "lead".into(), ty: FieldTy::Ty(Ty::Prim(Prim::Char)), bits: None, align: None }];
    for (k, (nm, _)) in names.iter().enumerate() {
        fields.push(Field { name: format!("m_{nm}"), ty: FieldTy::Ty(Ty::Named(k)), bits: None, align: None });
        fields.push(Field { name: format!("a_{nm}"), ty: FieldTy::Ty(Ty::Array { of: Box::new(Ty::Named(n + k)), dims: vec![ArrLen::Fixed(3)] }), bits: None, align: None });
    }
    decls.push(Decl::Comp(Comp { is_union: false, tag: Some("WellKnown".into()), fields, packed: false, aligned: None, pragma_pack: None, typedef_name: None }));
    let prog = Program { decls };
    vec![
        Case { prog: prog.clone(), opt_sets: vec![vec![], vec!["--no-size_t-is-usize".into()]], keep_known: false },
        Case { prog, opt_sets: vec![vec!["--ctypes-prefix".into(), "::core::ffi".into()], vec!["--use-core".into()]], keep_known: false },
    ]
}

fn overaligned_member_grid() -> Vec<Case> {
    let mut cases = vec![];
    let elems = [Prim::Char, Prim::Int, Prim::Double];
    for kind in 0..4usize {
        for a in [16u32, 32] {
            if kind == 3 && a == 32 {
                continue;
            }
            let mut decls: Vec<Decl> = vec![];
            // declaration 0: the over-aligned type (when it needs one)
            let mut member_tys: Vec<(Ty, Option<u32>)> = vec![];
            match kind {
                0 => {
                    for (k, e) in elems.iter().enumerate() {
                        decls.push(Decl::Typedef { name: format!("al{a}_{k}"), ty: Ty::Prim(*e), aligned: Some(a) });
                        member_tys.push((Ty::Named(k), None));
                    }
                }
                1 => {
                    for e in elems.iter() {
                        member_tys.push((Ty::Prim(*e), Some(a)));
                    }
                }
                2 => {
                    decls.push(Decl::Comp(Comp {
                        is_union: false,
                        tag: Some(format!("Over{a}")),
                        fields: vec![Field { name: "v".into(), ty: FieldTy::Ty(Ty::Prim(Prim::Int)), bits: None, align: None }],
                        packed: false,
                        aligned: Some(a),
                        pragma_pack: None,
                        typedef_name: None,
                    }));
                    member_tys.push((Ty::Named(0), None));
                }
                _ => {
                    member_tys.push((Ty::Prim(Prim::LongDouble), None));
                    member_tys.push((Ty::Prim(Prim::Int128), None));
                }
            }
            let mut n = 0usize;
            for (mt, malign) in &member_tys {
                for gap in [1u64, 3, 4, 7, 8, 12, 15] {
                    for is_union in [false, true] {
                        if is_union && gap != 1 {
                            continue;
                        }
                        let prefix_len = a as u64 - gap;
                        let mut fields = vec![];
                        if prefix_len >= 8 && gap % 4 == 0 {
                            // a scalar head and a small array: the gap follows a 4-byte member
                            fields.push(Field { name: "h".into(), ty: FieldTy::Ty(Ty::Prim(Prim::LongLong)), bits: None, align: None });
                            if prefix_len > 8 {
                                fields.push(Field { name: "p".into(), ty: FieldTy::Ty(Ty::Array { of: Box::new(Ty::Prim(Prim::Int)), dims: vec![ArrLen::Fixed(((prefix_len - 8) / 4) as u32)] }), bits: None, align: None });
                            }
                        } else {
                            fields.push(Field { name: "p".into(), ty: FieldTy::Ty(Ty::Array { of: Box::new(Ty::Prim(Prim::Char)), dims: vec![ArrLen::Fixed(prefix_len as u32)] }), bits: None, align: None });
                        }
                        fields.push(Field { name: "x".into(), ty: FieldTy::Ty(mt.clone()), bits: None, align: *malign });
                        fields.push(Field { name: "tail".into(), ty: FieldTy::Ty(Ty::Prim(Prim::Int)), bits: None, align: None });
                        decls.push(Decl::Comp(Comp { is_union, tag: Some(format!("G{kind}_{a}_{n}")), fields, packed: false, aligned: None, pragma_pack: None, typedef_name: None }));
                        n += 1;
                    }
                }
            }
            let mut prog = Program { decls };
            prog.normalise();
            cases.push(Case { prog, opt_sets: vec![vec![], vec!["--explicit-padding".into()]], keep_known: false });
        }
    }
    cases
}

pub fn opt_set_strategy() -> BoxedStrategy<Vec<String>> {
    proptest::collection::vec(0..PRESENTATION_FLAGS.len(), 1..4)
        .prop_map(|idx| {
            let mut flags: Vec<String> = vec![];
            let mut seen_keys: BTreeSet<&str> = BTreeSet::new();
            for i in idx {
                let group = PRESENTATION_FLAGS[i];
                // one value per valued option, no repeated switches
                if group.iter().any(|f| f.starts_with("--") && seen_keys.contains(f)) {
                    continue;
                }
                for f in group.iter() {
                    if f.starts_with("--") {
                        seen_keys.insert(f);
                    }
                    flags.push(f.to_string());
                }
            }
            flags
        })
        .boxed()
}

/// Class of a comp for signatures: which layout features are in play.
fn comp_class(p: &Program, c: &Comp) -> String {
    fn feat(c: &Comp, out: &mut BTreeSet<&'static str>) {
        if c.packed {
            out.insert("packed");
        }
        if c.aligned.is_some() {
            out.insert("aligned");
        }
        if c.pragma_pack.is_some() {
            out.insert("pragma-pack");
        }
        if c.is_union {
            out.insert("union");
        }
        for (k, f) in c.fields.iter().enumerate() {
            if let Some(b) = f.bits {
                out.insert("bitfield");
                if b == 0 && matches!(c.fields.get(k + 1), Some(n) if n.name.is_empty() && matches!(n.ty, FieldTy::Inline(_))) {
                    // (only in replays of that known finding: excluded by construction otherwise)
                    out.insert("zero-width-before-anonymous-member");
                }
                if b == 0 {
                    // a zero-width separator that opens a run (first field or after a plain member)
                    let prev_is_bf = k > 0 && c.fields[k - 1].bits.is_some();
                    if !prev_is_bf {
                        out.insert("zero-width-first-in-run");
                    } else {
                        out.insert("zero-width");
                    }
                }
            }
            if f.align.is_some() {
                out.insert("member-aligned");
            }
            match &f.ty {
                FieldTy::Inline(ic) => feat(ic, out),
                FieldTy::Ty(Ty::Array { dims, .. }) => {
                    if dims[0] == ArrLen::Flexible {
                        out.insert("flexible");
                    }
                    if dims[0] == ArrLen::Zero {
                        out.insert("zero-array");
                    }
                }
                FieldTy::Ty(Ty::Prim(Prim::LongDouble)) => {
                    out.insert("long-double");
                }
                FieldTy::Ty(Ty::Prim(Prim::Int128)) | FieldTy::Ty(Ty::Prim(Prim::UInt128)) => {
                    out.insert("int128");
                }
                _ => {}
            }
        }
    }
    fn typedef_align(p: &Program, c: &Comp, out: &mut BTreeSet<&'static str>) {
        for f in &c.fields {
            match &f.ty {
                FieldTy::Inline(ic) => typedef_align(p, ic, out),
                FieldTy::Ty(Ty::Named(k)) => {
                    let mut k = *k;
                    loop {
                        match &p.decls[k] {
                            Decl::Typedef { aligned: Some(a), .. } => {
                                out.insert(if *a <= 8 { "aligned-typedef-le8" } else { "aligned-typedef" });
                                break;
                            }
                            Decl::Typedef { ty: Ty::Named(j), .. } => k = *j,
                            _ => break,
                        }
                    }
                }
                _ => {}
            }
        }
    }
    let mut s = BTreeSet::new();
    feat(c, &mut s);
    typedef_align(p, c, &mut s);
    if s.is_empty() {
        "plain".into()
    } else {
        s.into_iter().collect::<Vec<_>>().join("+")
    }
}

/// Types that (transitively, by value) contain decl `k`.
fn contains_by_value(p: &Program, i: usize, k: usize) -> bool {
    fn ty_has(p: &Program, t: &Ty, k: usize) -> bool {
        let mut refs = BTreeSet::new();
        t.named_refs(&mut refs, true);
        refs.iter().any(|r| *r == k || contains_by_value(p, *r, k))
    }
    fn comp_has(p: &Program, c: &Comp, k: usize) -> bool {
        c.fields.iter().any(|f| match &f.ty {
            FieldTy::Ty(t) => ty_has(p, t, k),
            FieldTy::Inline(ic) => comp_has(p, ic, k),
        })
    }
    match &p.decls[i] {
        Decl::Comp(c) => comp_has(p, c, k),
        Decl::Typedef { ty, .. } => ty_has(p, ty, k),
        _ => false,
    }
}

pub fn anon_prefix(flags: &[String]) -> String {
    flags.iter().position(|f| f == "--anon-fields-prefix").and_then(|i| flags.get(i + 1)).cloned().unwrap_or_else(|| "__bindgen_anon_".to_string())
}

pub struct Observed {
    pub c_facts: Facts,
    pub header: String,
}

/// Write the header, compile and run the C probe.
pub fn observe_c(prog: &Program, dir: &std::path::Path) -> Result<Observed, String> {
    let header = prog.render();
    std::fs::write(dir.join("in.h"), &header).map_err(|e| e.to_string())?;
    std::fs::write(dir.join("cprobe.c"), probe::c_probe_source(prog, "in.h")).map_err(|e| e.to_string())?;
    let out = tools::clang_run(dir, "cprobe.c", &["-std=gnu11".into()])?;
    Ok(Observed { c_facts: probe::parse_facts(&out), header })
}

pub struct RustSide {
    pub facts: Facts,
    pub walk: RustWalk,
    pub bindings: String,
}

pub enum RustErr {
    Generation(String),
    Rustc { codes: Vec<String>, first: String, stderr: String },
    Unparseable(String),
    Run(String),
    Tool(String),
}

/// Generate bindings with `flags`, build and run the Rust probe.
pub fn observe_rust(prog: &Program, flags: &[String], dir: &std::path::Path, tag: &str) -> Result<RustSide, RustErr> {
    let mut f: Vec<String> = vec!["--no-include-path-detection".into(), "--formatter=none".into()];
    f.extend(flags.iter().cloned());
    let input = BgInput { files: vec![], headers: vec!["in.h".into()], flags: f, clang_args: vec!["-std=gnu11".into()], callbacks: vec![] };
    let text = match bg::generate(&input, dir) {
        BgResult::Ok(t) => t,
        other => return Err(RustErr::Generation(other.describe())),
    };
    let inv = rs::inventory(&text).map_err(RustErr::Unparseable)?;
    let ns = flags.iter().any(|x| x == "--enable-cxx-namespaces");
    let c_naming = flags.iter().any(|x| x == "--c-naming");
    let walk = RustWalk::run_with(prog, &inv, if ns { "root" } else { "" }, c_naming, &anon_prefix(flags));
    let bfile = format!("b_{tag}.rs");
    std::fs::write(dir.join(&bfile), &text).map_err(|e| RustErr::Tool(e.to_string()))?;
    let pfile = format!("p_{tag}.rs");
    std::fs::write(dir.join(&pfile), probe::rust_probe_source(&bfile, &walk, ns)).map_err(|e| RustErr::Tool(e.to_string()))?;
    let nightly = flags.iter().any(|x| x == "nightly");
    let mut src = std::fs::read_to_string(dir.join(&pfile)).unwrap();
    if nightly {
        src = format!("#![feature(ptr_metadata, layout_for_ptr)]\n{src}");
        std::fs::write(dir.join(&pfile), &src).ok();
    }
    let edition = if flags.iter().any(|x| x == "1.64" || x == "1.76") { "2021" } else { "2021" };
    let exe = format!("p_{tag}.exe");
    let o = tools::Rustc { dir, edition, nightly }.build_exe(&pfile, &exe, &[], false).map_err(RustErr::Tool)?;
    if !o.ok() {
        let (codes, first) = tools::rustc_error_summary(&o.stderr);
        return Err(RustErr::Rustc { codes, first, stderr: o.stderr });
    }
    let r = tools::run_exe(dir, &exe, &[], 60).map_err(RustErr::Tool)?;
    if !r.ok() {
        return Err(RustErr::Run(format!("status {:?} signal {:?}: {}", r.status, r.signal, r.stderr.chars().take(400).collect::<String>())));
    }
    Ok(RustSide { facts: probe::parse_facts(&r.stdout), walk, bindings: text })
}

/// Generate bindings for every option set, then build and run ONE probe crate holding all of
/// them (one module each). Falls back to one build per set when the combined crate does not
/// compile, so that compile errors are attributed to the right option set.
pub fn observe_rust_all(prog: &Program, sets: &[Vec<String>], dir: &std::path::Path) -> Vec<Result<RustSide, RustErr>> {
    struct Gen {
        text: String,
        walk: RustWalk,
        ns: bool,
    }
    let mut gens: Vec<Result<Gen, RustErr>> = vec![];
    let mut needs_nightly = false;
    for flags in sets {
        let mut f: Vec<String> = vec!["--no-include-path-detection".into(), "--formatter=none".into()];
        f.extend(flags.iter().cloned());
        let input = BgInput { files: vec![], headers: vec!["in.h".into()], flags: f, clang_args: vec!["-std=gnu11".into()], callbacks: vec![] };
        let g = match bg::generate(&input, dir) {
            BgResult::Ok(text) => match rs::inventory(&text) {
                Ok(inv) => {
                    let ns = flags.iter().any(|x| x == "--enable-cxx-namespaces");
                    let c_naming = flags.iter().any(|x| x == "--c-naming");
                    let walk = RustWalk::run_with(prog, &inv, if ns { "root" } else { "" }, c_naming, &anon_prefix(flags));
                    Ok(Gen { text, walk, ns })
                }
                Err(e) => Err(RustErr::Unparseable(e)),
            },
            other => Err(RustErr::Generation(other.describe())),
        };
        if flags.iter().any(|x| x == "nightly") {
            needs_nightly = true;
        }
        gens.push(g);
    }
    if needs_nightly || gens.iter().any(|g| g.is_err()) {
        // slow path: one by one
        return sets.iter().enumerate().map(|(k, flags)| observe_rust(prog, flags, dir, &format!("{k}"))).collect();
    }
    let gens: Vec<Gen> = gens.into_iter().map(|g| g.ok().unwrap()).collect();
    let mut parts = vec![];
    for (k, g) in gens.iter().enumerate() {
        let file = format!("b_{k}.rs");
        if std::fs::write(dir.join(&file), &g.text).is_err() {
            return vec![Err(RustErr::Tool("write".into()))];
        }
        parts.push((format!("v{k}"), file, &g.walk, g.ns));
    }
    let src = probe::rust_probe_source_multi(&parts);
    let _ = std::fs::write(dir.join("p_all.rs"), src);
    let o = match (tools::Rustc { dir, edition: "2021", nightly: false }).build_exe("p_all.rs", "p_all.exe", &[], false) {
        Ok(o) => o,
        Err(e) => return vec![Err(RustErr::Tool(e))],
    };
    if !o.ok() {
        return sets.iter().enumerate().map(|(k, flags)| observe_rust(prog, flags, dir, &format!("{k}"))).collect();
    }
    let r = match tools::run_exe(dir, "p_all.exe", &[], 60) {
        Ok(r) if r.ok() => r,
        Ok(r) => return vec![Err(RustErr::Run(format!("status {:?} signal {:?}", r.status, r.signal)))],
        Err(e) => return vec![Err(RustErr::Tool(e))],
    };
    gens.into_iter()
        .enumerate()
        .map(|(k, g)| Ok(RustSide { facts: probe::parse_facts_multi(&r.stdout, &format!("v{k}")), walk: g.walk, bindings: g.text }))
        .collect()
}

impl Property for C02 {
    type Case = Case;
    fn id(&self) -> &'static str {
        "C02"
    }
    fn rule(&self) -> String {
        "generated C type graphs (3..14 declarations: structs/unions nested to depth 3 incl. anonymous members, all integer/float kinds incl. long double/__int128/wchar_t/size_t, pointers, function pointers, 1-2 dimensional arrays incl. [0] and flexible, bit-field runs between plain members, packed / aligned(N) / member aligned / #pragma pack, enums with explicit/negative/64-bit values and fixed underlying types, typedef chains, forward-declared types) x 3 presentation option sets (default + 2 drawn from 27 groups). Facts (size, align per type; offset, width, integer signedness per named non-bit-field member path) printed by a clang-compiled C probe and a rustc-compiled Rust probe over the bindings must agree. Non-trivial = a comp with >=2 members and one of {nested aggregate, packed/aligned/pragma-pack, array, bit-field neighbour, union}; distinct by structural hash of the type".into()
    }
    fn assumptions(&self) -> Vec<String> {
        vec![
            "host target x86_64-unknown-linux-gnu only (other targets: C06)".into(),
            "types bindgen turns into an opaque blob are compared by size and alignment only".into(),
            "bit-field members themselves are C03's subject; their effect on neighbours' offsets is checked here".into(),
        ]
    }
    fn parallelism(&self) -> usize {
        16
    }
    fn shrink_steps(&self) -> usize {
        40
    }
    fn max_shrunk_signatures(&self) -> usize {
        3
    }
    fn strategy(&self, _tier: Tier) -> BoxedStrategy<Case> {
        (program_strategy(GenCfg::data_types()), proptest::collection::vec(opt_set_strategy(), 2)).prop_map(|(prog, opt_sets)| Case { prog, opt_sets, keep_known: false }).boxed()
    }
    fn generated(&self, tier: Tier) -> usize {
        tier.pick(250, 6000)
    }
    fn fixed_cases(&self, _tier: Tier) -> Vec<Case> {
        let mut v = overaligned_member_grid();
        v.extend(well_known_typedef_grid());
        v
    }
    fn evaluate(&self, case: &Case, env: &Env) -> Outcome {
        let mut out = Outcome::new();
        out.evaluations = 0;
        let mut prog = case.prog.clone();
        prog.normalise();
        if !case.keep_known {
            out.excluded_known += prog.strip_unrepresentable();
        }
        let obs = match observe_c(&prog, &env.dir) {
            Ok(o) => o,
            Err(e) => return out.inconclusive(format!("C probe: {e}\n{}", prog.render())),
        };
        let mut sets: Vec<Vec<String>> = vec![vec![]];
        sets.extend(case.opt_sets.iter().cloned());
        let mut sides = observe_rust_all(&prog, &sets, &env.dir).into_iter();
        for (_k, flags) in sets.iter().enumerate() {
            out.evaluations += 1;
            let Some(side) = sides.next() else { return out.inconclusive("probe tooling failed") };
            let side = match side {
                Ok(s) => s,
                Err(RustErr::Generation(e)) => {
                    out.fail("generation-failed", format!("flags {flags:?}: {e}\n{}", obs.header));
                    continue;
                }
                Err(RustErr::Unparseable(e)) => {
                    out.fail("bindings-unparseable", format!("flags {flags:?}: {e}"));
                    continue;
                }
                Err(RustErr::Rustc { codes, first, stderr }) => {
                    let code = codes.first().cloned().unwrap_or_default();
                    if codes.iter().any(|c| c == "E0080") {
                        // a layout assertion computed a wrong number: this property's subject
                        let class = first_failing_class(&prog, &stderr);
                        out.fail(format!("layout-assertion-fails/{class}"), format!("flags {flags:?}: {first}\n{}\n--- header ---\n{}", stderr.chars().take(1200).collect::<String>(), obs.header));
                    } else {
                        // bindings that do not compile for another reason are C01's subject
                        out.class(format!("bindings-do-not-compile:{code}"));
                    }
                    continue;
                }
                Err(RustErr::Run(e)) => {
                    out.fail("probe-run-failed", e);
                    continue;
                }
                Err(RustErr::Tool(e)) => return out.inconclusive(e),
            };
            for (sig, msg) in &side.walk.problems {
                out.fail(format!("{sig}"), format!("flags {flags:?}: {msg}\n--- header ---\n{}", obs.header));
            }
            let (diffs, only_c) = probe::compare(&obs.c_facts, &side.facts);
            for (key, cv, rv) in diffs {
                let (kind, rest) = key.split_once(':').unwrap();
                let idx: usize = rest.split(':').next().unwrap().parse().unwrap_or(0);
                let class = match &prog.decls[idx] {
                    Decl::Comp(c) => comp_class(&prog, c),
                    Decl::Enum(_) => "enum".into(),
                    Decl::Typedef { .. } => "typedef".into(),
                    _ => "?".into(),
                };
                // a mismatch inside a contained type shows up in its containers too: report the root
                let contained_bad = (0..prog.decls.len()).any(|j| j != idx && contains_by_value(&prog, idx, j) && matches!((obs.c_facts.get(&format!("size:{j}")), side.facts.get(&format!("size:{j}"))), (Some(a), Some(b)) if a != b));
                if contained_bad {
                    continue;
                }
                out.fail(
                    format!("{kind}-mismatch/{class}"),
                    format!("flags {flags:?}: {key}: C = {cv}, Rust = {rv}\n--- declaration ---\n{}--- header ---\n{}", render_decl(&prog, &prog.decls[idx]), obs.header),
                );
            }
            // facts C has but Rust did not print: accounted for by opaque fallbacks or reported
            for k in only_c {
                let idx: usize = k.split(':').nth(1).and_then(|x| x.parse().ok()).unwrap_or(usize::MAX);
                let path = k.splitn(3, ':').nth(2).unwrap_or("");
                let explained = side.walk.skipped.iter().any(|(pat, _)| {
                    let (pi, pp) = pat.split_once(':').unwrap();
                    pi == idx.to_string() && path.starts_with(pp.trim_end_matches('*'))
                }) || side.walk.problems.iter().any(|(_, m)| m.contains(&format!("decl {idx}:")))
                    // a typedef bindgen maps to a builtin type by name has no item of its own
                    || matches!(prog.decls.get(idx), Some(Decl::Typedef { name, .. }) if ["size_t", "ssize_t", "intptr_t", "uintptr_t", "ptrdiff_t", "int8_t", "uint8_t", "int16_t", "uint16_t", "int32_t", "uint32_t", "int64_t", "uint64_t", "wchar_t"].contains(&name.as_str()));
                if !explained && !k.starts_with("signed:") {
                    out.fail("fact-not-observable-in-rust", format!("flags {flags:?}: {k}"));
                }
            }
            if !side.walk.opaque_types.is_empty() {
                out.class("has-opaque-fallback-type");
            }
        }
        // classes and non-triviality
        for d in &prog.decls {
            if let Decl::Comp(c) = d {
                let cl = comp_class(&prog, c);
                let nested = c.fields.iter().any(|f| matches!(f.ty, FieldTy::Inline(_)) || matches!(&f.ty, FieldTy::Ty(Ty::Named(_))));
                let arr = c.fields.iter().any(|f| matches!(&f.ty, FieldTy::Ty(Ty::Array { .. })));
                if c.fields.len() >= 2 && (nested || arr || cl != "plain") {
                    out.nontrivial(format!("{:x}", fnv(&format!("{c:?}"))));
                }
                for part in cl.split('+') {
                    out.class(format!("comp:{part}"));
                }
            }
        }
        out.sample = Some(json!({"header": obs.header, "option_sets": sets, "facts_compared": obs.c_facts.len()}));
        out
    }
}

/// Class of the first type named in a rustc error about a failed layout assertion.
fn first_failing_class(p: &Program, stderr: &str) -> String {
    for l in stderr.lines() {
        if let Some(i) = l.find("[\"Size of ").or_else(|| l.find("[\"Alignment of ")).or_else(|| l.find("[\"Offset of field: ")) {
            let rest = &l[i..];
            let name = rest.split('"').nth(1).unwrap_or("").rsplit(' ').next().unwrap_or("").split("::").next().unwrap_or("");
            for d in &p.decls {
                if let Decl::Comp(c) = d {
                    let n = d.rust_name().unwrap_or_default();
                    if name == n || name.starts_with(&format!("{n}_")) {
                        return comp_class(p, c);
                    }
                }
            }
        }
    }
    "?".into()
}
