//! C05 — constants carry the C compiler's value in a type that can hold it.
//! Differential: a C probe compiled by clang prints every macro / enumerator / const
//! variable; a Rust probe compiled by rustc prints the generated constants; emitted
//! constants must agree (omission of a macro is allowed).

use crate::bg::{self, BgInput, BgResult};
use crate::cexprs::*;
use crate::engine::{fnv, Env, Outcome, Property, Tier};
use crate::rs::{self, Inventory, Item};
use crate::tools;
use proptest::prelude::*;
use serde::{Deserialize, Serialize};
use serde_json::json;
use std::collections::{BTreeMap, BTreeSet};

pub struct C05;

#[derive(Clone, Debug, Serialize, Deserialize, PartialEq)]
pub enum MacroBody {
    Int(IExpr),
    Float(FExpr),
    Chr(u8),
    Str(Vec<SPart>),
    /// `#define NAME` (no body)
    Empty,
    /// `#define NAME unsigned int` (not a constant)
    TypeName,
    /// `#define NAME(x) ((x) + k)` and nothing else
    FuncLike(u8),
    /// `#define NAME FN(k)` where FN is the most recent function-like macro
    CallsFuncLike(u8),
    /// refers to an enumerator or const variable (by index, scaled)
    Ident(u16),
}

#[derive(Clone, Debug, Serialize, Deserialize, PartialEq)]
pub struct MacroDef {
    pub body: MacroBody,
    /// `#undef` + new integer body later in the header (known-finding class; only with keep_known)
    pub redefined: Option<IExpr>,
    /// same body defined twice (legal C)
    pub duplicate: bool,
    /// use a Rust keyword as the name
    pub keyword: Option<u8>,
    /// float macros only: the name is first defined as the integer 2, `#undef`'d and then given
    /// its float body, all before anything refers to it. The macro itself falls under the known
    /// redefinition finding (bindgen keeps the first definition); macros defined *afterwards*
    /// see the float in C and must see it in the bindings
    #[serde(default)]
    pub int_then_float: bool,
}

#[derive(Clone, Copy, Debug, Serialize, Deserialize, PartialEq, Eq)]
pub enum EnumVal {
    Implicit,
    Lit(i128),
    /// `1 << k`
    Shift(u8),
    /// previous enumerator + k
    PrevPlus(u8),
}

#[derive(Clone, Debug, Serialize, Deserialize, PartialEq)]
pub struct EnumDef {
    /// 0 `enum E {..}`, 1 `typedef enum {..} E;`, 2 `typedef enum E_tag {..} E;`, 3 anonymous `enum {..}`, 4 `enum class E` (C++ only)
    pub form: u8,
    pub fixed: Option<CastTy>,
    pub variants: Vec<EnumVal>,
}

#[derive(Clone, Debug, Serialize, Deserialize, PartialEq)]
pub enum VarInit {
    /// literal (wrapped into the type by a cast)
    Lit(u64, bool),
    Expr(IExpr),
    Float(usize, bool),
    Str(Vec<SPart>),
}

#[derive(Clone, Debug, Serialize, Deserialize, PartialEq)]
pub struct VarDef {
    /// index into VAR_TYPES
    pub ty: usize,
    pub is_static: bool,
    pub via_typedef: bool,
    pub init: VarInit,
}

pub const VAR_TYPES: &[&str] = &["_Bool", "char", "signed char", "unsigned char", "short", "unsigned short", "int", "unsigned int", "long", "unsigned long", "long long", "unsigned long long", "float", "double", "const char*"];

#[derive(Clone, Debug, Serialize, Deserialize, PartialEq)]
pub struct Header {
    pub cpp: bool,
    pub macros: Vec<MacroDef>,
    pub enums: Vec<EnumDef>,
    pub vars: Vec<VarDef>,
}

#[derive(Clone, Debug, Serialize, Deserialize)]
pub struct Case {
    pub header: Header,
    pub opt_sets: Vec<Vec<String>>,
    #[serde(default)]
    pub keep_known: bool,
}

const KEYWORDS: &[&str] = &["type", "fn", "match", "loop", "impl", "mod", "pub", "ref", "dyn", "crate", "trait", "unsafe", "async", "gen", "Self", "self", "super", "where", "move", "let", "in", "as", "use", "box", "priv", "yield"];

/// What the model knows about one rendered macro.
#[derive(Clone, Debug)]
pub struct MacroInfo {
    pub name: String,
    pub kind: &'static str, // int float char str none
    /// integer macros: C-typed model value; None when the macro is not an integer constant
    pub model: Option<V>,
    /// value under untyped wrapping 64-bit evaluation (None: operators outside that subset)
    pub untyped: Option<i64>,
    /// the same when macros the untyped evaluator cannot handle get clang's value as an i64
    /// (--clang-macro-fallback), and whether this macro itself is such a macro
    pub untyped_fb: Option<i64>,
    pub fb_direct: bool,
    /// an operand of unsigned type takes part, directly or through a referenced macro
    pub involves_unsigned: bool,
    /// float precision flags (f32 operands, long double operands, arithmetic)
    pub fprec: (bool, bool, bool),
    pub bytes: Vec<u8>,
    pub features: BTreeSet<&'static str>,
    pub redefined: bool,
}

pub struct Rendered {
    pub text: String,
    pub macros: Vec<MacroInfo>,
    /// (enum name and, if different, its tag; C type expression or None; C expressions of the enumerators)
    pub enums: Vec<(String, Option<String>, Vec<String>)>,
    pub enum_tags: Vec<Option<String>>,
    /// (name, kind)
    pub vars: Vec<(String, &'static str)>,
}

impl Header {
    /// Repair what cannot be well-defined C; deterministic.
    pub fn normalise(&mut self, keep_known: bool) {
        // integer macros: well-defined expressions, references only to earlier integer macros
        let mut int_vals: Vec<V> = vec![];
        for m in self.macros.iter_mut() {
            if let MacroBody::Int(e) = &m.body {
                let fixed = repair(e.clone(), &int_vals);
                let v = eval(&fixed, &int_vals).expect("repaired expression evaluates");
                m.body = MacroBody::Int(fixed);
                let mut final_v = v;
                if let Some(r) = &m.redefined {
                    if keep_known {
                        let fixed = repair(r.clone(), &int_vals);
                        final_v = eval(&fixed, &int_vals).expect("repaired expression evaluates");
                        m.redefined = Some(fixed);
                    } else {
                        m.redefined = None;
                    }
                }
                // later macros see the last definition (lazy expansion)
                int_vals.push(final_v);
            } else {
                m.redefined = None;
                if let MacroBody::Float(e) = &m.body {
                    m.body = MacroBody::Float(ffix(e.clone()));
                }
            }
        }
        if !self.cpp {
            for e in self.enums.iter_mut() {
                if e.form == 4 {
                    e.form = 0;
                }
            }
        }
        for e in self.enums.iter_mut() {
            if e.variants.is_empty() {
                e.variants.push(EnumVal::Implicit);
            }
            // a scoped enumeration without a fixed type has underlying type int
            if e.form == 4 && e.fixed.is_none() {
                e.fixed = Some(CastTy::Int);
            }
        }
        for v in self.vars.iter_mut() {
            if let VarInit::Expr(e) = &v.init {
                v.init = VarInit::Expr(repair(e.clone(), &int_vals));
            }
            let is_str = VAR_TYPES[v.ty % VAR_TYPES.len()] == "const char*";
            let is_float = matches!(VAR_TYPES[v.ty % VAR_TYPES.len()], "float" | "double");
            match (&v.init, is_str, is_float) {
                (VarInit::Str(_), true, _) => {}
                (_, true, _) => v.init = VarInit::Str(vec![SPart::Lit(vec![SChar::Plain(b'p')])]),
                (VarInit::Str(_), false, _) => v.init = VarInit::Lit(3, false),
                (VarInit::Float(..), false, false) => v.init = VarInit::Lit(5, true),
                _ => {}
            }
        }
    }

    /// values of enumerators by the model (to keep the enum well-formed)
    fn enum_values(e: &EnumDef) -> Vec<i128> {
        let (lo, hi): (i128, i128) = match e.fixed {
            Some(t) => {
                let (bits, signed) = t.shape();
                let bits = if bits == 1 { 8 } else { bits };
                if signed {
                    (-(1i128 << (bits - 1)), (1i128 << (bits - 1)) - 1)
                } else {
                    (0, (1i128 << bits) - 1)
                }
            }
            None => (i64::MIN as i128, u64::MAX as i128),
        };
        let mut vals: Vec<i128> = vec![];
        for (k, v) in e.variants.iter().enumerate() {
            let prev = if k == 0 { -1 } else { vals[k - 1] };
            let mut x = match v {
                EnumVal::Implicit => prev + 1,
                EnumVal::Lit(x) => *x,
                EnumVal::Shift(s) => 1i128 << (*s % 63),
                EnumVal::PrevPlus(d) => prev + *d as i128,
            };
            // keep inside the representable range of the (eventual) underlying type
            if x > hi || x < lo {
                x = lo + (x - lo).rem_euclid(hi - lo + 1);
            }
            vals.push(x);
        }
        // a C enum cannot hold both negative values and values above i64::MAX
        if e.fixed.is_none() && vals.iter().any(|v| *v < 0) {
            for v in vals.iter_mut() {
                if *v > i64::MAX as i128 {
                    *v = i64::MAX as i128;
                }
            }
        }
        vals
    }

    pub fn render(&self) -> Rendered {
        let cpp = self.cpp;
        let mut text = String::new();
        let mut infos: Vec<MacroInfo> = vec![];
        // names
        let mut used_kw: BTreeSet<usize> = BTreeSet::new();
        let names: Vec<String> = self
            .macros
            .iter()
            .enumerate()
            .map(|(i, m)| match m.keyword {
                Some(k) if matches!(m.body, MacroBody::Int(_) | MacroBody::Float(_) | MacroBody::Chr(_) | MacroBody::Str(_)) && used_kw.insert(k as usize % KEYWORDS.len()) => KEYWORDS[k as usize % KEYWORDS.len()].to_string(),
                _ => format!("M{i}"),
            })
            .collect();
        // enumerators and variables exist before the macros that mention them
        let mut enum_out: Vec<(String, Option<String>, Vec<String>)> = vec![];
        let mut enum_tags: Vec<Option<String>> = vec![];
        let mut ident_pool: Vec<String> = vec![];
        let mut enum_text = String::new();
        for (ei, e) in self.enums.iter().enumerate() {
            let vals = Self::enum_values(e);
            let name = format!("E{ei}");
            let fixed = e.fixed.map(|t| format!(" : {}", t.c(cpp))).unwrap_or_default();
            let (open, close, ty_expr): (String, String, Option<String>) = match e.form {
                0 => (format!("enum {name}{fixed} {{"), "};".into(), Some(if cpp { name.clone() } else { format!("enum {name}") })),
                1 => (format!("typedef enum{fixed} {{"), format!("}} {name};"), Some(name.clone())),
                2 => (format!("typedef enum {name}_tag{fixed} {{"), format!("}} {name};"), Some(name.clone())),
                3 => (format!("enum{fixed} {{"), "};".into(), None),
                _ => (format!("enum class {name}{fixed} {{"), "};".into(), Some(name.clone())),
            };
            enum_text.push_str(&open);
            let mut exprs = vec![];
            for (k, x) in vals.iter().enumerate() {
                let vn = format!("E{ei}_V{k}");
                let explicit = !matches!(e.variants[k], EnumVal::Implicit) || (k > 0 && vals[k] != vals[k - 1] + 1) || (k == 0 && *x != 0);
                if explicit {
                    let lit = if *x < 0 {
                        if *x == i64::MIN as i128 {
                            "(-9223372036854775807LL - 1)".to_string()
                        } else {
                            format!("-{}", -*x)
                        }
                    } else if *x > i64::MAX as i128 {
                        format!("{x}ULL")
                    } else if *x > i32::MAX as i128 {
                        format!("{x}LL")
                    } else if k % 3 == 1 {
                        format!("0x{x:x}")
                    } else {
                        format!("{x}")
                    };
                    enum_text.push_str(&format!(" {vn} = {lit},"));
                } else {
                    enum_text.push_str(&format!(" {vn},"));
                }
                exprs.push(if e.form == 4 { format!("{name}::{vn}") } else { vn.clone() });
                if e.form != 4 {
                    ident_pool.push(vn);
                }
            }
            enum_text.push(' ');
            enum_text.push_str(&close);
            enum_text.push('\n');
            enum_tags.push(if e.form == 2 { Some(format!("{name}_tag")) } else { None });
            enum_out.push((name, ty_expr, exprs));
        }
        // macros
        let mut int_names: Vec<String> = vec![];
        let mut int_vals: Vec<V> = vec![];
        let mut int_untyped: Vec<Option<i64>> = vec![];
        let mut int_redefined: Vec<bool> = vec![];
        let mut int_untyped_fb: Vec<Option<i64>> = vec![];
        let mut int_unsigned: Vec<bool> = vec![];
        let mut int_is_char: Vec<bool> = vec![];
        let mut f_names: Vec<String> = vec![];
        let mut f_prec: Vec<(bool, bool, bool)> = vec![];
        let mut s_names: Vec<String> = vec![];
        let mut s_vals: Vec<Vec<u8>> = vec![];
        let mut last_fn: Option<String> = None;
        let mut redefs = String::new();
        let mut macro_text = String::new();
        for (i, m) in self.macros.iter().enumerate() {
            let name = names[i].clone();
            let mut info = MacroInfo { name: name.clone(), kind: "none", model: None, untyped: None, untyped_fb: None, fb_direct: false, involves_unsigned: false, fprec: (false, false, false), bytes: vec![], features: BTreeSet::new(), redefined: false };
            let body = match &m.body {
                MacroBody::Int(e) => {
                    let v = eval(e, &int_vals).expect("normalised");
                    let u = eval_untyped(e, &int_untyped);
                    features(e, &mut info.features);
                    // a lone character constant, or just another name for one, is a character
                    let alias_of_char = match e {
                        IExpr::Ref(i) if !int_is_char.is_empty() => int_is_char[(*i as usize * int_is_char.len()) >> 16],
                        _ => false,
                    };
                    info.kind = if matches!(e, IExpr::Chr(_)) || alias_of_char { "char" } else { "int" };
                    int_is_char.push(info.kind == "char");
                    info.model = Some(v);
                    info.untyped = u;
                    let ufb = eval_untyped(e, &int_untyped_fb);
                    info.fb_direct = ufb.is_none();
                    info.untyped_fb = Some(ufb.unwrap_or(v.v as i64));
                    int_untyped_fb.push(info.untyped_fb);
                    let body = render(e, &int_names, cpp);
                    // a macro that mentions a redefined macro changes its value with it
                    let mut refs = vec![];
                    ref_indices(e, int_names.len(), &mut refs);
                    info.redefined = refs.iter().any(|k| int_redefined[*k]);
                    info.involves_unsigned = has_unsigned_operand(e) || refs.iter().any(|k| int_unsigned[*k]);
                    int_unsigned.push(info.involves_unsigned);
                    int_names.push(name.clone());
                    int_untyped.push(u);
                    if let Some(r) = &m.redefined {
                        // redefinition bodies only mention macros defined before the original;
                        // macros are expanded lazily, so later uses see the last definition
                        let k = int_names.len() - 1;
                        redefs.push_str(&format!("#undef {name}\n#define {name} {}\n", render(r, &int_names[..k], cpp)));
                        info.redefined = true;
                        let vf = eval(r, &int_vals[..k]).unwrap_or(v);
                        info.model = Some(vf);
                        int_vals.push(vf);
                    } else {
                        int_vals.push(v);
                    }
                    int_redefined.push(info.redefined);
                    body
                }
                MacroBody::Float(e) => {
                    info.kind = "float";
                    info.fprec = fprecision(e, &f_prec);
                    if m.int_then_float {
                        macro_text.push_str(&format!("#define {name} 2\n#undef {name}\n"));
                        info.redefined = true;
                        info.features.insert("int-then-float-redefinition");
                    }
                    let body = frender(e, &f_names);
                    f_names.push(name.clone());
                    f_prec.push(info.fprec);
                    body
                }
                MacroBody::Chr(c) => {
                    info.kind = "char";
                    info.model = Some(V::int(*c as i8 as i128));
                    render_char(*c)
                }
                MacroBody::Str(parts) => {
                    info.kind = "str";
                    let (t, bytes) = srender(parts, &s_names, &s_vals);
                    info.bytes = bytes.clone();
                    s_names.push(name.clone());
                    s_vals.push(bytes);
                    t
                }
                MacroBody::Empty => String::new(),
                MacroBody::TypeName => "unsigned int".into(),
                MacroBody::FuncLike(k) => {
                    macro_text.push_str(&format!("#define {name}(x) ((x) + {k})\n"));
                    last_fn = Some(name.clone());
                    infos.push(info);
                    continue;
                }
                MacroBody::CallsFuncLike(k) => match &last_fn {
                    Some(f) => format!("{f}({k})"),
                    None => format!("{k}"),
                },
                MacroBody::Ident(k) => {
                    if ident_pool.is_empty() {
                        "7".into()
                    } else {
                        format!("({} + 1)", ident_pool[(*k as usize * ident_pool.len()) >> 16])
                    }
                }
            };
            macro_text.push_str(&format!("#define {name} {body}\n"));
            if m.duplicate {
                macro_text.push_str(&format!("#define {name} {body}\n"));
            }
            infos.push(info);
        }
        // variables
        let mut var_text = String::new();
        let mut vars_out = vec![];
        for (vi, v) in self.vars.iter().enumerate() {
            let tname = VAR_TYPES[v.ty % VAR_TYPES.len()];
            let tname = if cpp && tname == "_Bool" { "bool" } else { tname };
            let name = format!("k{vi}");
            let is_str = tname == "const char*";
            let is_float = matches!(tname, "float" | "double");
            let ty_used = if v.via_typedef && !is_str {
                var_text.push_str(&format!("typedef {tname} k{vi}_t;\n"));
                format!("k{vi}_t")
            } else {
                tname.to_string()
            };
            let init = match &v.init {
                VarInit::Lit(x, neg) => {
                    let lit = if *x > i64::MAX as u64 { format!("{x}ULL") } else if *x > i32::MAX as u64 { format!("{x}LL") } else { format!("{x}") };
                    if is_float {
                        format!("{}{lit}", if *neg { "-" } else { "" })
                    } else {
                        format!("({tname}){}{lit}", if *neg { "-" } else { "" })
                    }
                }
                VarInit::Expr(e) => format!("({tname}){}", render(e, &int_names, cpp)),
                VarInit::Float(k, neg) => format!("{}{}", if *neg { "-" } else { "" }, FLOAT_LITS[*k % FLOAT_LITS.len()]),
                VarInit::Str(parts) => srender(parts, &[], &[]).0,
            };
            let storage = if v.is_static { "static " } else { "" };
            if is_str {
                var_text.push_str(&format!("{storage}const char* const {name} = {init};\n"));
                vars_out.push((name, "str"));
            } else {
                var_text.push_str(&format!("{storage}const {ty_used} {name} = {init};\n"));
                vars_out.push((name, if is_float { "float" } else { "int" }));
            }
        }
        text.push_str(&enum_text);
        text.push_str(&macro_text);
        text.push_str(&var_text);
        text.push_str(&redefs);
        Rendered { text, macros: infos, enums: enum_out, enum_tags, vars: vars_out }
    }
}

pub fn header_strategy() -> BoxedStrategy<Header> {
    let body = prop_oneof![
        12 => iexpr_strategy().prop_map(MacroBody::Int),
        3 => fexpr_strategy().prop_map(MacroBody::Float),
        1 => any::<u8>().prop_map(MacroBody::Chr),
        3 => sparts_strategy().prop_map(MacroBody::Str),
        1 => Just(MacroBody::Empty),
        1 => Just(MacroBody::TypeName),
        1 => (0u8..20).prop_map(MacroBody::FuncLike),
        1 => (0u8..20).prop_map(MacroBody::CallsFuncLike),
        1 => any::<u16>().prop_map(MacroBody::Ident),
    ];
    let mac = (body, proptest::option::weighted(0.06, iexpr_strategy()), proptest::bool::weighted(0.05), proptest::option::weighted(0.08, any::<u8>())).prop_map(|(body, redefined, duplicate, keyword)| MacroDef { body, redefined, duplicate, keyword, int_then_float: false });
    let mac = (mac, proptest::bool::weighted(0.12)).prop_map(|(mut m, f)| {
        m.int_then_float = f && matches!(m.body, MacroBody::Float(_));
        m
    });
    let eval_lit = prop_oneof![
        4 => (-5i128..300),
        1 => Just(i32::MAX as i128),
        1 => Just(i32::MAX as i128 + 1),
        1 => Just(u32::MAX as i128),
        1 => Just(u32::MAX as i128 + 1),
        1 => Just(i32::MIN as i128),
        1 => Just(i32::MIN as i128 - 1),
        1 => Just(i64::MAX as i128),
        1 => Just(i64::MIN as i128),
        1 => Just(u64::MAX as i128),
        1 => any::<i64>().prop_map(|x| x as i128),
    ];
    let eval_ = prop_oneof![4 => Just(EnumVal::Implicit), 4 => eval_lit.prop_map(EnumVal::Lit), 1 => (0u8..63).prop_map(EnumVal::Shift), 1 => (0u8..4).prop_map(EnumVal::PrevPlus)];
    let en = (0u8..5, proptest::option::weighted(0.3, (1..CastTy::ALL.len()).prop_map(|i| CastTy::ALL[i])), proptest::collection::vec(eval_, 1..7)).prop_map(|(form, fixed, variants)| EnumDef { form, fixed, variants });
    let init = prop_oneof![
        4 => (prop_oneof![0u64..300, any::<u64>(), Just(u64::MAX), Just(i64::MAX as u64), Just(128u64), Just(255u64), Just(32768u64), Just(u32::MAX as u64)], any::<bool>()).prop_map(|(x, n)| VarInit::Lit(x, n)),
        1 => iexpr_strategy().prop_map(VarInit::Expr),
        2 => (0..FLOAT_LITS.len(), any::<bool>()).prop_map(|(k, n)| VarInit::Float(k, n)),
        1 => sparts_strategy().prop_map(VarInit::Str),
    ];
    let var = (0..VAR_TYPES.len(), any::<bool>(), proptest::bool::weighted(0.25), init).prop_map(|(ty, is_static, via_typedef, init)| VarDef { ty, is_static, via_typedef, init });
    (proptest::bool::weighted(0.3), proptest::collection::vec(mac, 3..24), proptest::collection::vec(en, 0..4), proptest::collection::vec(var, 0..8))
        .prop_map(|(cpp, macros, enums, vars)| {
            let mut h = Header { cpp, macros, enums, vars };
            h.normalise(false);
            h
        })
        .boxed()
}

pub const OPTION_GROUPS: &[&[&str]] = &[
    &["--default-macro-constant-type", "signed"],
    &["--default-macro-constant-type", "unsigned"],
    &["--fit-macro-constant-types"],
    &["--default-enum-style", "rust"],
    &["--default-enum-style", "rust_non_exhaustive"],
    &["--default-enum-style", "moduleconsts"],
    &["--default-enum-style", "newtype"],
    &["--default-enum-style", "newtype_global"],
    &["--default-enum-style", "bitfield"],
    &["--default-enum-style", "consts"],
    &["--translate-enum-integer-types"],
    &["--no-prepend-enum-name"],
    &["--generate-cstr"],
    &["--use-core"],
    &["--clang-macro-fallback"],
    &["--no-size_t-is-usize"],
    &["--rust-target", "1.64"],
];

pub fn opt_set_strategy() -> BoxedStrategy<Vec<String>> {
    proptest::collection::vec(0..OPTION_GROUPS.len(), 0..4)
        .prop_map(|idx| {
            let mut flags: Vec<String> = vec![];
            let mut seen: BTreeSet<&str> = BTreeSet::new();
            for i in idx {
                let g = OPTION_GROUPS[i];
                if seen.contains(g[0]) {
                    continue;
                }
                seen.insert(g[0]);
                flags.extend(g.iter().map(|s| s.to_string()));
            }
            flags
        })
        .boxed()
}

include!("c05_eval.rs");
