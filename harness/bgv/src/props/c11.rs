//! C11 — output is a pure function of inputs across processes, repeats and threads.
//! Stateful: histories of generations (sequential, repeated builder, concurrent threads,
//! work-list seed changes) executed in one worker process; every produced output (bindings,
//! depfile, wrapper source, callback notification sequence) must equal the reference taken in
//! fresh processes.

use crate::bg::{self, BgInput, Recorder};
use crate::corpus;
use crate::engine::{fnv, Env, Outcome, Property, Tier};
use crate::props::{c07, c18};
use crate::worker::{Reply, ServerIo, Worker};
use proptest::prelude::*;
use serde::{Deserialize, Serialize};
use serde_json::{json, Value};
use std::path::{Path, PathBuf};
use std::time::Duration;

pub struct C11;

pub const FLAG_BUNDLES: &[&[&str]] = &[
    &["--sort-semantically"],
    &["--enable-cxx-namespaces"],
    &["--merge-extern-blocks"],
    &["--override-abi", ".*=system", "--override-abi", "[a-z].*=C-unwind", "--override-abi", ".*[0-9a-z]=aapcs", "--override-abi", "[A-Za-z_].*=win64"],
    &["--override-abi", "f.*=C-unwind", "--override-abi", ".*=system"],
    &["--with-derive-custom", ".*=Clone", "--with-derive-custom", "[A-Z].*=Debug", "--with-derive-custom", ".*[0-9]=Default"],
    &["--with-attribute-custom", ".*=#[allow(dead_code)]", "--with-attribute-custom", "[A-Z].*=#[allow(unused)]"],
    &["--opaque-type", "N[0-3]", "--opaque-type", "N.*[5-9]"],
    &["--blocklist-type", "N2", "--blocklist-item", "N[45]"],
    &["--no-copy", "N.*", "--no-debug", "[A-Z]1", "--no-default", ".*2", "--no-hash", ".*"],
    &["--rustified-enum", ".*", "--newtype-enum", "[A-Z].*", "--bitfield-enum", ".*[0-9]", "--constified-enum-module", ".*_t"],
    &["--new-type-alias", ".*", "--new-type-alias-deref", "[A-Z].*", "--normal-alias", ".*_t"],
    &["--bindgen-wrapper-union", ".*", "--manually-drop-union", "[A-Z].*"],
    &["--raw-line", "// a", "--raw-line", "// b", "--module-raw-line", "root", "// m1", "--module-raw-line", "root", "// m2"],
    &["--must-use-type", ".*", "--with-derive-default", "--with-derive-hash", "--with-derive-partialeq", "--with-derive-eq", "--with-derive-partialord", "--with-derive-ord"],
    &["--allowlist-type", "[A-Z].*", "--allowlist-function", ".*", "--allowlist-var", ".*", "--no-recursive-allowlist"],
    // layout tests as #[test] functions (their names carry per-generation counters)
    &["--rust-target", "1.73"],
    &["--rust-target", "1.73", "--enable-cxx-namespaces"],
];

/// flags that take one value and may be given once
const SINGLE_VALUED: &[&str] = &["--rust-target"];

#[derive(Clone, Debug, Serialize, Deserialize)]
pub enum Source {
    Repo(String),
    /// generated declaration graph (C07 generator), rendered in canonical order
    Dag(c07::Graph),
    /// generated extern-heavy program (C18 generator)
    Prog(c18::Case),
}

#[derive(Clone, Debug, Serialize, Deserialize)]
pub struct PoolItem {
    pub source: Source,
    pub depfile: bool,
    pub extra_flags: Vec<String>,
}

#[derive(Clone, Debug, Serialize, Deserialize)]
pub enum Step {
    Generate(usize),
    /// clone one builder, generate from it `n` times
    SameBuilderAgain(usize, u8),
    Concurrent { threads: u8, inputs: Vec<usize>, same_input: bool },
    SetWorklistSeed(Option<u64>),
}

#[derive(Clone, Debug, Serialize, Deserialize)]
pub struct Case {
    pub pool: Vec<PoolItem>,
    pub steps: Vec<Step>,
    pub processes: u8,
}

fn item_input(it: &PoolItem) -> Option<BgInput> {
    let mut input = match &it.source {
        Source::Repo(name) => {
            let h = corpus::load_one(&Path::new(corpus::HEADERS_DIR).join(name))?;
            let mut i = h.input();
            // the test-suite's own default output path is shared between generations
            i.flags.retain(|f| f != "{DIR}/extern");
            if let Some(p) = i.flags.iter().position(|f| f == "--wrap-static-fns-path") {
                i.flags.remove(p);
            }
            if i.flags.iter().any(|f| f == "--wrap-static-fns") {
                i.flags.push("--wrap-static-fns-path".into());
                i.flags.push("{DIR}/extern".into());
            }
            i
        }
        Source::Dag(g) => {
            let mut g = g.clone();
            g.normalise();
            let order = g.order_from_prios(&[]);
            BgInput {
                files: vec![("dag.hpp".into(), g.render(&order))],
                headers: vec!["dag.hpp".into()],
                flags: vec!["--formatter=none".into(), "--no-include-path-detection".into(), "--with-derive-hash".into(), "--with-derive-partialeq".into(), "--with-derive-default".into(), "--impl-debug".into()],
                clang_args: if g.cpp { vec!["-x".into(), "c++".into(), "-std=c++14".into()] } else { vec!["-x".into(), "c".into()] },
                callbacks: vec![],
            }
        }
        Source::Prog(c) => c18::gen_input(c, true, true)?.0,
    };
    if it.depfile {
        input.flags.push("--depfile".into());
        input.flags.push("{DIR}/deps.d".into());
    }
    // groups: a flag and its values; bare switches must not repeat, valued flags may
    let mut k = 0usize;
    while k < it.extra_flags.len() {
        let mut end = k + 1;
        while end < it.extra_flags.len() && !it.extra_flags[end].starts_with("--") {
            end += 1;
        }
        let group = &it.extra_flags[k..end];
        let once = group.len() == 1 || SINGLE_VALUED.contains(&group[0].as_str());
        if !once || !input.flags.contains(&group[0]) {
            input.flags.extend(group.iter().cloned());
        }
        k = end;
    }
    Some(input)
}

// ---------------------------------------------------------------------------------------------
// worker side

#[derive(Clone, Debug, Serialize, Deserialize, PartialEq, Eq)]
pub struct Outputs {
    pub kind: String,
    pub text: String,
    pub depfile: Option<String>,
    pub wrapper: Option<String>,
    pub callbacks: Vec<String>,
}

/// 16 KiB of text no generation produces
fn stale() -> &'static str {
    static S: std::sync::OnceLock<String> = std::sync::OnceLock::new();
    S.get_or_init(|| "// stale line of an earlier, longer generation at this path ................................\n".repeat(170))
}

fn one_generation(input: &BgInput, src: &Path, outdir: &Path, seed: Option<u64>, builder_reuse: u8, leftovers: bool) -> Vec<Outputs> {
    std::fs::create_dir_all(outdir).ok();
    let mut args: Vec<String> = vec!["bindgen".into()];
    args.extend(input.flags.iter().map(|f| bg::subst(outdir, f)));
    let abs = |h: &String| if Path::new(h).is_absolute() { h.clone() } else { src.join(h).to_str().unwrap().to_string() };
    let n = input.headers.len();
    args.push(abs(&input.headers[n - 1]));
    args.push("--".into());
    for h in &input.headers[..n - 1] {
        args.push("-include".into());
        args.push(abs(h));
    }
    args.extend(input.clang_args.iter().cloned());
    let rec = Recorder::default();
    let b = match bindgen::builder_from_flags(args.into_iter()) {
        Ok(x) => x.0.parse_callbacks(Box::new(rec.clone())),
        Err(e) => return vec![Outputs { kind: "flags".into(), text: e.to_string(), depfile: None, wrapper: None, callbacks: vec![] }],
    };
    let mut outs = vec![];
    for _ in 0..builder_reuse.max(1) {
        rec.log.lock().unwrap().clear();
        // side files start out as the (longer) leftovers of an earlier generation at the same
        // path: a generation must replace them, not write into them
        // (references are taken in an empty directory)
        for f in ["deps.d", "extern.c", "extern.cpp"] {
            if leftovers {
                let _ = std::fs::write(outdir.join(f), stale());
            } else {
                let _ = std::fs::remove_file(outdir.join(f));
            }
        }
        bindgen::verif::set_thread_config(Some((false, seed)));
        let r = bg::generate_with(b.clone());
        bindgen::verif::set_thread_config(None);
        let (kind, text) = match r {
            bg::BgResult::Ok(t) => ("ok", t),
            bg::BgResult::Err(e) => ("err", e),
            bg::BgResult::Panic(p) => ("panic", p),
        };
        let od = outdir.to_str().unwrap();
        let norm = |s: String| s.replace(od, "{DIR}");
        // an untouched leftover means "not written by this generation"
        let fresh = |f: &str| std::fs::read_to_string(outdir.join(f)).ok().filter(|t| t != stale());
        let wrapper = fresh("extern.c").or_else(|| fresh("extern.cpp")).map(norm);
        outs.push(Outputs {
            kind: kind.into(),
            text: norm(text),
            depfile: fresh("deps.d").map(norm),
            wrapper,
            callbacks: rec.log.lock().unwrap().iter().map(|l| l.replace(od, "{DIR}")).collect(),
        });
    }
    outs
}

pub fn worker_c11(req: &Value, _io: &mut ServerIo) -> Value {
    let src = PathBuf::from(req["src"].as_str().unwrap());
    let out = PathBuf::from(req["out"].as_str().unwrap());
    let inputs: Vec<BgInput> = match serde_json::from_value(req["inputs"].clone()) {
        Ok(x) => x,
        Err(e) => return json!({"error": format!("{e}")}),
    };
    match req["mode"].as_str() {
        Some("reference") => {
            let i = req["index"].as_u64().unwrap() as usize;
            let seed = req["seed"].as_u64();
            let o = one_generation(&inputs[i], &src, &out.join("ref"), seed, 1, false);
            json!({"outputs": o})
        }
        Some("history") => {
            let steps: Vec<Step> = serde_json::from_value(req["steps"].clone()).unwrap_or_default();
            let mut results: Vec<Value> = vec![];
            let mut seed: Option<u64> = None;
            for (k, st) in steps.iter().enumerate() {
                match st {
                    Step::SetWorklistSeed(s) => seed = *s,
                    Step::Generate(i) => {
                        let i = *i % inputs.len();
                        for o in one_generation(&inputs[i], &src, &out.join(format!("s{k}")), seed, 1, true) {
                            results.push(json!({"step": k, "input": i, "outputs": o}));
                        }
                    }
                    Step::SameBuilderAgain(i, n) => {
                        let i = *i % inputs.len();
                        for o in one_generation(&inputs[i], &src, &out.join(format!("s{k}")), seed, (*n).clamp(2, 4), true) {
                            results.push(json!({"step": k, "input": i, "outputs": o}));
                        }
                    }
                    Step::Concurrent { threads, inputs: idx, same_input } => {
                        let t = (*threads).clamp(2, 16) as usize;
                        let mut handles = vec![];
                        for th in 0..t {
                            let i = if *same_input { idx.first().copied().unwrap_or(0) } else { idx.get(th % idx.len().max(1)).copied().unwrap_or(th) } % inputs.len();
                            let input = inputs[i].clone();
                            let src = src.clone();
                            let od = out.join(format!("s{k}_t{th}"));
                            handles.push(std::thread::spawn(move || (i, one_generation(&input, &src, &od, seed, 1, true))));
                        }
                        for h in handles {
                            match h.join() {
                                Ok((i, outs)) => {
                                    for o in outs {
                                        results.push(json!({"step": k, "input": i, "outputs": o}));
                                    }
                                }
                                Err(_) => results.push(json!({"step": k, "input": -1, "thread_panicked": true})),
                            }
                        }
                    }
                }
            }
            json!({"results": results})
        }
        _ => json!({"error": "mode"}),
    }
}

// ---------------------------------------------------------------------------------------------

fn fresh_call(req: &Value, timeout_s: u64) -> Reply {
    match Worker::spawn() {
        Ok(mut w) => w.call(req, Duration::from_secs(timeout_s)),
        Err(_) => Reply::Timeout,
    }
}

fn pool_repo_names() -> Vec<String> {
    // breadth: every 15th header of the sorted list plus headers that exercise side outputs
    let all = corpus::load_all();
    let mut v: Vec<String> = all.iter().enumerate().filter(|(i, _)| i % 15 == 0).map(|(_, h)| h.name.clone()).collect();
    for h in &all {
        if h.flags.iter().any(|f| f == "--wrap-static-fns") && !v.contains(&h.name) {
            v.push(h.name.clone());
        }
    }
    for extra in ["class.hpp", "template.hpp", "anon_union.hpp", "bitfield_align.h", "macro_const.h", "namespace.hpp", "derive-hash-struct-with-float-array.h", "enum.h"] {
        if all.iter().any(|h| h.name == extra) && !v.iter().any(|n| n == extra) {
            v.push(extra.to_string());
        }
    }
    v
}

fn what_differs(a: &Outputs, b: &Outputs) -> &'static str {
    if a.kind != b.kind {
        "result-kind"
    } else if a.text != b.text {
        "bindings-text"
    } else if a.depfile != b.depfile {
        "depfile"
    } else if a.wrapper != b.wrapper {
        "wrapper-source"
    } else {
        "callback-sequence"
    }
}

impl Property for C11 {
    type Case = Case;
    fn id(&self) -> &'static str {
        "C11"
    }
    fn rule(&self) -> String {
        "stateful: a case draws a pool of 3..7 inputs (repository headers chosen for breadth incl. all wrap-static-fns headers, generated declaration graphs, generated extern-heavy programs; some with --depfile) and a history of 1..40 steps {Generate(i), SameBuilderAgain(i,n), Concurrent{2..16 threads, same or different inputs}, SetWorklistSeed}. References: each input generated in k fresh processes (different ASLR / hash seeds) under two work-list seeds; the history runs in one further process. Invariant: every output (bindings text, depfile, wrapper source, callback notification sequence) equals the reference of its input. Non-trivial = history with >=1 concurrent step and >=1 repetition of an input after a different input; distinct by history hash".into()
    }
    fn assumptions(&self) -> Vec<String> {
        vec![
            "thread schedules are not owned by the harness: concurrency is stress exploration".into(),
            "per-process randomness (ASLR, std RandomState seeds) varies by itself between worker processes".into(),
        ]
    }
    fn parallelism(&self) -> usize {
        6
    }
    fn strategy(&self, tier: Tier) -> BoxedStrategy<Case> {
        let names = pool_repo_names();
        let n = names.len();
        let src = prop_oneof![
            5 => (0..n).prop_map(move |i| Source::Repo(names[i].clone())),
            2 => c07::graph_strategy(7).prop_map(Source::Dag),
            2 => C18Gen::strategy().prop_map(Source::Prog),
        ];
        // option bundles whose entries land in keyed collections inside bindgen: several entries
        // that match the same item must be resolved the same way in every process
        let bundles = proptest::collection::vec(0..FLAG_BUNDLES.len(), 0..3).prop_map(|idx| {
            let mut flags: Vec<String> = vec![];
            let mut seen = std::collections::BTreeSet::new();
            for i in idx {
                // switches and single-valued flags must not repeat (clap rejects that)
                if (FLAG_BUNDLES[i].len() == 1 || SINGLE_VALUED.contains(&FLAG_BUNDLES[i][0])) && !seen.insert(FLAG_BUNDLES[i][0]) {
                    continue;
                }
                flags.extend(FLAG_BUNDLES[i].iter().map(|x| x.to_string()));
            }
            flags
        });
        let item = (src, proptest::bool::weighted(0.3), bundles).prop_map(|(source, depfile, extra_flags)| PoolItem { source, depfile, extra_flags });
        let step = prop_oneof![
            6 => (0usize..8).prop_map(Step::Generate),
            2 => (0usize..8, 2u8..4).prop_map(|(i, n)| Step::SameBuilderAgain(i, n)),
            3 => (2u8..=16, proptest::collection::vec(0usize..8, 1..6), proptest::bool::weighted(0.4)).prop_map(|(threads, inputs, same_input)| Step::Concurrent { threads, inputs, same_input }),
            1 => prop_oneof![Just(None), (1u64..6).prop_map(Some)].prop_map(Step::SetWorklistSeed),
        ];
        let max_steps = tier.pick(25, 50);
        let procs = tier.pick(3, 8) as u8;
        (proptest::collection::vec(item, 3..7), proptest::collection::vec(step, 1..max_steps))
            .prop_map(move |(pool, steps)| Case { pool, steps, processes: procs })
            .boxed()
    }
    fn generated(&self, tier: Tier) -> usize {
        tier.pick(50, 600)
    }
    fn fixed_cases(&self, tier: Tier) -> Vec<Case> {
        // cross-process sweep of the whole breadth pool, with a short fixed history
        let names = pool_repo_names();
        let procs = tier.pick(4, 32) as u8;
        let mut v: Vec<Case> = names
            .chunks(6)
            .map(|c| Case {
                pool: c.iter().map(|n| PoolItem { source: Source::Repo(n.clone()), depfile: true, extra_flags: vec![] }).collect(),
                steps: vec![Step::Generate(0), Step::Generate(1), Step::Generate(0), Step::Concurrent { threads: 8, inputs: vec![0, 1, 2, 3, 4, 5], same_input: false }, Step::SameBuilderAgain(2, 2), Step::SetWorklistSeed(Some(3)), Step::Generate(0), Step::Concurrent { threads: 8, inputs: vec![1], same_input: true }],
                processes: procs,
            })
            .collect();
        // the same for C++ inputs with layout tests as test functions: every input is generated
        // twice in a row, again after the others, from one builder and concurrently
        let old = vec!["--rust-target".to_string(), "1.73".to_string()];
        let mut cpp: Vec<PoolItem> = names.iter().filter(|n| n.ends_with(".hpp")).map(|n| PoolItem { source: Source::Repo(n.clone()), depfile: false, extra_flags: old.clone() }).collect();
        for (k, c) in c07::chain_grid().into_iter().enumerate() {
            if k % 27 == 5 {
                if let c07::Case::Dag { graph, .. } = c {
                    cpp.push(PoolItem { source: Source::Dag(graph), depfile: false, extra_flags: old.clone() });
                }
            }
        }
        for c in cpp.chunks(4) {
            let n = c.len();
            let mut steps: Vec<Step> = vec![];
            for i in 0..n {
                steps.push(Step::Generate(i));
                steps.push(Step::Generate(i));
            }
            for i in 0..n {
                steps.push(Step::SameBuilderAgain(i, 2));
            }
            steps.push(Step::Concurrent { threads: 8, inputs: (0..n).collect(), same_input: false });
            steps.push(Step::Concurrent { threads: 4, inputs: vec![0], same_input: true });
            for i in 0..n {
                steps.push(Step::Generate(i));
            }
            v.push(Case { pool: c.to_vec(), steps, processes: tier.pick(2, 8) as u8 });
        }
        v
    }

    fn evaluate(&self, case: &Case, env: &Env) -> Outcome {
        let mut out = Outcome::new();
        out.evaluations = 0;
        let src = env.dir.join("src");
        std::fs::create_dir_all(&src).ok();
        let mut inputs: Vec<BgInput> = vec![];
        for (k, it) in case.pool.iter().enumerate() {
            let Some(mut i) = item_input(it) else { return out.inconclusive("cannot build pool input") };
            // give every pool item its own file names
            for f in &mut i.files {
                f.0 = format!("p{k}_{}", f.0);
            }
            for h in &mut i.headers {
                if !Path::new(h).is_absolute() {
                    *h = format!("p{k}_{h}");
                }
            }
            bg::write_files(&src, &i.files);
            inputs.push(i);
        }
        // ---- references from fresh processes
        let mut refs: Vec<Option<Outputs>> = vec![];
        for i in 0..inputs.len() {
            let mut first: Option<Outputs> = None;
            for p in 0..case.processes.max(2) {
                let seed = if p % 2 == 0 { None } else { Some(p as u64) };
                let req = json!({"op": "c11", "mode": "reference", "src": src.to_str().unwrap(), "out": env.dir.join(format!("r{i}_{p}")).to_str().unwrap(), "inputs": inputs, "index": i, "seed": seed});
                let v = match fresh_call(&req, 120) {
                    Reply::Ok(v) => v,
                    other => {
                        // a crash/timeout of a generation is C12's subject
                        out.class("reference-generation-died");
                        return out.inconclusive(format!("reference process: {}", other.describe()));
                    }
                };
                out.evaluations += 1;
                let o: Vec<Outputs> = serde_json::from_value(v["outputs"].clone()).unwrap_or_default();
                let Some(o) = o.into_iter().next() else { return out.inconclusive("no outputs") };
                match &first {
                    None => first = Some(o),
                    Some(f) => {
                        if *f != o {
                            let what = what_differs(f, &o);
                            out.fail(
                                format!("cross-process/{what}{}", if seed.is_some() { "" } else { "/same-schedule" }),
                                format!("input {i} ({:?}): process {p} (work-list seed {seed:?}) differs from process 0 in {what}", case.pool[i].source_name()),
                            );
                        }
                    }
                }
            }
            refs.push(first);
        }
        // ---- the history, in one fresh process
        let req = json!({"op": "c11", "mode": "history", "src": src.to_str().unwrap(), "out": env.dir.join("h").to_str().unwrap(), "inputs": inputs, "steps": case.steps});
        let v = match fresh_call(&req, 600) {
            Reply::Ok(v) => v,
            other => {
                out.class("history-process-died");
                return out.inconclusive(format!("history process: {}", other.describe()));
            }
        };
        for r in v["results"].as_array().cloned().unwrap_or_default() {
            out.evaluations += 1;
            if r.get("thread_panicked").is_some() {
                out.fail("history/thread-panicked", format!("step {}", r["step"]));
                continue;
            }
            let i = r["input"].as_u64().unwrap_or(0) as usize;
            let o: Outputs = match serde_json::from_value(r["outputs"].clone()) {
                Ok(o) => o,
                Err(_) => continue,
            };
            if let Some(Some(f)) = refs.get(i) {
                if *f != o {
                    let what = what_differs(f, &o);
                    let step = &case.steps[r["step"].as_u64().unwrap_or(0) as usize];
                    let kind = match step {
                        Step::Generate(_) => "sequential",
                        Step::SameBuilderAgain(..) => "same-builder-again",
                        Step::Concurrent { .. } => "concurrent",
                        Step::SetWorklistSeed(_) => "?",
                    };
                    out.fail(format!("history/{kind}/{what}"), format!("step {} ({step:?}) input {i} ({}) differs from its fresh-process reference in {what}", r["step"], case.pool[i].source_name()));
                }
            }
        }
        // classes / non-triviality
        let has_conc = case.steps.iter().any(|s| matches!(s, Step::Concurrent { .. }));
        let mut seen: Vec<usize> = vec![];
        let mut repeat_after_other = false;
        for s in &case.steps {
            if let Step::Generate(i) | Step::SameBuilderAgain(i, _) = s {
                let i = i % case.pool.len();
                if seen.contains(&i) && seen.last() != Some(&i) {
                    repeat_after_other = true;
                }
                seen.push(i);
            }
        }
        if has_conc {
            out.class("has-concurrent-step");
        }
        if repeat_after_other {
            out.class("repeats-input-after-another");
        }
        if case.pool.iter().any(|p| p.depfile) {
            out.class("has-depfile");
        }
        if has_conc && repeat_after_other {
            out.nontrivial(format!("{:x}", fnv(&format!("{:?}{:?}", case.steps, case.pool.iter().map(|p| p.source_name()).collect::<Vec<_>>()))));
        }
        out.sample = Some(json!({"pool": case.pool.iter().map(|p| p.source_name()).collect::<Vec<_>>(), "steps": format!("{:?}", case.steps), "processes": case.processes}));
        out
    }
}

impl PoolItem {
    fn source_name(&self) -> String {
        match &self.source {
            Source::Repo(n) => n.clone(),
            Source::Dag(g) => format!("dag:{} nodes", g.nodes.len()),
            Source::Prog(_) => "generated-program".into(),
        }
    }
}

struct C18Gen;
impl C18Gen {
    fn strategy() -> BoxedStrategy<c18::Case> {
        use crate::engine::Property as _;
        c18::C18.strategy(Tier::Quick)
    }
}
