//! C10 — blocklisted items are referenced but never defined; opaque types are exact blobs.
//! Generated type graphs with a random subset hidden (blocklist by type/item/function/var/file,
//! opaque by option or annotation). Inventory predicates (no definition of a blocklisted name,
//! no fields/accessors on an opaque type, no derives through a blocklisted type) plus the C02
//! layout differential over everything else, with user definitions for the blocklisted types
//! supplied as raw lines of the C size and alignment.

use crate::bg::{self, BgInput, BgResult};
use crate::cmodel::*;
use crate::engine::{fnv, Env, Outcome, Property, Tier};
use crate::probe::{self, RustWalk};
use crate::rs::{self, Inventory};
use crate::tools;
use proptest::prelude::*;
use serde::{Deserialize, Serialize};
use serde_json::json;
use std::collections::{BTreeMap, BTreeSet};

pub struct C10;

#[derive(Clone, Copy, Debug, Serialize, Deserialize, PartialEq, Eq)]
pub enum HideMode {
    BlocklistType,
    BlocklistItem,
    /// functions / variables
    BlocklistFnVar,
    OpaqueOption,
    OpaqueAnnotation,
    /// matched by a blocklist and by --opaque-type at the same time: the blocklist wins
    BlocklistAndOpaque,
}

#[derive(Clone, Debug, Serialize, Deserialize)]
pub struct Case {
    pub prog: Program,
    /// (declaration picker, mode); the picker is scaled into the declarations the mode applies to
    pub hide: Vec<(u16, HideMode)>,
    /// the first k declarations live in `first.h`, which is blocklisted as a file
    pub file_prefix: Option<u8>,
    pub flags: Vec<String>,
    #[serde(default)]
    pub keep_known: bool,
    /// C++ class graph (when present, `prog` is ignored)
    #[serde(default)]
    pub cpp: Option<crate::props::c07::Graph>,
}

const EXTRA_FLAGS: &[&[&str]] = &[
    &["--with-derive-default"],
    &["--with-derive-hash", "--with-derive-partialeq", "--with-derive-eq"],
    &["--with-derive-partialord", "--with-derive-ord", "--with-derive-partialeq", "--with-derive-eq"],
    &["--impl-debug"],
    &["--impl-partialeq", "--with-derive-partialeq"],
    &["--no-layout-tests"],
    &["--default-enum-style", "rust"],
    &["--default-enum-style", "newtype"],
    &["--default-enum-style", "moduleconsts"],
    &["--explicit-padding"],
    &["--rust-target", "1.64"],
    &["--no-derive-copy"],
    &["--no-derive-debug"],
];

fn flags_strategy() -> BoxedStrategy<Vec<String>> {
    proptest::collection::vec(0..EXTRA_FLAGS.len(), 0..3)
        .prop_map(|idx| {
            let mut flags: Vec<String> = vec![];
            let mut seen: BTreeSet<&str> = BTreeSet::new();
            for i in idx {
                let g = EXTRA_FLAGS[i];
                if g.iter().any(|f| f.starts_with("--") && seen.contains(f)) {
                    continue;
                }
                for f in g.iter() {
                    if f.starts_with("--") {
                        seen.insert(f);
                    }
                    flags.push(f.to_string());
                }
            }
            flags
        })
        .boxed()
}

/// Does declaration `i` contain declaration `k` by value (members, arrays, inline members, typedefs)?
fn contains_by_value(p: &Program, i: usize, k: &BTreeSet<usize>, memo: &mut BTreeMap<usize, bool>) -> bool {
    if let Some(v) = memo.get(&i) {
        return *v;
    }
    memo.insert(i, false);
    fn ty_has(p: &Program, t: &Ty, k: &BTreeSet<usize>, memo: &mut BTreeMap<usize, bool>) -> bool {
        let mut refs = BTreeSet::new();
        t.named_refs(&mut refs, true);
        refs.iter().any(|r| k.contains(r) || contains_by_value(p, *r, k, memo))
    }
    fn comp_has(p: &Program, c: &Comp, k: &BTreeSet<usize>, memo: &mut BTreeMap<usize, bool>) -> bool {
        c.fields.iter().any(|f| match &f.ty {
            FieldTy::Ty(t) => ty_has(p, t, k, memo),
            FieldTy::Inline(ic) => comp_has(p, ic, k, memo),
        })
    }
    let r = match &p.decls[i] {
        Decl::Comp(c) => comp_has(p, c, k, memo),
        Decl::Typedef { ty, .. } => ty_has(p, ty, k, memo),
        _ => false,
    };
    memo.insert(i, r);
    r
}

const OPAQUE_FIELDS: &[&str] = &["_bindgen_opaque_blob", "_address", "_bindgen_align"];

impl Property for C10 {
    type Case = Case;
    fn id(&self) -> &'static str {
        "C10"
    }
    fn rule(&self) -> String {
        "generated C programs (C02 generator plus functions and variables) in which 1..4 declarations are hidden: types blocklisted by --blocklist-type / --blocklist-item, functions and variables by --blocklist-function / --blocklist-var / --blocklist-item, a leading run of declarations by --blocklist-file, structs and unions made opaque by --opaque-type or the `rustbindgen opaque` annotation; the hidden types are used by the rest as members, array elements, pointees, parameters and typedef targets; 0..2 derive/impl/enum-style options. Checks: inventory predicates + rustc compile with user-supplied blob definitions + C-vs-Rust layout probe of every visible type. Non-trivial = a hidden type that another emitted declaration uses by value; distinct by (header, hidden set, flags)".into()
    }
    fn assumptions(&self) -> Vec<String> {
        vec![
            "C only (bases and template arguments of the quantifier are C++: covered by repository headers in C01/C12, not here)".into(),
            "the user definition of a blocklisted type is a `#[repr(C, align(A))] struct { [u8; S] }` with clang's numbers; it derives nothing, so derives through it must be absent for the module to compile".into(),
        ]
    }
    fn strategy(&self, _tier: Tier) -> BoxedStrategy<Case> {
        let mode = prop_oneof![
            3 => Just(HideMode::BlocklistType),
            2 => Just(HideMode::BlocklistItem),
            1 => Just(HideMode::BlocklistFnVar),
            3 => Just(HideMode::OpaqueOption),
            2 => Just(HideMode::OpaqueAnnotation),
            1 => Just(HideMode::BlocklistAndOpaque),
        ];
        let c_cases = (program_strategy(GenCfg::everything()), proptest::collection::vec((any::<u16>(), mode.clone()), 1..5), proptest::option::weighted(0.15, 1u8..4), flags_strategy())
            .prop_map(|(prog, hide, file_prefix, flags)| Case { prog, hide, file_prefix, flags, keep_known: false, cpp: None });
        let cpp_cases = (crate::props::c07::graph_strategy(8), proptest::collection::vec((any::<u16>(), mode), 1..4), flags_strategy())
            .prop_map(|(graph, hide, flags)| Case { prog: Program { decls: vec![] }, hide, file_prefix: None, flags, keep_known: false, cpp: Some(graph) });
        prop_oneof![3 => c_cases, 1 => cpp_cases].boxed()
    }
    fn generated(&self, tier: Tier) -> usize {
        tier.pick(1200, 20000)
    }
    fn fixed_cases(&self, _tier: Tier) -> Vec<Case> {
        cpp_grid()
    }
    fn shrink_steps(&self) -> usize {
        60
    }
    fn max_shrunk_signatures(&self) -> usize {
        4
    }
    fn evaluate(&self, case: &Case, env: &Env) -> Outcome {
        if let Some(g) = &case.cpp {
            return evaluate_cpp(case, g, env);
        }
        let mut out = Outcome::new();
        out.evaluations = 0;
        let mut prog = case.prog.clone();
        prog.normalise();
        if !case.keep_known {
            out.excluded_known += prog.strip_unrepresentable();
        }
        let n = prog.decls.len();
        // ---- resolve the hidden sets
        let type_idx: Vec<usize> = (0..n).filter(|i| matches!(prog.decls[*i], Decl::Comp(_) | Decl::Enum(_) | Decl::Typedef { .. })).collect();
        let comp_idx: Vec<usize> = (0..n).filter(|i| matches!(prog.decls[*i], Decl::Comp(_))).collect();
        let fnvar_idx: Vec<usize> = (0..n).filter(|i| matches!(prog.decls[*i], Decl::Func(_) | Decl::Var { .. })).collect();
        // declarations that others use by value are the interesting ones to hide: weight them up
        let used_by_value: BTreeSet<usize> = {
            let mut u = BTreeSet::new();
            fn comp_refs(c: &Comp, u: &mut BTreeSet<usize>) {
                for f in &c.fields {
                    match &f.ty {
                        FieldTy::Ty(t) => t.named_refs(u, true),
                        FieldTy::Inline(ic) => comp_refs(ic, u),
                    }
                }
            }
            for d in &prog.decls {
                match d {
                    Decl::Comp(c) => comp_refs(c, &mut u),
                    Decl::Typedef { ty, .. } | Decl::Var { ty, .. } => ty.named_refs(&mut u, true),
                    _ => {}
                }
            }
            u
        };
        let weighted = |v: &Vec<usize>| -> Vec<usize> {
            let mut w = vec![];
            for i in v {
                let k = if used_by_value.contains(i) { 5 } else { 1 };
                for _ in 0..k {
                    w.push(*i);
                }
            }
            w
        };
        let type_idx = weighted(&type_idx);
        let comp_idx = weighted(&comp_idx);
        let pick = |v: &Vec<usize>, p: u16| -> Option<usize> {
            if v.is_empty() {
                None
            } else {
                Some(v[(p as usize * v.len()) >> 16])
            }
        };
        let mut blocked: BTreeMap<usize, HideMode> = BTreeMap::new();
        let mut opaque: BTreeMap<usize, HideMode> = BTreeMap::new();
        for (p, m) in &case.hide {
            match m {
                HideMode::BlocklistType | HideMode::BlocklistItem | HideMode::BlocklistAndOpaque => {
                    if let Some(i) = pick(&type_idx, *p) {
                        if !opaque.contains_key(&i) {
                            blocked.entry(i).or_insert(*m);
                        }
                    }
                }
                HideMode::BlocklistFnVar => {
                    if let Some(i) = pick(&fnvar_idx, *p) {
                        blocked.entry(i).or_insert(*m);
                    }
                }
                HideMode::OpaqueOption | HideMode::OpaqueAnnotation => {
                    if let Some(i) = pick(&comp_idx, *p) {
                        if !blocked.contains_key(&i) {
                            opaque.entry(i).or_insert(*m);
                        }
                    }
                }
            }
        }
        let k_file = case.file_prefix.map(|k| (k as usize).min(n.saturating_sub(1))).unwrap_or(0);
        for i in 0..k_file {
            if !matches!(prog.decls[i], Decl::Macro { .. }) {
                opaque.remove(&i);
                blocked.insert(i, HideMode::BlocklistItem);
            }
        }
        // typedef of void / of a blocklisted...: a blocklisted typedef of void has no layout
        blocked.retain(|i, _| !matches!(&prog.decls[*i], Decl::Typedef { ty: Ty::Void, .. }));
        // known findings, excluded by construction (and counted) unless replaying them
        let mut case_flags: Vec<String> = case.flags.clone();
        if !case.keep_known {
            // (a) PartialOrd/Ord are derived through the opaque-array helper, which lacks them
            if !opaque.is_empty() && case_flags.iter().any(|f| f == "--with-derive-partialord") {
                case_flags.retain(|f| f != "--with-derive-partialord" && f != "--with-derive-ord");
                out.excluded_known += 1;
            }
            // (b) an opaque blob that carries repr(align) inside a packed type
            fn has_packed(c: &Comp) -> bool {
                c.packed || c.pragma_pack.is_some() || c.fields.iter().any(|f| matches!(&f.ty, FieldTy::Inline(ic) if has_packed(ic)))
            }
            let packed_users: Vec<usize> = (0..n).filter(|i| matches!(&prog.decls[*i], Decl::Comp(c) if has_packed(c))).collect();
            // (d) C01 finding: derives through packed members that are not Copy
            if !packed_users.is_empty() && case_flags.iter().any(|f| f == "--no-derive-copy") {
                case_flags.retain(|f| f != "--no-derive-copy");
                out.excluded_known += 1;
            }
            // (c) hand-written Debug impls take references to packed fields
            if !packed_users.is_empty() && case_flags.iter().any(|f| f == "--impl-debug") {
                case_flags.retain(|f| f != "--impl-debug");
                out.excluded_known += 1;
            }
            let before = opaque.len();
            opaque.retain(|o, _| {
                let set: BTreeSet<usize> = [*o].into_iter().collect();
                !packed_users.iter().any(|u| {
                    let mut m = BTreeMap::new();
                    contains_by_value(&prog, *u, &set, &mut m)
                })
            });
            out.excluded_known += before - opaque.len();
        }
        if blocked.is_empty() && opaque.is_empty() {
            out.class("nothing-to-hide");
            return out;
        }
        // ---- headers
        let mut first = String::new();
        let mut main = String::new();
        if k_file > 0 {
            main.push_str("#include \"first.h\"\n");
        }
        for (i, d) in prog.decls.iter().enumerate() {
            let mut text = render_decl(&prog, d);
            if opaque.get(&i) == Some(&HideMode::OpaqueAnnotation) {
                // directly in front of the declaration (a pragma in between detaches the comment)
                let mut lines: Vec<&str> = text.split('\n').collect();
                let at = lines.iter().position(|l| !l.starts_with("#pragma")).unwrap_or(0);
                lines.insert(at, "/** <div rustbindgen opaque></div> */");
                text = lines.join("\n");
            }
            if i < k_file {
                first.push_str(&text);
            } else {
                main.push_str(&text);
            }
        }
        std::fs::write(env.dir.join("first.h"), &first).ok();
        std::fs::write(env.dir.join("in.h"), &main).ok();
        let header_text = if k_file > 0 { format!("// first.h\n{first}// in.h\n{main}") } else { main.clone() };
        // ---- C facts over the view in which hidden comps have no visible members
        let mut view = prog.clone();
        for i in blocked.keys().chain(opaque.keys()) {
            if let Decl::Comp(c) = &mut view.decls[*i] {
                c.fields.clear();
            }
        }
        std::fs::write(env.dir.join("cprobe.c"), probe::c_probe_source(&view, "in.h")).ok();
        let c_out = match tools::clang_run(&env.dir, "cprobe.c", &["-std=gnu11".into()]) {
            Ok(o) => o,
            Err(e) => return out.inconclusive(format!("C probe: {}\n{header_text}", e.chars().take(500).collect::<String>())),
        };
        let c_facts = probe::parse_facts(&c_out);
        // ---- bindgen flags
        let mut flags: Vec<String> = vec!["--no-include-path-detection".into(), "--formatter=none".into()];
        flags.extend(case_flags.iter().cloned());
        let ctx_names: BTreeMap<usize, String> = (0..n).filter_map(|i| prog.decls[i].rust_name().map(|s| (i, s))).collect();
        let c_name = |i: usize| -> String {
            match &prog.decls[i] {
                Decl::Func(f) => f.name.clone(),
                Decl::Var { name, .. } => name.clone(),
                d => d.rust_name().unwrap_or_default(),
            }
        };
        let mut raw_defs: Vec<String> = vec![];
        for (i, m) in &blocked {
            if *i < k_file {
                continue;
            }
            let name = c_name(*i);
            match (&prog.decls[*i], m) {
                (Decl::Func(_), HideMode::BlocklistFnVar) if i % 2 == 0 => flags.extend(["--blocklist-function".to_string(), name]),
                (Decl::Var { .. }, HideMode::BlocklistFnVar) if i % 2 == 0 => flags.extend(["--blocklist-var".to_string(), name]),
                (Decl::Func(_), _) | (Decl::Var { .. }, _) => flags.extend(["--blocklist-item".to_string(), name]),
                (_, HideMode::BlocklistType) => flags.extend(["--blocklist-type".to_string(), name]),
                (_, HideMode::BlocklistAndOpaque) => flags.extend(["--blocklist-type".to_string(), name.clone(), "--opaque-type".to_string(), name]),
                _ => flags.extend(["--blocklist-item".to_string(), name]),
            }
        }
        if k_file > 0 {
            flags.extend(["--blocklist-file".to_string(), ".*first\\.h".to_string()]);
        }
        for (i, m) in &opaque {
            if *m == HideMode::OpaqueOption {
                flags.extend(["--opaque-type".to_string(), c_name(*i)]);
            }
        }
        // user definitions of the blocklisted types: clang's size, and clang's alignment through a
        // zero-length array (a `repr(align)` type could not sit inside the packed types of the rest)
        let blob = |name: &str, sz: u64, al: u64| -> String {
            let carrier = match al {
                1 => "u8",
                2 => "u16",
                4 => "u32",
                8 => "u64",
                16 => "u128",
                _ => "",
            };
            if carrier.is_empty() {
                format!("#[repr(C, align({al}))] pub struct {name} {{ _user: [u8; {sz}usize] }}")
            } else {
                format!("#[repr(C)] pub struct {name} {{ _align: [{carrier}; 0usize], _user: [u8; {sz}usize] }}")
            }
        };
        for i in blocked.keys() {
            if let Decl::Opaque { tag } = &prog.decls[*i] {
                raw_defs.push(format!("#[repr(C)] pub struct {tag} {{ _user: [u8; 0usize] }}"));
                continue;
            }
            if !matches!(prog.decls[*i], Decl::Comp(_) | Decl::Enum(_) | Decl::Typedef { .. }) {
                continue;
            }
            let num = |k: &str| c_facts.get(&format!("{k}:{i}")).and_then(|v| v.parse::<u64>().ok());
            // under the module-of-constants style a use of enum E is spelled `E::Type`
            if let (Decl::Enum(_), true, Some(sz)) = (&prog.decls[*i], case_flags.iter().any(|f| f == "moduleconsts"), num("size")) {
                raw_defs.push(format!("pub mod {} {{ pub type Type = u{}; }}", ctx_names[i], sz * 8));
                continue;
            }
            // `typedef struct Tag {..} Name;` hidden with its file: both names are the user's to supply
            if *i < k_file {
                let alias = match &prog.decls[*i] {
                    Decl::Comp(c) => c.tag.as_ref().and(c.typedef_name.clone()),
                    Decl::Enum(e) => e.tag.as_ref().and(e.typedef_name.clone()),
                    _ => None,
                };
                if let Some(a) = alias {
                    raw_defs.push(format!("pub type {a} = {};", ctx_names[i]));
                }
            }
            match (num("size"), num("align")) {
                (Some(sz), Some(al)) => raw_defs.push(blob(&ctx_names[i], sz, al)),
                // an aligned typedef prints no alignment fact: it is only ever used through its own attribute
                (Some(sz), None) => raw_defs.push(blob(&ctx_names[i], sz, 1)),
                _ => {}
            }
        }
        for r in &raw_defs {
            flags.push("--raw-line".into());
            flags.push(r.clone());
        }
        let input = BgInput { files: vec![], headers: vec!["in.h".into()], flags: flags.clone(), clang_args: vec!["-std=gnu11".into()], callbacks: vec![] };
        let text = match bg::generate(&input, &env.dir) {
            BgResult::Ok(t) => t,
            other => {
                out.fail("generation-failed", format!("flags {flags:?}: {}\n{header_text}", other.describe()));
                return out;
            }
        };
        out.evaluations += 1;
        let inv = match rs::inventory(&text) {
            Ok(i) => i,
            Err(e) => {
                out.fail("bindings-unparseable", format!("{e}\n{header_text}"));
                return out;
            }
        };
        let ctx = |what: &str| format!("{what}\nflags {flags:?}\n--- header ---\n{header_text}");
        // ---- (1) blocklisted names are not defined
        for (i, m) in &blocked {
            let name = c_name(*i);
            let defs: Vec<&rs::Item> = inv
                .items
                .iter()
                .filter(|it| it.name == name || it.name == format!("{name}_"))
                .filter(|it| matches!(it.kind.as_str(), "struct" | "union" | "enum" | "type" | "const" | "static" | "fn" | "foreign_fn" | "foreign_static" | "mod"))
                .filter(|it| !it.fields.iter().any(|f| f.name == "_user"))
                // the user's own `pub mod E { pub type Type = ..; }` / `pub type Alias = Tag;` (a second
                // definition by bindgen would be a duplicate-definition compile error below)
                .filter(|it| !(it.kind == "mod" && raw_defs.iter().any(|r| r.starts_with(&format!("pub mod {} ", it.name)))))
                .filter(|it| !(it.kind == "type" && raw_defs.iter().any(|r| r.starts_with(&format!("pub type {} ", it.name)))))
                .collect();
            let class = match &prog.decls[*i] {
                Decl::Comp(_) => "comp",
                Decl::Enum(_) => "enum",
                Decl::Typedef { .. } => "typedef",
                Decl::Func(_) => "function",
                Decl::Var { .. } => "variable",
                _ => "other",
            };
            let how = if *i < k_file { "file".to_string() } else { format!("{m:?}") };
            out.class(format!("hidden:{class}:{how}"));
            if !defs.is_empty() {
                out.fail(format!("blocklisted-defined/{class}/{how}"), ctx(&format!("`{name}` is blocklisted but the bindings define {} `{}`", defs[0].kind, defs[0].name)));
            }
            // enumerators of a blocklisted enum
            if let Decl::Enum(e) = &prog.decls[*i] {
                for (vn, _) in &e.variants {
                    if inv.items.iter().any(|it| it.kind == "const" && (it.name == *vn || it.name == format!("{name}_{vn}"))) {
                        out.fail(format!("blocklisted-defined/enumerator/{how}"), ctx(&format!("enumerator `{vn}` of blocklisted enum `{name}` is defined")));
                    }
                }
            }
            // no layout assertion about a blocklisted type
            if inv.asserts.iter().any(|a| a.ty == name) {
                out.fail(format!("blocklisted-asserted/{class}"), ctx(&format!("layout assertion for blocklisted `{name}`")));
            }
        }
        // ---- (2) opaque types are member-less blobs
        for (i, m) in &opaque {
            let name = c_name(*i);
            out.class(format!("hidden:opaque:{m:?}"));
            let Some(it) = inv.items.iter().find(|it| (it.kind == "struct" || it.kind == "union") && it.name == name) else {
                // an opaque type nobody uses may be omitted? no: it is a top-level declaration
                out.fail(format!("opaque-missing/{m:?}"), ctx(&format!("opaque `{name}` is not emitted")));
                continue;
            };
            for f in &it.fields {
                if !OPAQUE_FIELDS.contains(&f.name.as_str()) {
                    out.fail(format!("opaque-exposes-fields/{m:?}"), ctx(&format!("opaque `{name}` has field `{}`", f.name)));
                }
            }
            for im in inv.items.iter().filter(|x| x.kind == "impl" && x.impl_trait.is_empty() && x.impl_self.trim() == name) {
                if !im.methods.is_empty() {
                    out.fail(format!("opaque-exposes-accessors/{m:?}"), ctx(&format!("opaque `{name}` has inherent methods {:?}", im.methods)));
                }
            }
        }
        // ---- (3) no derives through a blocklisted type
        let blocked_types: BTreeSet<usize> = blocked.keys().copied().filter(|i| matches!(prog.decls[*i], Decl::Comp(_) | Decl::Enum(_) | Decl::Typedef { .. })).collect();
        let memo: BTreeMap<usize, bool> = BTreeMap::new();
        let mut uses_hidden_by_value = false;
        for i in 0..n {
            if blocked.contains_key(&i) {
                continue;
            }
            let hidden_all: BTreeSet<usize> = blocked_types.iter().chain(opaque.keys()).copied().collect();
            let mut memo2 = BTreeMap::new();
            if contains_by_value(&prog, i, &hidden_all, &mut memo2) {
                uses_hidden_by_value = true;
            }
            if !matches!(prog.decls[i], Decl::Comp(_)) || opaque.contains_key(&i) {
                continue;
            }
            // an opaque type in between is a blob: nothing is derived through it
            let mut barrier_prog = prog.clone();
            for o in opaque.keys() {
                if let Decl::Comp(c) = &mut barrier_prog.decls[*o] {
                    c.fields.clear();
                }
            }
            let _ = &memo;
            let mut memo_b = BTreeMap::new();
            if contains_by_value(&barrier_prog, i, &blocked_types, &mut memo_b) {
                let name = c_name(i);
                if let Some(it) = inv.items.iter().find(|it| (it.kind == "struct" || it.kind == "union") && it.name == name) {
                    if !it.derives.is_empty() {
                        out.fail("derive-through-blocklisted", ctx(&format!("`{name}` contains a blocklisted type by value but derives {:?}", it.derives)));
                    }
                    // hand-written impls may exist as long as they ask nothing of the member: the
                    // compile step below decides (the user definition implements no trait)
                }
            }
        }
        // ---- (4) the module compiles with the user definitions, and every visible layout is C's
        let walk = RustWalk::run_with(&view, &inv, "", false, "__bindgen_anon_");
        for (sig, msg) in &walk.problems {
            // a hidden function/variable has no type item; visible declarations must all be there
            out.fail(format!("{sig}"), ctx(msg));
        }
        std::fs::write(env.dir.join("b.rs"), &text).ok();
        std::fs::write(env.dir.join("p.rs"), probe::rust_probe_source("b.rs", &walk, false)).ok();
        let o = match (tools::Rustc { dir: &env.dir, edition: "2021", nightly: false }).build_exe("p.rs", "p.exe", &[], false) {
            Ok(o) => o,
            Err(e) => return out.inconclusive(format!("rustc: {e}")),
        };
        if !o.ok() {
            // every distinct (code, message skeleton) of the rejected module
            let classes = |stderr: &str| -> BTreeSet<(String, String)> {
                let lines: Vec<&str> = stderr.lines().collect();
                let mut v = BTreeSet::new();
                for (k, l) in lines.iter().enumerate() {
                    if l.starts_with("error") && !l.starts_with("error: aborting") {
                        v.insert(crate::props::c01::error_class(&lines[k..].join("\n")));
                    }
                }
                v
            };
            let mine = classes(&o.stderr);
            let (code, class) = mine.iter().next().cloned().unwrap_or_default();
            // C01's known class "a packed type that is not Copy derives nothing, its container still
            // derives": the type rustc names is a *visible* packed type of the program. Hiding
            // something can bring it out (the container stops being excluded for another reason)
            // without being its cause.
            let c01_packed_class = |code: &str, class: &str| -> bool {
                let named: Option<String> = o.stderr.lines().find(|l| l.starts_with("error")).and_then(|l| {
                    let mut parts = l.split('`');
                    parts.nth(1).map(|t| t.trim_start_matches('[').split(|c: char| !(c.is_alphanumeric() || c == '_')).next().unwrap_or("").to_string())
                });
                let visible_packed = named.as_ref().map_or(false, |n| {
                    prog.decls.iter().enumerate().any(|(k, d)| match d {
                        Decl::Comp(c) => d.rust_name().as_deref() == Some(n.as_str()) && (c.packed || c.pragma_pack.is_some()) && !blocked_types.contains(&k) && !opaque.contains_key(&k),
                        _ => false,
                    })
                });
                visible_packed && crate::engine::known_sigs("C01").iter().any(|s| s.contains(&format!("/{code}/")) && s.ends_with(class))
            };
            // metamorphic baseline: the same program with nothing hidden. An error the plain
            // bindings have too is C01's subject, not the effect of hiding something.
            let plain_header = prog.render();
            std::fs::write(env.dir.join("plain.h"), &plain_header).ok();
            let mut pf: Vec<String> = vec!["--no-include-path-detection".into(), "--formatter=none".into()];
            pf.extend(case_flags.iter().cloned());
            let pin = BgInput { files: vec![], headers: vec!["plain.h".into()], flags: pf, clang_args: vec!["-std=gnu11".into()], callbacks: vec![] };
            if let BgResult::Ok(pt) = bg::generate(&pin, &env.dir) {
                std::fs::write(env.dir.join("plain.rs"), format!("#![allow(warnings)]\n{pt}")).ok();
                if let Ok(po) = (tools::Rustc { dir: &env.dir, edition: "2021", nightly: false }).check_lib("plain.rs") {
                    if !po.ok() {
                        let theirs = classes(&po.stderr);
                        let new_ones: Vec<&(String, String)> = mine.difference(&theirs).collect();
                        if new_ones.is_empty() {
                            out.excluded_known += 1;
                            out.class("compile-error-also-without-hiding (C01)");
                            return out;
                        }
                        let (code, class) = new_ones[0].clone();
                        if c01_packed_class(&code, &class) {
                            out.excluded_known += 1;
                            out.class("derive-through-visible-packed-member (C01 known class)");
                            return out;
                        }
                        out.fail(format!("rustc-rejects/{code}/{class}"), ctx(&o.stderr.chars().take(1800).collect::<String>()));
                        return out;
                    }
                }
            }
            if c01_packed_class(&code, &class) {
                out.excluded_known += 1;
                out.class("derive-through-visible-packed-member (C01 known class)");
                return out;
            }
            out.fail(format!("rustc-rejects/{code}/{class}"), ctx(&o.stderr.chars().take(1800).collect::<String>()));
            return out;
        }
        let run = match tools::run_exe(&env.dir, "p.exe", &[], 60) {
            Ok(r) if r.ok() => r,
            Ok(r) => {
                out.fail("probe-crashed", ctx(&format!("status {:?} signal {:?}", r.status, r.signal)));
                return out;
            }
            Err(e) => return out.inconclusive(format!("probe: {e}")),
        };
        let r_facts = probe::parse_facts(&run.stdout);
        let (diffs, _only_c) = probe::compare(&c_facts, &r_facts);
        for (key, cv, rv) in diffs {
            let (kind, rest) = key.split_once(':').unwrap();
            let idx: usize = rest.split(':').next().unwrap().parse().unwrap_or(0);
            let class = if opaque.contains_key(&idx) {
                "opaque"
            } else if blocked.contains_key(&idx) {
                "user-definition"
            } else {
                let hidden_all: BTreeSet<usize> = blocked_types.iter().chain(opaque.keys()).copied().collect();
                let mut m = BTreeMap::new();
                if contains_by_value(&prog, idx, &hidden_all, &mut m) {
                    "container-of-hidden"
                } else {
                    "unrelated"
                }
            };
            if class == "user-definition" {
                continue;
            }
            out.fail(format!("layout/{kind}/{class}"), ctx(&format!("{key}: C = {cv}, Rust = {rv}")));
        }
        if uses_hidden_by_value && !(blocked.is_empty() && opaque.is_empty()) {
            out.nontrivial(format!("{:x}", fnv(&format!("{header_text}{flags:?}"))));
        }
        out.sample = Some(json!({"header": header_text, "flags": flags}));
        out
    }
}

/// C++ branch: class graphs (bases, virtual methods, templates) with classes hidden. The
/// bindings' own layout assertions are the layout oracle here (evaluated by rustc); a compile
/// error that the same header shows with nothing hidden is not reported.
fn evaluate_cpp(case: &Case, graph: &crate::props::c07::Graph, env: &Env) -> Outcome {
    use crate::props::c07::NodeKind;
    let mut out = Outcome::new();
    out.evaluations = 0;
    let mut g = graph.clone();
    g.cpp = true;
    g.normalise();
    let order = g.order_from_prios(&[]);
    let classes: Vec<usize> = (0..g.nodes.len()).filter(|i| matches!(g.nodes[*i].kind, NodeKind::Class | NodeKind::Union)).collect();
    if classes.is_empty() {
        return out;
    }
    let mut blocked: BTreeMap<usize, HideMode> = BTreeMap::new();
    let mut opaque: BTreeMap<usize, HideMode> = BTreeMap::new();
    for (p, m) in &case.hide {
        let i = classes[(*p as usize * classes.len()) >> 16];
        match m {
            HideMode::BlocklistType | HideMode::BlocklistItem | HideMode::BlocklistAndOpaque | HideMode::BlocklistFnVar => {
                if !opaque.contains_key(&i) {
                    blocked.entry(i).or_insert(if *m == HideMode::BlocklistFnVar { HideMode::BlocklistItem } else { *m });
                }
            }
            HideMode::OpaqueOption | HideMode::OpaqueAnnotation => {
                if !blocked.contains_key(&i) {
                    opaque.entry(i).or_insert(HideMode::OpaqueOption);
                }
            }
        }
    }
    // known findings, excluded by construction (counted) unless replaying them:
    // (e) a blocklisted base class is not named by the derived class (and a derived class without
    //     members of its own loses the base's size); (f) an opaque *empty* base class takes a byte
    if !case.keep_known {
        let is_base: BTreeSet<usize> = g.nodes.iter().flat_map(|n| n.bases.iter().copied()).collect();
        let empty = |i: usize| g.nodes[i].fields.is_empty() && !g.nodes[i].virtual_method && g.nodes[i].bases.iter().all(|b| g.nodes[*b].fields.is_empty() && !g.nodes[*b].virtual_method);
        let b0 = blocked.len();
        blocked.retain(|i, _| !is_base.contains(i));
        let o0 = opaque.len();
        opaque.retain(|i, _| !(is_base.contains(i) && empty(*i)));
        out.excluded_known += (b0 - blocked.len()) + (o0 - opaque.len());
    }
    if blocked.is_empty() && opaque.is_empty() {
        out.class("nothing-to-hide");
        return out;
    }
    let header = g.render(&order);
    std::fs::write(env.dir.join("in.hpp"), &header).ok();
    // clang's numbers for the user definitions of blocklisted classes
    let mut exprs = vec![];
    for i in blocked.keys() {
        exprs.push(format!("sizeof(N{i})"));
        exprs.push(format!("alignof(N{i})"));
    }
    std::fs::write(env.dir.join("table.cpp"), crate::props::c06::c_table_source("in.hpp", &exprs, true)).ok();
    let table = match crate::props::c06::clang_table(&env.dir, "table.cpp", "x86_64-unknown-linux-gnu", true) {
        Ok(t) => t,
        Err(e) => return out.inconclusive(format!("clang: {e}\n{header}")),
    };
    let mut case_flags = case.flags.clone();
    if !case.keep_known && !opaque.is_empty() {
        // known finding (see the C branch): PartialOrd/Ord through the opaque-array helper
        let before = case_flags.len();
        case_flags.retain(|f| f != "--with-derive-partialord" && f != "--with-derive-ord");
        if case_flags.len() != before {
            out.excluded_known += 1;
        }
    }
    let base_flags: Vec<String> = {
        let mut f: Vec<String> = vec!["--no-include-path-detection".into(), "--formatter=none".into()];
        f.extend(case_flags.iter().filter(|x| *x != "--no-layout-tests").cloned());
        f
    };
    let mut flags = base_flags.clone();
    for (k, (i, m)) in blocked.iter().enumerate() {
        let name = format!("N{i}");
        match m {
            HideMode::BlocklistType => flags.extend(["--blocklist-type".to_string(), name.clone()]),
            HideMode::BlocklistAndOpaque => flags.extend(["--blocklist-type".to_string(), name.clone(), "--opaque-type".to_string(), name.clone()]),
            _ => flags.extend(["--blocklist-item".to_string(), name.clone()]),
        }
        let (sz, al) = (table[2 * k], table[2 * k + 1]);
        let carrier = match al {
            1 => "u8",
            2 => "u16",
            4 => "u32",
            8 => "u64",
            _ => "u128",
        };
        flags.push("--raw-line".into());
        flags.push(format!("#[repr(C)] pub struct {name} {{ _align: [{carrier}; 0usize], _user: [u8; {sz}usize] }}"));
    }
    for i in opaque.keys() {
        flags.extend(["--opaque-type".to_string(), format!("N{i}")]);
    }
    let gen = |fl: &[String], tag: &str| -> Result<(String, Inventory), String> {
        let input = BgInput { files: vec![], headers: vec!["in.hpp".into()], flags: fl.to_vec(), clang_args: vec!["-x".into(), "c++".into(), "-std=c++14".into()], callbacks: vec![] };
        match bg::generate(&input, &env.dir) {
            BgResult::Ok(t) => {
                let _ = std::fs::write(env.dir.join(format!("{tag}.rs")), format!("#![allow(warnings)]\n{t}"));
                rs::inventory(&t).map(|i| (t, i)).map_err(|e| format!("unparseable: {e}"))
            }
            other => Err(other.describe()),
        }
    };
    let ctx = |what: &str| format!("{what}\nflags {flags:?}\n--- header ---\n{header}");
    let (_text, inv) = match gen(&flags, "hidden") {
        Ok(x) => x,
        Err(e) => {
            out.fail("generation-failed/cpp", ctx(&e));
            return out;
        }
    };
    out.evaluations += 1;
    for (i, m) in &blocked {
        let name = format!("N{i}");
        out.class(format!("hidden:cpp-class:{m:?}"));
        if inv.items.iter().any(|it| it.name == name && matches!(it.kind.as_str(), "struct" | "union" | "type") && !it.fields.iter().any(|f| f.name == "_user")) {
            out.fail(format!("blocklisted-defined/cpp-class/{m:?}"), ctx(&format!("`{name}` is blocklisted but defined")));
        }
        if inv.asserts.iter().any(|a| a.ty == name) {
            out.fail("blocklisted-asserted/cpp-class", ctx(&format!("layout assertion for blocklisted `{name}`")));
        }
        for im in inv.items.iter().filter(|x| x.kind == "impl" && x.impl_trait.is_empty() && x.impl_self.trim() == name) {
            out.fail("blocklisted-defined/cpp-methods", ctx(&format!("methods {:?} of blocklisted `{name}` are emitted", im.methods)));
        }
    }
    for i in opaque.keys() {
        let name = format!("N{i}");
        out.class("hidden:cpp-class:opaque");
        let Some(it) = inv.items.iter().find(|it| (it.kind == "struct" || it.kind == "union") && it.name == name) else { continue };
        for f in &it.fields {
            if !OPAQUE_FIELDS.contains(&f.name.as_str()) {
                out.fail("opaque-exposes-fields/cpp", ctx(&format!("opaque `{name}` has field `{}`", f.name)));
            }
        }
    }
    // derives through blocklisted classes (members and bases)
    let blocked_set: BTreeSet<usize> = blocked.keys().copied().collect();
    for i in &classes {
        if blocked.contains_key(i) || opaque.contains_key(i) {
            continue;
        }
        // direct or transitive by-value containment, not looking into opaque classes
        fn contains(g: &crate::props::c07::Graph, i: usize, set: &BTreeSet<usize>, stop: &BTreeMap<usize, HideMode>, depth: u32) -> bool {
            if depth > 20 || stop.contains_key(&i) {
                return false;
            }
            let (deps, _ptrs) = g.deps(i);
            deps.iter().any(|d| set.contains(d) || contains(g, *d, set, stop, depth + 1))
        }
        if contains(&g, *i, &blocked_set, &opaque, 0) {
            if let Some(it) = inv.items.iter().find(|it| (it.kind == "struct" || it.kind == "union") && it.name == format!("N{i}")) {
                if !it.derives.is_empty() && !it.fields.iter().any(|f| f.name == "_bindgen_opaque_blob") {
                    out.fail("derive-through-blocklisted/cpp", ctx(&format!("`N{i}` contains a blocklisted class by value but derives {:?}", it.derives)));
                }
            }
        }
    }
    // compile: layout assertions are evaluated
    let rc = tools::Rustc { dir: &env.dir, edition: "2021", nightly: false };
    let classes_of = |stderr: &str| -> BTreeSet<(String, String)> {
        let lines: Vec<&str> = stderr.lines().collect();
        let mut v = BTreeSet::new();
        for (k, l) in lines.iter().enumerate() {
            if l.starts_with("error") && !l.starts_with("error: aborting") {
                v.insert(crate::props::c01::error_class(&lines[k..].join("\n")));
            }
        }
        v
    };
    match rc.check_lib("hidden.rs") {
        Ok(o) if !o.ok() => {
            let mine = classes_of(&o.stderr);
            let theirs = match gen(&base_flags, "plain") {
                Ok(_) => match rc.check_lib("plain.rs") {
                    Ok(p) if !p.ok() => classes_of(&p.stderr),
                    _ => BTreeSet::new(),
                },
                Err(_) => BTreeSet::new(),
            };
            match mine.difference(&theirs).next() {
                Some((code, class)) => {
                    let is_base: BTreeSet<usize> = g.nodes.iter().flat_map(|n| n.bases.iter().copied()).collect();
                    let tag = if blocked.keys().any(|i| is_base.contains(i)) {
                        "cpp/blocklisted-base"
                    } else if opaque.keys().any(|i| is_base.contains(i) && g.nodes[*i].fields.is_empty() && !g.nodes[*i].virtual_method) {
                        "cpp/opaque-empty-base"
                    } else {
                        "cpp"
                    };
                    out.fail(format!("rustc-rejects/{code}/{class}/{tag}"), ctx(&o.stderr.chars().take(1500).collect::<String>()))
                }
                None => out.excluded_known += 1,
            }
        }
        Ok(_) => {}
        Err(e) => return out.inconclusive(format!("rustc: {e}")),
    }
    let used = classes.iter().any(|i| {
        let (deps, _) = g.deps(*i);
        deps.iter().any(|d| blocked.contains_key(d) || opaque.contains_key(d))
    });
    if used {
        out.nontrivial(format!("{:x}", fnv(&format!("{header}{flags:?}"))));
    }
    out.class("lang:c++");
    out.sample = Some(json!({"header": header, "flags": flags}));
    out
}

/// Systematic C++ family: a hidden class H (plain / polymorphic / with destructor / with a base
/// of its own) x how it is hidden x how the rest uses it (base of a plain class, base of a class
/// with its own virtual method, member, array element, pointer, template argument).
fn cpp_grid() -> Vec<Case> {
    use crate::props::c07::{Arg, FieldKind, Graph, Node, NodeKind};
    let node = |kind: NodeKind, bases: Vec<usize>, fields: Vec<FieldKind>, vm: bool, dtor: bool| Node { kind, bases, virtual_bases: false, fields, virtual_method: vm, dtor, tbases: vec![] };
    let mut v = vec![];
    for h_kind in 0..4usize {
        for mode in [HideMode::OpaqueOption, HideMode::BlocklistType, HideMode::BlocklistAndOpaque] {
            // node 0: a helper base, node 1: template, node 2: H, then the users
            let mut nodes = vec![
                node(NodeKind::Class, vec![], vec![FieldKind::Int], false, false),
                node(NodeKind::Template, vec![], vec![FieldKind::T, FieldKind::Int], false, false),
            ];
            let h = match h_kind {
                0 => node(NodeKind::Class, vec![], vec![FieldKind::Int, FieldKind::Double], false, false),
                1 => node(NodeKind::Class, vec![], vec![FieldKind::Int], true, false),
                2 => node(NodeKind::Class, vec![], vec![FieldKind::Int], false, true),
                _ => node(NodeKind::Class, vec![0], vec![FieldKind::Float], true, false),
            };
            nodes.push(h);
            // a blocklisted base class is a known finding: the base users only exist for the opaque mode
            let with_bases = mode == HideMode::OpaqueOption;
            if with_bases {
                nodes.push(node(NodeKind::Class, vec![2], vec![FieldKind::Int], false, false)); // derived, plain
                nodes.push(node(NodeKind::Class, vec![2], vec![FieldKind::Int], true, false)); // derived with its own virtual method
                nodes.push(node(NodeKind::Class, vec![0, 2], vec![FieldKind::Double], false, false)); // second base
            }
            nodes.push(node(NodeKind::Class, vec![], vec![FieldKind::Int, FieldKind::ByValue(2), FieldKind::Int], false, false));
            nodes.push(node(NodeKind::Class, vec![], vec![FieldKind::ArrOf(2, 3), FieldKind::PtrTo(2)], false, false));
            nodes.push(node(NodeKind::Class, vec![], vec![FieldKind::Inst(1, Arg::Node(2)), FieldKind::PtrInst(1, Arg::Node(2))], false, false));
            let graph = Graph { nodes, cpp: true };
            // the picker selects H among the classes (templates are not classes): position 1
            let n_classes = if with_bases { 8 } else { 5 };
            let pick = ((1usize << 16) / n_classes + 100) as u16;
            for flags in [vec![], vec!["--with-derive-default".to_string(), "--with-derive-hash".to_string(), "--with-derive-partialeq".to_string()]] {
                v.push(Case { prog: Program { decls: vec![] }, hide: vec![(pick, mode)], file_prefix: None, flags, keep_known: false, cpp: Some(graph.clone()) });
            }
        }
    }
    v
}
