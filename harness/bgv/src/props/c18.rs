//! C18 — extern-block merging and semantic sorting only regroup items.
//! Relations between the four outputs (no pass / merge / sort / both) on the syn inventory,
//! per module path; idempotence through hook H4; each output compiles.

use crate::bg::{self, BgInput, BgResult};
use crate::corpus;
use crate::engine::{fnv, Env, Outcome, Property, Tier};
use crate::rs::{self, flat_tokens, Inventory, Item};
use crate::tools;
use proptest::prelude::*;
use serde::{Deserialize, Serialize};
use serde_json::json;
use std::collections::{BTreeMap, BTreeSet};

pub struct C18;

#[derive(Clone, Debug, Serialize, Deserialize, PartialEq, Eq, Hash)]
pub enum Decl {
    /// function: (abi attribute index, attribute index, doc comment, variadic, special name index)
    Func { abi: u8, attr: u8, doc: bool, variadic: bool, special: u8 },
    Var { is_const: bool, array: bool },
    Struct { fields: u8, bitfield: bool },
    Union,
    Enum { variants: u8 },
    Typedef,
    Macro { string: bool },
    FnPtrTypedef,
    StaticInline,
    Namespace(Vec<Decl>),
}

#[derive(Clone, Debug, Serialize, Deserialize)]
pub enum Case {
    Repo { name: String },
    Gen {
        decls: Vec<Decl>,
        cpp: bool,
        /// rust target below / above unsafe extern
        old_target: bool,
        /// indices (mod #functions) of functions whose ABI is overridden, with abi index
        overrides: Vec<(u8, u8)>,
        block_attrs: bool,
        wasm_module: bool,
        attr_detection: bool,
        /// module raw lines: (module selector, line index)
        raw_lines: Vec<(u8, u8)>,
        namespaces: bool,
    },
}

const ABI_ATTRS: &[&str] = &["", "", "", "__attribute__((ms_abi))", "__attribute__((sysv_abi))"];
const FN_ATTRS: &[&str] = &["", "", "__attribute__((warn_unused_result))", "__attribute__((noreturn))", "[[nodiscard]]"];
const SPECIAL_NAMES: &[&str] = &["", "", "", "", "type", "match", "fn", "r#gen"];
const OVERRIDE_ABIS: &[&str] = &["C-unwind", "system", "win64", "efiapi", "C"];
const RAW_LINES: &[&str] = &[
    "extern \"C\" { pub fn raw_plain_extern(x: i32) -> i32; }",
    "unsafe extern \"C\" { pub fn raw_unsafe_extern(x: i32) -> i32; }",
    "pub const RAW_CONST: u8 = 7;",
    "pub fn raw_fn() -> u8 { 7 }",
    "pub struct RawStruct { pub a: u8 }",
    "use core::ffi::c_void as RawVoid;",
    "extern \"C-unwind\" { pub fn raw_unwind(); }",
    "pub static RAW_STATIC: u8 = 1;",
    "impl RawImplTarget { pub const K: u8 = 1; } pub struct RawImplTarget;",
];

struct Render {
    out: String,
    n: usize,
    fn_names: Vec<String>,
    used_special: BTreeSet<u8>,
    cpp: bool,
}

impl Render {
    fn decl(&mut self, d: &Decl, depth: usize) {
        let i = self.n;
        self.n += 1;
        let ind = "  ".repeat(depth);
        match d {
            Decl::Func { abi, attr, doc, variadic, special } => {
                let mut name = format!("f{i}");
                let sp = SPECIAL_NAMES[*special as usize % SPECIAL_NAMES.len()];
                if !sp.is_empty() && depth == 0 && !self.used_special.contains(special) && sp != "r#gen" {
                    self.used_special.insert(*special);
                    name = sp.to_string();
                } else if sp == "r#gen" && depth == 0 && !self.used_special.contains(special) {
                    self.used_special.insert(*special);
                    name = "gen".into();
                }
                if *doc {
                    self.out.push_str(&format!("{ind}/// documentation of {name}\n"));
                }
                let a = ABI_ATTRS[*abi as usize % ABI_ATTRS.len()];
                let mut at = FN_ATTRS[*attr as usize % FN_ATTRS.len()];
                if at == "[[nodiscard]]" && !self.cpp {
                    at = "__attribute__((warn_unused_result))";
                }
                let ret = if at.contains("noreturn") { "void" } else { "int" };
                let params = if *variadic { "int a, ..." } else if i % 3 == 0 { "int a, const char *b" } else if i % 3 == 1 { "void" } else { "double x, struct Fwd *p" };
                let params = if self.cpp && params == "void" { "" } else { params };
                // [[nodiscard]] must precede the declaration
                if at.starts_with("[[") {
                    self.out.push_str(&format!("{ind}{at} {ret} {a} {name}({params});\n"));
                } else {
                    self.out.push_str(&format!("{ind}{ret} {a} {at} {name}({params});\n"));
                }
                self.fn_names.push(name);
            }
            Decl::Var { is_const, array } => {
                let c = if *is_const { "const " } else { "" };
                let arr = if *array { "[4]" } else { "" };
                self.out.push_str(&format!("{ind}extern {c}int v{i}{arr};\n"));
            }
            Decl::Struct { fields, bitfield } => {
                self.out.push_str(&format!("{ind}struct S{i} {{\n"));
                for k in 0..(*fields % 4) {
                    self.out.push_str(&format!("{ind}  int m{k};\n"));
                }
                if *bitfield {
                    self.out.push_str(&format!("{ind}  unsigned b : 3;\n"));
                }
                self.out.push_str(&format!("{ind}}};\n"));
            }
            Decl::Union => self.out.push_str(&format!("{ind}union U{i} {{ int a; float b; }};\n")),
            Decl::Enum { variants } => {
                let vs: Vec<String> = (0..(*variants % 4) + 1).map(|k| format!("E{i}_V{k}")).collect();
                self.out.push_str(&format!("{ind}enum E{i} {{ {} }};\n", vs.join(", ")));
            }
            Decl::Typedef => self.out.push_str(&format!("{ind}typedef unsigned long T{i};\n")),
            Decl::Macro { string } => {
                if *string {
                    self.out.push_str(&format!("#define M{i} \"s{i}\"\n"));
                } else {
                    self.out.push_str(&format!("#define M{i} {i}\n"));
                }
            }
            Decl::FnPtrTypedef => self.out.push_str(&format!("{ind}typedef int (*FP{i})(int, char);\n")),
            Decl::StaticInline => self.out.push_str(&format!("{ind}static inline int si{i}(int x) {{ return x; }}\n")),
            Decl::Namespace(inner) => {
                if self.cpp {
                    self.out.push_str(&format!("{ind}namespace ns{i} {{\n"));
                    for d in inner {
                        self.decl(d, depth + 1);
                    }
                    self.out.push_str(&format!("{ind}}}\n"));
                } else {
                    for d in inner {
                        self.decl(d, depth);
                    }
                }
            }
        }
    }
}

fn decl_strategy() -> impl Strategy<Value = Decl> {
    let leaf = prop_oneof![
        10 => (0u8..5, 0u8..5, any::<bool>(), proptest::bool::weighted(0.15), 0u8..8).prop_map(|(abi, attr, doc, variadic, special)| Decl::Func { abi, attr, doc, variadic, special }),
        4 => (any::<bool>(), any::<bool>()).prop_map(|(is_const, array)| Decl::Var { is_const, array }),
        3 => (0u8..4, any::<bool>()).prop_map(|(fields, bitfield)| Decl::Struct { fields, bitfield }),
        1 => Just(Decl::Union),
        2 => (0u8..4).prop_map(|variants| Decl::Enum { variants }),
        2 => Just(Decl::Typedef),
        2 => any::<bool>().prop_map(|string| Decl::Macro { string }),
        1 => Just(Decl::FnPtrTypedef),
        1 => Just(Decl::StaticInline),
    ];
    leaf.prop_recursive(2, 24, 8, |inner| proptest::collection::vec(inner, 1..8).prop_map(Decl::Namespace))
}

pub fn gen_input(case: &Case, merge: bool, sort: bool) -> Option<(BgInput, String)> {
    let Case::Gen { decls, cpp, old_target, overrides, block_attrs, wasm_module, attr_detection, raw_lines, namespaces } = case else { return None };
    let mut r = Render { out: "struct Fwd;\n".into(), n: 0, fn_names: vec![], used_special: BTreeSet::new(), cpp: *cpp };
    for d in decls {
        r.decl(d, 0);
    }
    let mut flags: Vec<String> = vec!["--formatter=none".into(), "--no-include-path-detection".into()];
    if *old_target {
        flags.push("--rust-target".into());
        flags.push("1.81".into());
    }
    if !r.fn_names.is_empty() {
        for (fi, ai) in overrides {
            let name = &r.fn_names[*fi as usize % r.fn_names.len()];
            flags.push("--override-abi".into());
            flags.push(format!("{}={}", name, OVERRIDE_ABIS[*ai as usize % OVERRIDE_ABIS.len()]));
        }
    }
    if *block_attrs {
        flags.push("--extern-fn-block-attrs".into());
        flags.push("#[cfg(all())]".into());
    }
    if *wasm_module {
        flags.push("--wasm-import-module-name".into());
        flags.push("wasm_mod".into());
    }
    if *attr_detection {
        flags.push("--enable-function-attribute-detection".into());
    }
    if *cpp && *namespaces {
        flags.push("--enable-cxx-namespaces".into());
    }
    let mut seen_lines = BTreeSet::new();
    for (m, l) in raw_lines {
        if !seen_lines.insert(*l as usize % RAW_LINES.len()) {
            continue;
        }
        let module = if *cpp && *namespaces { "root" } else { "" };
        let _ = m;
        let line = RAW_LINES[*l as usize % RAW_LINES.len()];
        // `unsafe extern` raw lines only make sense for targets that know the syntax
        if *old_target && line.starts_with("unsafe extern") {
            continue;
        }
        if module.is_empty() {
            // without namespaces there is no module to attach to: use the root through --raw-line's module form
            flags.push("--module-raw-line".into());
            flags.push("root".into());
            flags.push(line.into());
        } else {
            flags.push("--module-raw-line".into());
            flags.push(module.into());
            flags.push(line.into());
        }
    }
    if merge {
        flags.push("--merge-extern-blocks".into());
    }
    if sort {
        flags.push("--sort-semantically".into());
    }
    let file = if *cpp { "in.hpp" } else { "in.h" };
    let clang_args = if *cpp { vec!["-x".into(), "c++".into(), "-std=c++17".into()] } else { vec![] };
    let text = r.out.clone();
    Some((BgInput { files: vec![(file.into(), r.out)], headers: vec![file.into()], flags, clang_args, callbacks: vec![] }, text))
}

fn repo_input(name: &str, merge: bool, sort: bool) -> Option<BgInput> {
    let h = corpus::load_one(&std::path::Path::new(corpus::HEADERS_DIR).join(name))?;
    let mut i = h.input();
    i.flags.retain(|f| f != "--merge-extern-blocks" && f != "--sort-semantically");
    // `--raw-line` text is written verbatim in front of the generated items and is not subject
    // to the passes (module raw lines are): drop it so that the prefix does not blur the relations
    let mut kept = vec![];
    let mut it = std::mem::take(&mut i.flags).into_iter();
    while let Some(f) = it.next() {
        if f == "--raw-line" {
            it.next();
            continue;
        }
        if f.starts_with("--raw-line=") {
            continue;
        }
        kept.push(f);
    }
    i.flags = kept;
    if merge {
        i.flags.push("--merge-extern-blocks".into());
    }
    if sort {
        i.flags.push("--sort-semantically".into());
    }
    Some(i)
}

type Key = (Vec<String>, String, bool);

fn foreign_key(i: &Item) -> Key {
    (i.block_attrs.clone(), i.abi.clone(), i.block_unsafe)
}

fn is_foreign(i: &Item) -> bool {
    i.kind.starts_with("foreign_")
}

/// syn item kind used by the sort discipline
fn sort_kind(i: &Item) -> &str {
    match i.kind.as_str() {
        "layout_assert" => {
            if i.text.starts_with("# [ test ]") || i.text.contains(" fn ") && !i.text.contains("const _") {
                "fn"
            } else {
                "const"
            }
        }
        k if k.starts_with("foreign_") => "foreign",
        "mod_decl" => "mod",
        k => k,
    }
}

fn modules(inv: &Inventory) -> BTreeSet<String> {
    inv.items.iter().map(|i| i.module.clone()).collect()
}

fn multiset(items: impl Iterator<Item = String>) -> BTreeMap<String, usize> {
    let mut m = BTreeMap::new();
    for i in items {
        *m.entry(i).or_default() += 1;
    }
    m
}

fn first_multiset_diff(a: &BTreeMap<String, usize>, b: &BTreeMap<String, usize>) -> String {
    for (k, v) in a {
        if b.get(k) != Some(v) {
            return format!("{} x `{}` vs {} x", v, k.chars().take(300).collect::<String>(), b.get(k).copied().unwrap_or(0));
        }
    }
    for (k, v) in b {
        if !a.contains_key(k) {
            return format!("0 x `{}` vs {} x", k.chars().take(300).collect::<String>(), v);
        }
    }
    String::new()
}

struct Outs {
    u: String,
    m: String,
    s: String,
    ms: String,
}

fn check_relations(o: &Outs, out: &mut Outcome, ctx: &str) -> Option<[Inventory; 4]> {
    let invs: Vec<Result<Inventory, String>> = [&o.u, &o.m, &o.s, &o.ms].iter().map(|t| rs::inventory(t)).collect();
    for (n, r) in ["none", "merge", "sort", "merge+sort"].iter().zip(invs.iter()) {
        if let Err(e) = r {
            out.fail(format!("unparseable/{n}"), format!("{ctx}: {e}"));
            return None;
        }
    }
    let mut it = invs.into_iter().map(|r| r.unwrap());
    let invs: [Inventory; 4] = [it.next().unwrap(), it.next().unwrap(), it.next().unwrap(), it.next().unwrap()];
    let names = ["none", "merge", "sort", "merge+sort"];
    let u = &invs[0];
    // (1) multisets per module
    for (k, inv) in invs.iter().enumerate().skip(1) {
        let mods: BTreeSet<String> = modules(u).union(&modules(inv)).cloned().collect();
        for md in &mods {
            let nf = |x: &Inventory| multiset(x.items.iter().filter(|i| i.module == *md && !is_foreign(i)).map(|i| i.text.clone()));
            let (a, b) = (nf(u), nf(inv));
            if a != b {
                out.fail(format!("multiset/non-foreign/{}", names[k]), format!("{ctx} module `{md}`: {}", first_multiset_diff(&a, &b)));
            }
            let ff = |x: &Inventory| {
                multiset(x.items.iter().filter(|i| i.module == *md && is_foreign(i)).map(|i| format!("{:?} | {}", foreign_key(i), i.text)))
            };
            let (a, b) = (ff(u), ff(inv));
            if a != b {
                // which component changed?
                let strip = |x: &Inventory| multiset(x.items.iter().filter(|i| i.module == *md && is_foreign(i)).map(|i| i.text.clone()));
                let what = if strip(u) != strip(inv) {
                    "item-lost-or-changed"
                } else {
                    let abi_only = |x: &Inventory| multiset(x.items.iter().filter(|i| i.module == *md && is_foreign(i)).map(|i| format!("{} | {}", i.abi, i.text)));
                    let unsafe_only = |x: &Inventory| multiset(x.items.iter().filter(|i| i.module == *md && is_foreign(i)).map(|i| format!("{} | {}", i.block_unsafe, i.text)));
                    if abi_only(u) != abi_only(inv) {
                        "abi-changed"
                    } else if unsafe_only(u) != unsafe_only(inv) {
                        "unsafety-changed"
                    } else {
                        "block-attrs-changed"
                    }
                };
                out.fail(format!("multiset/foreign/{what}/{}", names[k]), format!("{ctx} module `{md}`: {}", first_multiset_diff(&a, &b)));
            }
        }
    }
    // (2) merge discipline
    for k in [1usize, 3] {
        let inv = &invs[k];
        for md in modules(inv) {
            // blocks: block_index -> key
            let mut blocks: BTreeMap<usize, Key> = BTreeMap::new();
            for i in inv.items.iter().filter(|i| i.module == md && is_foreign(i)) {
                blocks.entry(i.block_index).or_insert_with(|| foreign_key(i));
            }
            let keys: Vec<&Key> = blocks.values().collect();
            let uniq: BTreeSet<&Key> = keys.iter().cloned().collect();
            if uniq.len() != keys.len() {
                out.fail(format!("merge/duplicate-key/{}", names[k]), format!("{ctx} module `{md}`: {} blocks, {} distinct (attrs, abi, unsafety) keys", keys.len(), uniq.len()));
            }
            // order of foreign items with equal key = their order in U
            for key in uniq {
                let seq = |x: &Inventory| -> Vec<String> {
                    x.items.iter().filter(|i| i.module == md && is_foreign(i) && foreign_key(i) == *key).map(|i| i.text.clone()).collect()
                };
                // the reference order is the output with the same sort setting but without merge
                let reference = if k == 1 { &invs[0] } else { &invs[2] };
                if seq(inv) != seq(reference) && multiset(seq(inv).into_iter()) == multiset(seq(reference).into_iter()) {
                    out.fail(format!("merge/order-changed/{}", names[k]), format!("{ctx} module `{md}` key {key:?}"));
                }
            }
        }
    }
    // (3) sort discipline: kinds contiguous, relative order within a kind preserved, one global kind order
    let mut precedes: BTreeSet<(String, String)> = BTreeSet::new();
    for k in [2usize, 3] {
        let inv = &invs[k];
        let reference = if k == 2 { &invs[0] } else { &invs[1] };
        for md in modules(inv) {
            // sequence of top-level syn items = distinct `index` values
            let mut seq: Vec<(usize, String, String)> = vec![];
            for i in inv.items.iter().filter(|i| i.module == md) {
                if seq.last().map(|l| l.0) != Some(i.index) {
                    let txt = if is_foreign(i) { format!("block#{:?}", foreign_key(i)) } else { i.text.clone() };
                    seq.push((i.index, sort_kind(i).to_string(), txt));
                }
            }
            let mut seen: Vec<String> = vec![];
            for (_, kind, _) in &seq {
                if seen.last() != Some(kind) {
                    if seen.contains(kind) {
                        out.fail(format!("sort/kind-not-contiguous/{}", names[k]), format!("{ctx} module `{md}`: kind {kind} appears in two runs: {:?}", seq.iter().map(|s| s.1.as_str()).collect::<Vec<_>>()));
                        break;
                    }
                    for p in &seen {
                        precedes.insert((p.clone(), kind.clone()));
                    }
                    seen.push(kind.clone());
                }
            }
            // relative order within kind (non-foreign items; foreign blocks are compared by key sequence)
            let kinds: BTreeSet<String> = seq.iter().map(|s| s.1.clone()).collect();
            for kind in kinds {
                let order = |x: &Inventory| -> Vec<String> {
                    let mut v = vec![];
                    let mut last = usize::MAX;
                    for i in x.items.iter().filter(|i| i.module == md && sort_kind(i) == kind) {
                        if i.index != last {
                            last = i.index;
                            v.push(if is_foreign(i) { format!("block#{:?}", foreign_key(i)) } else { i.text.clone() });
                        }
                    }
                    v
                };
                let (a, b) = (order(reference), order(inv));
                if a != b && multiset(a.iter().cloned()) == multiset(b.iter().cloned()) {
                    out.fail(format!("sort/order-within-kind-changed/{kind}/{}", names[k]), format!("{ctx} module `{md}`"));
                }
            }
        }
    }
    for (a, b) in &precedes {
        if precedes.contains(&(b.clone(), a.clone())) && a < b {
            out.fail("sort/inconsistent-kind-order", format!("{ctx}: kind {a} precedes {b} in one module and follows it in another"));
        }
    }
    Some(invs)
}

fn tokens_eq(a: &str, b: &str) -> bool {
    flat_tokens(a) == flat_tokens(b)
}

fn check_idempotence(o: &Outs, out: &mut Outcome, ctx: &str) {
    let combos = [(&o.m, true, false, "merge"), (&o.s, false, true, "sort"), (&o.ms, true, true, "merge+sort")];
    for (text, merge, sort, name) in combos {
        match bindgen::verif::postprocess(text, merge, sort) {
            None => out.fail(format!("idempotence/unparseable/{name}"), ctx.to_string()),
            Some(again) => {
                if !tokens_eq(text, &again) {
                    out.fail(format!("idempotence/changed/{name}"), format!("{ctx}: applying {name} to its own output changes it"));
                }
            }
        }
        // passes applied to the unprocessed text give the processed output
        if let Some(from_u) = bindgen::verif::postprocess(&o.u, merge, sort) {
            if !tokens_eq(text, &from_u) {
                out.fail(format!("passes-on-unprocessed-differ/{name}"), format!("{ctx}: {name}(unprocessed output) != output generated with {name}"));
            }
        }
    }
}

impl C18 {
    fn four(&self, mk: impl Fn(bool, bool) -> Option<BgInput>, env: &Env) -> Result<Outs, String> {
        let mut texts = vec![];
        for (m, s) in [(false, false), (true, false), (false, true), (true, true)] {
            let input = mk(m, s).ok_or("cannot build input")?;
            match bg::generate(&input, &env.dir) {
                BgResult::Ok(t) => texts.push(t),
                other => return Err(format!("merge={m} sort={s}: {}", other.describe())),
            }
        }
        let mut it = texts.into_iter();
        Ok(Outs { u: it.next().unwrap(), m: it.next().unwrap(), s: it.next().unwrap(), ms: it.next().unwrap() })
    }
}

impl Property for C18 {
    type Case = Case;
    fn id(&self) -> &'static str {
        "C18"
    }
    fn rule(&self) -> String {
        "fixed: every repository header (with its flag line); generated: C/C++ programs of interleaved functions (ABI attributes, must_use/noreturn attributes, doc comments, keyword names needing link_name, variadics), globals, types, macros, nested namespaces, with ABI overrides, block attributes, wasm import module, module raw lines that contain extern blocks and other items, rust target on both sides of unsafe-extern; each under the four pass combinations. Non-trivial = unprocessed output has a module with >=2 extern blocks that differ in (attrs, abi, unsafety), >=2 that agree, and >=3 other item kinds; distinct by hash of the unprocessed output".into()
    }
    fn assumptions(&self) -> Vec<String> {
        vec![
            "items are compared as normalised token strings from a syn parse of the emitted text".into(),
            "rustc acceptance is checked for generated cases only (repository headers may need crates or targets that are not installed)".into(),
        ]
    }
    fn strategy(&self, _tier: Tier) -> BoxedStrategy<Case> {
        (
            proptest::collection::vec(decl_strategy(), 4..28),
            any::<bool>(),
            proptest::bool::weighted(0.3),
            proptest::collection::vec((0u8..40, 0u8..5), 0..4),
            proptest::bool::weighted(0.25),
            proptest::bool::weighted(0.2),
            proptest::bool::weighted(0.5),
            proptest::collection::vec((0u8..4, 0u8..9), 0..4),
            proptest::bool::weighted(0.7),
        )
            .prop_map(|(decls, cpp, old_target, overrides, block_attrs, wasm_module, attr_detection, raw_lines, namespaces)| Case::Gen {
                decls,
                cpp,
                old_target,
                overrides,
                block_attrs,
                wasm_module,
                attr_detection,
                raw_lines,
                namespaces,
            })
            .boxed()
    }
    fn generated(&self, tier: Tier) -> usize {
        tier.pick(250, 4000)
    }
    fn fixed_cases(&self, _tier: Tier) -> Vec<Case> {
        corpus::load_all().into_iter().map(|h| Case::Repo { name: h.name }).collect()
    }
    fn evaluate(&self, case: &Case, env: &Env) -> Outcome {
        let mut out = Outcome::new();
        out.evaluations = 4;
        let (outs, ctx, compile, edition) = match case {
            Case::Repo { name } => {
                let r = self.four(|m, s| repo_input(name, m, s), env);
                match r {
                    Ok(o) => (o, name.clone(), false, "2021"),
                    Err(e) => {
                        // generation failures are C12's subject; but they must not depend on the passes
                        out.class("repo:generation-failed");
                        let all_fail = [(false, false), (true, false), (false, true), (true, true)].iter().all(|(m, s)| {
                            repo_input(name, *m, *s).map(|i| !matches!(bg::generate(&i, &env.dir), BgResult::Ok(_))).unwrap_or(true)
                        });
                        if !all_fail {
                            out.fail("generation/fails-only-with-some-passes", format!("{name}: {e}"));
                        }
                        return out;
                    }
                }
            }
            Case::Gen { old_target, .. } => {
                let r = self.four(|m, s| gen_input(case, m, s).map(|x| x.0), env);
                match r {
                    Ok(o) => (o, "generated".to_string(), true, if *old_target { "2021" } else { "2024" }),
                    Err(e) => {
                        if e.contains("ClangDiagnostic") {
                            return out.inconclusive(format!("generated header rejected by clang: {e}\n{}", gen_input(case, false, false).map(|x| x.1).unwrap_or_default()));
                        }
                        out.fail("generation/failed", e);
                        return out;
                    }
                }
            }
        };
        let Some(invs) = check_relations(&outs, &mut out, &ctx) else { return out };
        check_idempotence(&outs, &mut out, &ctx);
        if compile {
            // raw `extern "C"` (non-unsafe) blocks are invalid in edition 2024 by themselves: use the
            // edition the unprocessed output compiles in, and demand the same of the others
            let mut ed = edition;
            let files = [("u.rs", &outs.u), ("m.rs", &outs.m), ("s.rs", &outs.s), ("ms.rs", &outs.ms)];
            for (f, t) in files {
                std::fs::write(env.dir.join(f), format!("#![allow(warnings)]\n{t}")).ok();
            }
            let mut r = tools::Rustc { dir: &env.dir, edition: ed, nightly: false }.check_lib("u.rs");
            if let Ok(o) = &r {
                if !o.ok() && ed == "2024" {
                    ed = "2021";
                    r = tools::Rustc { dir: &env.dir, edition: ed, nightly: false }.check_lib("u.rs");
                }
            }
            match r {
                Ok(o) if o.ok() => {
                    for (f, _) in &files[1..] {
                        match (tools::Rustc { dir: &env.dir, edition: ed, nightly: false }).check_lib(f) {
                            Ok(o2) if !o2.ok() => {
                                let (codes, first) = tools::rustc_error_summary(&o2.stderr);
                                out.fail(format!("rustc-rejects-processed/{}/{}", f.trim_end_matches(".rs"), codes.first().cloned().unwrap_or_default()), format!("unprocessed output compiles (edition {ed}), {f} does not: {first}\n{}", o2.stderr.chars().take(1500).collect::<String>()));
                            }
                            Ok(_) => {}
                            Err(e) => return out.inconclusive(e),
                        }
                        out.evaluations += 1;
                    }
                }
                Ok(_) => {
                    // unprocessed output itself does not compile: C01's subject
                    out.class("gen:unprocessed-does-not-compile");
                }
                Err(e) => return out.inconclusive(e),
            }
        }
        // non-triviality
        let u = &invs[0];
        for md in modules(u) {
            let mut blocks: BTreeMap<usize, Key> = BTreeMap::new();
            for i in u.items.iter().filter(|i| i.module == md && is_foreign(i)) {
                blocks.entry(i.block_index).or_insert_with(|| foreign_key(i));
            }
            let keys: Vec<&Key> = blocks.values().collect();
            let uniq: BTreeSet<&Key> = keys.iter().cloned().collect();
            let kinds: BTreeSet<&str> = u.items.iter().filter(|i| i.module == md && !is_foreign(i)).map(|i| sort_kind(i)).collect();
            if uniq.len() >= 2 && keys.len() > uniq.len() && kinds.len() >= 3 {
                out.nontrivial(format!("{:x}", fnv(&outs.u)));
            }
            if uniq.len() >= 2 {
                out.class("module-with-differing-extern-blocks");
            }
        }
        if modules(u).len() > 1 {
            out.class("has-nested-modules");
        }
        if outs.u.contains("unsafe extern") && outs.u.contains("} extern \"C\" {") || outs.u.contains("raw_plain_extern") {
            out.class("mixed-unsafety-blocks");
        }
        out.sample = Some(match case {
            Case::Repo { name } => json!({"repo_header": name}),
            Case::Gen { .. } => json!({"header": gen_input(case, false, false).map(|x| x.1), "flags": gen_input(case, true, true).map(|x| x.0.flags)}),
        });
        out
    }
}
