//! Case engine: proptest-driven generation, parallel evaluation, shrinking,
//! replay files, known findings, evidence.  See DESIGN.md section 1.3/1.7/1.8.

use proptest::strategy::{BoxedStrategy, Strategy, ValueTree};
use proptest::test_runner::{Config, RngAlgorithm, RngSeed, TestRng, TestRunner};
use rayon::prelude::*;
use serde::de::DeserializeOwned;
use serde::Serialize;
use serde_json::{json, Value};
use std::collections::{BTreeMap, BTreeSet};
use std::fmt::Debug;
use std::path::{Path, PathBuf};
use std::sync::atomic::{AtomicUsize, Ordering};
use std::time::{Duration, Instant};

pub const VERIF: &str = "/verif";

#[derive(Clone, Copy, Debug, PartialEq, Eq)]
pub enum Tier {
    Quick,
    Thorough,
}

impl Tier {
    pub fn name(self) -> &'static str {
        match self {
            Tier::Quick => "quick",
            Tier::Thorough => "thorough",
        }
    }
    pub fn pick(self, q: usize, t: usize) -> usize {
        match self {
            Tier::Quick => q,
            Tier::Thorough => t,
        }
    }
}

#[derive(Clone, Debug)]
pub struct Failure {
    /// clause/normalised-detail; stable identity of the root cause class
    pub sig: String,
    /// human readable detail
    pub msg: String,
}

#[derive(Default, Debug)]
pub struct Outcome {
    pub failures: Vec<Failure>,
    /// keys of distinct non-trivial (sub-)cases this evaluation covered
    pub nontrivial: Vec<String>,
    /// class labels (generator health histogram)
    pub classes: Vec<String>,
    /// number of oracle evaluations performed (default 1 per case)
    pub evaluations: usize,
    /// cases/sub-cases excluded because they fall in a known finding
    pub excluded_known: usize,
    /// evaluation could not decide (tool failure, watchdog)
    pub inconclusive: Option<String>,
    /// a compact description of the case for the evidence samples
    pub sample: Option<Value>,
}

impl Outcome {
    pub fn new() -> Self {
        Outcome { evaluations: 1, ..Default::default() }
    }
    pub fn fail(&mut self, sig: impl Into<String>, msg: impl Into<String>) {
        self.failures.push(Failure { sig: sig.into(), msg: msg.into() });
    }
    pub fn class(&mut self, c: impl Into<String>) {
        self.classes.push(c.into());
    }
    pub fn nontrivial(&mut self, k: impl Into<String>) {
        self.nontrivial.push(k.into());
    }
    pub fn inconclusive(mut self, why: impl Into<String>) -> Self {
        self.inconclusive = Some(why.into());
        self
    }
}

pub struct Env {
    /// scratch directory owned by this evaluation (removed afterwards)
    pub dir: PathBuf,
    pub tier: Tier,
    /// true when replaying a single case: keep scratch, be verbose
    pub replay: bool,
    pub seed: u64,
}

pub trait Property: Sync + Send {
    type Case: Clone + Debug + Serialize + DeserializeOwned + Send + Sync + 'static;
    fn id(&self) -> &'static str;
    fn rule(&self) -> String;
    fn level(&self) -> &'static str {
        "exploration"
    }
    fn assumptions(&self) -> Vec<String> {
        vec![]
    }
    fn strategy(&self, tier: Tier) -> BoxedStrategy<Self::Case>;
    /// number of cases drawn from `strategy`
    fn generated(&self, tier: Tier) -> usize;
    /// enumerated / corpus-derived cases evaluated in addition
    fn fixed_cases(&self, _tier: Tier) -> Vec<Self::Case> {
        vec![]
    }
    /// whether fixed_cases enumerate a finite space completely
    fn exhaustive(&self, _tier: Tier) -> bool {
        false
    }
    fn evaluate(&self, case: &Self::Case, env: &Env) -> Outcome;
    /// threads used for evaluation
    fn parallelism(&self) -> usize {
        16
    }
    /// extra coverage keys
    fn extra_coverage(&self) -> BTreeMap<String, Value> {
        BTreeMap::new()
    }
    /// called once before evaluation starts
    fn prepare(&self, _tier: Tier) -> Result<(), String> {
        Ok(())
    }
    /// max shrink steps
    fn shrink_steps(&self) -> usize {
        150
    }
    /// how many distinct new signatures are shrunk (the rest are reported unshrunk)
    fn max_shrunk_signatures(&self) -> usize {
        8
    }
}

#[derive(Clone, Debug, serde::Deserialize)]
pub struct KnownFinding {
    pub property: String,
    pub signature: String,
    #[serde(default)]
    pub replay: Option<String>,
    pub what_fails: String,
    pub status: String,
    #[serde(default)]
    pub commit: Option<String>,
}

pub fn load_known(id: &str) -> Vec<KnownFinding> {
    let p = Path::new(VERIF).join("known_findings.json");
    let Ok(text) = std::fs::read_to_string(&p) else { return vec![] };
    let v: Value = serde_json::from_str(&text).expect("known_findings.json is not JSON");
    let arr = v.get("findings").cloned().unwrap_or(Value::Array(vec![]));
    let all: Vec<KnownFinding> = serde_json::from_value(arr).expect("known_findings.json shape");
    all.into_iter().filter(|k| k.property == id).collect()
}

/// Known signatures (status == "known") that suppress a VIOLATION.
pub fn known_sigs(id: &str) -> BTreeSet<String> {
    load_known(id)
        .into_iter()
        .filter(|k| k.status == "known")
        .map(|k| k.signature)
        .collect()
}

pub fn seed_from_env() -> u64 {
    std::env::var("VERIF_SEED").ok().and_then(|s| s.trim().parse::<i64>().ok()).map(|v| v as u64).unwrap_or(0)
}

fn rng_seed_bytes(seed: u64, id: &str) -> [u8; 32] {
    let mut b = [0u8; 32];
    b[..8].copy_from_slice(&seed.to_le_bytes());
    let mut h: u64 = 0xcbf29ce484222325;
    for c in id.bytes() {
        h = (h ^ c as u64).wrapping_mul(0x100000001b3);
    }
    b[8..16].copy_from_slice(&h.to_le_bytes());
    b[16..24].copy_from_slice(&(seed.wrapping_mul(0x9E3779B97F4A7C15)).to_le_bytes());
    b[24..32].copy_from_slice(&0x5851F42D4C957F2Du64.to_le_bytes());
    b
}

pub fn runner(seed: u64, id: &str) -> TestRunner {
    let cfg = Config { failure_persistence: None, rng_seed: RngSeed::Fixed(seed), ..Config::default() };
    let rng = TestRng::from_seed(RngAlgorithm::ChaCha, &rng_seed_bytes(seed, id));
    TestRunner::new_with_rng(cfg, rng)
}

pub fn fnv(s: &str) -> u64 {
    let mut h: u64 = 0xcbf29ce484222325;
    for c in s.bytes() {
        h = (h ^ c as u64).wrapping_mul(0x100000001b3);
    }
    h
}

static SCRATCH_COUNTER: AtomicUsize = AtomicUsize::new(0);

pub fn scratch_root(id: &str) -> PathBuf {
    let base = std::env::var("BGV_WORK").unwrap_or_else(|_| format!("{VERIF}/work"));
    Path::new(&base).join(format!("{}-{}", id, std::process::id()))
}

fn new_scratch(id: &str) -> PathBuf {
    let n = SCRATCH_COUNTER.fetch_add(1, Ordering::SeqCst);
    let d = scratch_root(id).join(format!("c{n}"));
    std::fs::create_dir_all(&d).expect("create scratch dir");
    d
}

fn eval_one<P: Property>(p: &P, case: &P::Case, tier: Tier, seed: u64, replay: bool) -> Outcome {
    let dir = new_scratch(p.id());
    let env = Env { dir: dir.clone(), tier, replay, seed };
    let r = std::panic::catch_unwind(std::panic::AssertUnwindSafe(|| p.evaluate(case, &env)));
    if !replay || std::env::var_os("BGV_KEEP").is_none() {
        let _ = std::fs::remove_dir_all(&dir);
    }
    match r {
        Ok(o) => o,
        Err(e) => {
            let msg = e
                .downcast_ref::<String>()
                .cloned()
                .or_else(|| e.downcast_ref::<&str>().map(|s| s.to_string()))
                .unwrap_or_else(|| "?".into());
            // A panic inside the harness itself is a harness bug, never a violation.
            Outcome::new().inconclusive(format!("harness panic: {msg}"))
        }
    }
}

pub struct RunReport {
    pub exit: i32,
}

fn sig_file_name(sig: &str) -> String {
    let clean: String = sig
        .chars()
        .map(|c| if c.is_ascii_alphanumeric() || c == '-' || c == '_' { c } else { '_' })
        .take(60)
        .collect();
    format!("{}-{:08x}.json", clean, fnv(sig) as u32)
}

fn write_replay<C: Serialize>(id: &str, sig: &str, msg: &str, case: &C, seed: u64) -> PathBuf {
    let dir = Path::new(VERIF).join("replays").join(id).join("found");
    std::fs::create_dir_all(&dir).ok();
    let path = dir.join(sig_file_name(sig));
    let doc = json!({ "property": id, "signature": sig, "detail": msg, "seed": seed, "case": case });
    std::fs::write(&path, serde_json::to_string_pretty(&doc).unwrap()).expect("write replay");
    path
}

pub fn load_replay<C: DeserializeOwned>(path: &Path) -> Result<C, String> {
    let text = std::fs::read_to_string(path).map_err(|e| format!("{}: {e}", path.display()))?;
    let v: Value = serde_json::from_str(&text).map_err(|e| format!("{}: {e}", path.display()))?;
    let case = v.get("case").cloned().unwrap_or(v);
    serde_json::from_value(case).map_err(|e| format!("{}: {e}", path.display()))
}

fn corpus_files(id: &str) -> Vec<PathBuf> {
    let dir = Path::new(VERIF).join("replays").join(id);
    let mut v: Vec<PathBuf> = std::fs::read_dir(&dir)
        .map(|rd| {
            rd.filter_map(|e| e.ok())
                .map(|e| e.path())
                .filter(|p| p.extension().map(|x| x == "json").unwrap_or(false))
                .collect()
        })
        .unwrap_or_default();
    v.sort();
    v
}

/// Shrink `tree` while the failure keeps signature `sig`.
fn shrink<P: Property>(
    p: &P,
    tree: &mut Box<dyn ValueTree<Value = P::Case>>,
    sig: &str,
    tier: Tier,
    seed: u64,
) -> (P::Case, String, usize) {
    let deadline = Instant::now() + Duration::from_secs(240);
    let mut best = tree.current();
    let mut best_msg = String::new();
    let mut steps = 0usize;
    let max = p.shrink_steps();
    if !tree.simplify() {
        return (best, best_msg, 0);
    }
    loop {
        if steps >= max || Instant::now() > deadline {
            break;
        }
        steps += 1;
        let cand = tree.current();
        let o = eval_one(p, &cand, tier, seed, false);
        let still = o.failures.iter().find(|f| f.sig == sig);
        if let Some(f) = still {
            best = cand;
            best_msg = f.msg.clone();
            if !tree.simplify() {
                break;
            }
        } else if !tree.complicate() {
            break;
        }
    }
    (best, best_msg, steps)
}

pub fn run_check<P: Property>(p: &P, tier: Tier) -> i32 {
    let t0 = Instant::now();
    let id = p.id();
    let seed = seed_from_env();
    let known = load_known(id);
    let known_set: BTreeSet<String> =
        known.iter().filter(|k| k.status == "known").map(|k| k.signature.clone()).collect();
    let _ = std::fs::remove_dir_all(scratch_root(id));
        let _ = std::fs::remove_dir_all(Path::new(VERIF).join("work").join(format!("workers-{}", std::process::id())));
    if let Err(e) = p.prepare(tier) {
        println!("INCONCLUSIVE property={id} prepare failed: {e}");
        return 2;
    }

    // ---- 1. replay tier: committed regression corpus -------------------------------------
    let mut violations: Vec<(String, String, PathBuf)> = vec![];
    let mut inconclusive: Vec<String> = vec![];
    let mut known_seen: BTreeMap<String, usize> = BTreeMap::new();
    let mut corpus_evals = 0usize;
    let corpus = corpus_files(id);
    let corpus_out: Vec<(PathBuf, Result<Outcome, String>)> = {
        let pool = rayon::ThreadPoolBuilder::new().num_threads(p.parallelism()).build().unwrap();
        pool.install(|| {
            corpus
                .par_iter()
                .map(|f| {
                    let r = load_replay::<P::Case>(f).map(|c| eval_one(p, &c, tier, seed, false));
                    (f.clone(), r)
                })
                .collect()
        })
    };
    let mut all_nontrivial: BTreeSet<u64> = BTreeSet::new();
    let mut classes: BTreeMap<String, usize> = BTreeMap::new();
    let mut samples: Vec<Value> = vec![];
    let mut evaluations = 0usize;
    let mut excluded_known = 0usize;
    for (f, r) in corpus_out {
        match r {
            Err(e) => inconclusive.push(format!("corpus file unreadable: {e}")),
            Ok(o) => {
                corpus_evals += 1;
                evaluations += o.evaluations;
                excluded_known += o.excluded_known;
                for k in &o.nontrivial {
                    all_nontrivial.insert(fnv(k));
                }
                for c in &o.classes {
                    *classes.entry(c.clone()).or_default() += 1;
                }
                if let Some(w) = o.inconclusive {
                    inconclusive.push(format!("{}: {w}", f.display()));
                }
                for fl in o.failures {
                    if known_set.contains(&fl.sig) {
                        *known_seen.entry(fl.sig).or_default() += 1;
                    } else if !violations.iter().any(|v| v.0 == fl.sig) {
                        violations.push((fl.sig, fl.msg, f.clone()));
                    }
                }
            }
        }
    }

    // ---- 2. fixed + generated cases ------------------------------------------------------
    let fixed = p.fixed_cases(tier);
    let n_fixed = fixed.len();
    let n_gen = p.generated(tier);
    let strat = p.strategy(tier);
    let mut run = runner(seed, id);
    let mut trees: Vec<Box<dyn ValueTree<Value = P::Case>>> = Vec::with_capacity(n_gen);
    let mut gen_rejects = 0usize;
    while trees.len() < n_gen {
        match strat.new_tree(&mut run) {
            Ok(t) => trees.push(t),
            Err(_) => {
                gen_rejects += 1;
                if gen_rejects > 10 * n_gen + 100 {
                    println!("INCONCLUSIVE property={id} generator rejects too much");
                    return 2;
                }
            }
        }
    }
    let mut cases: Vec<P::Case> = fixed;
    cases.extend(trees.iter().map(|t| t.current()));

    let done = AtomicUsize::new(0);
    let total = cases.len();
    let progress = std::env::var_os("BGV_PROGRESS").is_some();
    let pool = rayon::ThreadPoolBuilder::new().num_threads(p.parallelism()).build().unwrap();
    let outcomes: Vec<Outcome> = pool.install(|| {
        cases
            .par_iter()
            .map(|c| {
                let o = eval_one(p, c, tier, seed, false);
                let d = done.fetch_add(1, Ordering::Relaxed) + 1;
                if progress && d % 50 == 0 {
                    crate::note!("[{id}] {d}/{total}");
                }
                o
            })
            .collect()
    });

    // fold in index order (deterministic reporting)
    let mut first_fail: BTreeMap<String, (usize, String)> = BTreeMap::new();
    let mut n_inconclusive = 0usize;
    for (i, o) in outcomes.iter().enumerate() {
        evaluations += o.evaluations;
        excluded_known += o.excluded_known;
        for k in &o.nontrivial {
            all_nontrivial.insert(fnv(k));
        }
        for c in &o.classes {
            *classes.entry(c.clone()).or_default() += 1;
        }
        if let Some(w) = &o.inconclusive {
            n_inconclusive += 1;
            if inconclusive.len() < 20 {
                inconclusive.push(format!("case {i}: {w}"));
            }
        }
        if let Some(s) = &o.sample {
            let want = samples.len() < 6 && (!o.nontrivial.is_empty() || samples.len() < 2);
            if want {
                samples.push(s.clone());
            }
        }
        for f in &o.failures {
            if known_set.contains(&f.sig) {
                *known_seen.entry(f.sig.clone()).or_default() += 1;
            } else {
                first_fail.entry(f.sig.clone()).or_insert((i, f.msg.clone()));
            }
        }
    }
    if samples.is_empty() {
        if let Some(c) = cases.first() {
            samples.push(serde_json::to_value(c).unwrap_or(Value::Null));
        }
    }

    // ---- 3. shrink + replay files for unknown signatures ---------------------------------
    let mut by_index: Vec<(String, usize, String)> =
        first_fail.into_iter().map(|(s, (i, m))| (s, i, m)).collect();
    by_index.sort_by_key(|x| x.1);
    let n_new = by_index.len();
    for (k, (sig, idx, msg)) in by_index.into_iter().enumerate() {
        if violations.iter().any(|v| v.0 == sig) {
            continue;
        }
        if k >= p.max_shrunk_signatures() {
            // still report, but do not spend time shrinking
            let path = write_replay(id, &sig, &msg, &cases[idx], seed);
            violations.push((sig, msg, path));
            continue;
        }
        let (case, msg2, steps) = if idx >= n_fixed {
            let tree = &mut trees[idx - n_fixed];
            let (c, m, st) = shrink(p, tree, &sig, tier, seed);
            (c, if m.is_empty() { msg.clone() } else { m }, st)
        } else {
            (cases[idx].clone(), msg.clone(), 0)
        };
        let path = write_replay(id, &sig, &msg2, &case, seed);
        crate::note!("[{id}] signature {sig}: shrunk in {steps} steps -> {}", path.display());
        violations.push((sig, msg2, path));
    }

    // ---- 4. report ----------------------------------------------------------------------
    for k in known.iter().filter(|k| k.status == "known") {
        if known_seen.contains_key(&k.signature) {
            println!("KNOWN-FINDING: property={id} {} [{}]", k.what_fails, k.signature);
        } else {
            crate::note!(
                "[{id}] note: listed known finding {} did not reproduce in this run",
                k.signature
            );
        }
    }
    for (sig, msg, path) in &violations {
        println!("VIOLATION property={id} replay={}", path.display());
        println!("  signature: {sig}");
        let m: String = msg.chars().take(1500).collect();
        println!("  detail: {m}");
    }
    for w in &inconclusive {
        crate::note!("[{id}] inconclusive: {w}");
    }

    let wall = t0.elapsed().as_secs_f64();
    let mut coverage = serde_json::Map::new();
    coverage.insert("evaluations".into(), json!(evaluations));
    coverage.insert("distinct_nontrivial".into(), json!(all_nontrivial.len()));
    coverage.insert("rule".into(), json!(p.rule()));
    coverage.insert("samples".into(), Value::Array(samples));
    coverage.insert("cases_generated".into(), json!(n_gen));
    coverage.insert("cases_fixed".into(), json!(n_fixed));
    coverage.insert("corpus_replayed".into(), json!(corpus_evals));
    coverage.insert("generator_rejects".into(), json!(gen_rejects));
    coverage.insert("class_histogram".into(), json!(classes));
    coverage.insert("excluded_as_known_finding".into(), json!(excluded_known));
    coverage.insert("known_finding_hits".into(), json!(known_seen));
    coverage.insert("inconclusive_cases".into(), json!(n_inconclusive));
    coverage.insert("new_signatures".into(), json!(n_new));
    if p.exhaustive(tier) {
        coverage.insert("exhaustive".into(), json!(true));
    }
    for (k, v) in p.extra_coverage() {
        coverage.insert(k, v);
    }
    let ev = json!({
        "property_id": id,
        "tier": tier.name(),
        "seed": seed as i64,
        "level": p.level(),
        "coverage": Value::Object(coverage),
        "assumptions": p.assumptions(),
        "wall_s": wall,
        "violations": violations.len(),
    });
    let evdir = Path::new(VERIF).join("evidence");
    std::fs::create_dir_all(&evdir).ok();
    std::fs::write(evdir.join(format!("{id}.json")), serde_json::to_string_pretty(&ev).unwrap())
        .expect("write evidence");
    let _ = std::fs::remove_dir_all(scratch_root(id));
        let _ = std::fs::remove_dir_all(Path::new(VERIF).join("work").join(format!("workers-{}", std::process::id())));

    crate::note!(
        "[{id}] {} tier: {} evaluations, {} distinct non-trivial, {} violations, {} known hits, {:.1}s",
        tier.name(),
        evaluations,
        all_nontrivial.len(),
        violations.len(),
        known_seen.values().sum::<usize>(),
        wall
    );
    if !violations.is_empty() {
        return 1;
    }
    // too many undecided cases: the run does not support the claim
    if n_inconclusive * 4 > total.max(1) {
        println!("INCONCLUSIVE property={id}: {n_inconclusive} of {total} cases undecided");
        return 2;
    }
    0
}

pub fn run_replay<P: Property>(p: &P, path: &Path) -> i32 {
    let id = p.id();
    let case: P::Case = match load_replay(path) {
        Ok(c) => c,
        Err(e) => {
            crate::note!("cannot load replay: {e}");
            return 2;
        }
    };
    if let Err(e) = p.prepare(Tier::Quick) {
        println!("INCONCLUSIVE property={id} prepare failed: {e}");
        return 2;
    }
    let o = eval_one(p, &case, Tier::Quick, seed_from_env(), true);
    if let Some(w) = &o.inconclusive {
        println!("INCONCLUSIVE property={id}: {w}");
    }
    if std::env::var_os("BGV_KEEP").is_none() {
        let _ = std::fs::remove_dir_all(scratch_root(id));
        let _ = std::fs::remove_dir_all(Path::new(VERIF).join("work").join(format!("workers-{}", std::process::id())));
    } else {
        println!("scratch kept under {}", scratch_root(id).display());
    }
    if o.failures.is_empty() {
        if o.inconclusive.is_some() {
            return 2;
        }
        println!("replay: property={id} held on {}", path.display());
        return 0;
    }
    println!("VIOLATION property={id} replay={}", path.display());
    for f in &o.failures {
        println!("  signature: {}", f.sig);
        println!("  detail: {}", f.msg);
    }
    1
}
