//! C++ class-template generator: templates with 1..3 type parameters and plain classes whose
//! bases, members, typedefs and method signatures are (nested) instantiations mixing builtin
//! types, template parameters, earlier classes and pointers. Every program is valid C++ by
//! construction (only earlier, complete definitions are used by value).

use proptest::prelude::*;
use serde::{Deserialize, Serialize};

#[derive(Clone, Debug, Serialize, Deserialize, PartialEq, Eq)]
pub enum TTy {
    Int,
    Double,
    Bool,
    /// template parameter (index modulo the number of parameters in scope; `int` outside templates)
    Param(u8),
    /// an earlier definition, scaled; templates are instantiated with the arguments (padded with int)
    Use(u16, Vec<TTy>),
    Ptr(Box<TTy>),
    ConstRef(Box<TTy>),
}

#[derive(Clone, Debug, Serialize, Deserialize, PartialEq, Eq)]
pub struct TDef {
    /// 0 = plain class
    pub nparams: u8,
    pub bases: Vec<TTy>,
    pub fields: Vec<TTy>,
    pub typedefs: Vec<TTy>,
    pub methods: Vec<(TTy, Vec<TTy>)>,
    pub is_union: bool,
    pub has_virtual: bool,
}

#[derive(Clone, Debug, Serialize, Deserialize, PartialEq, Eq)]
pub struct TProg {
    pub defs: Vec<TDef>,
}

impl TProg {
    fn ty(&self, t: &TTy, at: usize, nparams: u8, by_value: bool) -> String {
        match t {
            TTy::Int => "int".into(),
            TTy::Double => "double".into(),
            TTy::Bool => "bool".into(),
            TTy::Param(k) => {
                if nparams == 0 {
                    "int".into()
                } else {
                    format!("P{}", k % nparams)
                }
            }
            TTy::Use(i, args) => {
                if at == 0 {
                    return "int".into();
                }
                let k = (*i as usize * at) >> 16;
                let d = &self.defs[k];
                // unions cannot be bases; by value everything earlier is complete
                let _ = by_value;
                if d.nparams == 0 {
                    format!("D{k}")
                } else {
                    let mut a: Vec<String> = args.iter().take(d.nparams as usize).map(|x| self.ty(x, at, nparams, true)).collect();
                    while a.len() < d.nparams as usize {
                        a.push("int".into());
                    }
                    format!("D{k}<{} >", a.join(", "))
                }
            }
            TTy::Ptr(inner) => format!("{}*", self.ty(inner, at, nparams, false)),
            TTy::ConstRef(inner) => format!("const {}&", self.ty(inner, at, nparams, false)),
        }
    }

    pub fn render(&self) -> String {
        let mut s = String::new();
        for (i, d) in self.defs.iter().enumerate() {
            if d.nparams > 0 {
                let ps: Vec<String> = (0..d.nparams).map(|k| format!("class P{k}")).collect();
                s.push_str(&format!("template <{}> ", ps.join(", ")));
            }
            s.push_str(if d.is_union { "union" } else { "struct" });
            s.push_str(&format!(" D{i}"));
            if !d.is_union {
                let mut seen: Vec<String> = vec![];
                for b in &d.bases {
                    // bases are class types: earlier non-union definitions only
                    if let TTy::Use(j, _) = b {
                        if i == 0 {
                            continue;
                        }
                        let k = (*j as usize * i) >> 16;
                        if self.defs[k].is_union {
                            continue;
                        }
                        let t = self.ty(b, i, d.nparams, true);
                        if !seen.contains(&t) {
                            seen.push(t);
                        }
                    }
                }
                for (k, b) in seen.iter().enumerate() {
                    s.push_str(if k == 0 { " : " } else { ", " });
                    s.push_str(b);
                }
            }
            s.push_str(" {\n");
            if d.has_virtual && !d.is_union {
                s.push_str(&format!("  virtual void vm{i}();\n"));
            }
            for (k, t) in d.typedefs.iter().enumerate() {
                s.push_str(&format!("  typedef {} td{i}_{k};\n", self.ty(t, i, d.nparams, true)));
            }
            for (k, f) in d.fields.iter().enumerate() {
                // references cannot be union members; keep members assignable
                let f = match f {
                    TTy::ConstRef(inner) => TTy::Ptr(inner.clone()),
                    other => other.clone(),
                };
                // a union member with a non-trivial special member is ill-formed only when used: avoid virtuals by value
                s.push_str(&format!("  {} f{i}_{k};\n", self.ty(&f, i, d.nparams, true)));
            }
            for (k, (ret, params)) in d.methods.iter().enumerate() {
                let ps: Vec<String> = params.iter().map(|p| self.ty(p, i, d.nparams, true)).collect();
                s.push_str(&format!("  {} m{i}_{k}({});\n", self.ty(ret, i, d.nparams, true), ps.join(", ")));
            }
            s.push_str("};\n");
        }
        // force some instantiations with concrete arguments
        let n = self.defs.len();
        s.push_str("struct Uses {\n");
        for (i, d) in self.defs.iter().enumerate() {
            if d.nparams == 0 {
                s.push_str(&format!("  D{i} u{i};\n"));
            } else {
                let args: Vec<&str> = (0..d.nparams).map(|k| ["int", "double", "bool"][(i + k as usize) % 3]).collect();
                s.push_str(&format!("  D{i}<{} > u{i};\n", args.join(", ")));
            }
        }
        let _ = n;
        s.push_str("};\n");
        s
    }
}

pub fn tprog_strategy() -> BoxedStrategy<TProg> {
    let leaf = prop_oneof![3 => Just(TTy::Int), 1 => Just(TTy::Double), 1 => Just(TTy::Bool), 5 => (0u8..3).prop_map(TTy::Param)];
    let ty = leaf.prop_recursive(3, 12, 3, |inner| {
        prop_oneof![
            5 => (any::<u16>(), proptest::collection::vec(inner.clone(), 0..4)).prop_map(|(i, a)| TTy::Use(i, a)),
            1 => inner.clone().prop_map(|t| TTy::Ptr(Box::new(t))),
            1 => inner.prop_map(|t| TTy::ConstRef(Box::new(t))),
        ]
    });
    let def = (
        prop_oneof![1 => Just(0u8), 3 => 1u8..=3],
        proptest::collection::vec(ty.clone(), 0..3),
        proptest::collection::vec(ty.clone(), 0..4),
        proptest::collection::vec(ty.clone(), 0..3),
        proptest::collection::vec((ty.clone(), proptest::collection::vec(ty, 0..3)), 0..2),
        proptest::bool::weighted(0.1),
        proptest::bool::weighted(0.2),
    )
        .prop_map(|(nparams, bases, fields, typedefs, methods, is_union, has_virtual)| TDef { nparams, bases, fields, typedefs, methods, is_union, has_virtual });
    proptest::collection::vec(def, 2..8).prop_map(|defs| TProg { defs }).boxed()
}
