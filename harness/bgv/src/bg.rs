//! In-process bindgen invocation from a serialisable description.

use serde::{Deserialize, Serialize};
use std::cell::RefCell;
use std::path::Path;
use std::rc::Rc;
use std::sync::{Arc, Mutex};

/// A complete, replayable bindgen invocation.
#[derive(Clone, Debug, Serialize, Deserialize, Default, PartialEq, Eq, Hash)]
pub struct BgInput {
    /// files to materialise under the scratch directory: (relative path, contents)
    pub files: Vec<(String, String)>,
    /// input headers (relative to scratch dir unless absolute); last one is positional
    pub headers: Vec<String>,
    /// bindgen flags (without header and without `--`); `{DIR}` is replaced by the scratch dir
    pub flags: Vec<String>,
    /// arguments after `--`
    pub clang_args: Vec<String>,
    /// names of harness-side ParseCallbacks to install (see `install_callback`)
    #[serde(default)]
    pub callbacks: Vec<String>,
}

#[derive(Clone, Debug, PartialEq, Eq)]
pub enum BgResult {
    Ok(String),
    Err(String),
    Panic(String),
}

impl BgResult {
    pub fn ok(&self) -> Option<&str> {
        match self {
            BgResult::Ok(s) => Some(s),
            _ => None,
        }
    }
    pub fn describe(&self) -> String {
        match self {
            BgResult::Ok(s) => format!("Ok({} bytes)", s.len()),
            BgResult::Err(e) => format!("Err({e})"),
            BgResult::Panic(p) => format!("Panic({p})"),
        }
    }
}

thread_local! {
    static LAST_PANIC: RefCell<Option<String>> = const { RefCell::new(None) };
}

/// Install a panic hook that records the panic location in a thread-local instead of
/// printing. Call once at start-up.
pub fn install_quiet_panic_hook() {
    std::panic::set_hook(Box::new(|info| {
        let loc = info.location().map(|l| format!("{}:{}", l.file(), l.line())).unwrap_or_default();
        let msg = info
            .payload()
            .downcast_ref::<String>()
            .cloned()
            .or_else(|| info.payload().downcast_ref::<&str>().map(|s| s.to_string()))
            .unwrap_or_else(|| "<non-string panic>".into());
        let text = format!("{loc}: {msg}");
        if std::env::var_os("BGV_SHOW_PANICS").is_some() {
            eprintln!("panic: {text}");
        }
        LAST_PANIC.with(|p| *p.borrow_mut() = Some(text));
    }));
}

pub fn take_last_panic() -> Option<String> {
    LAST_PANIC.with(|p| p.borrow_mut().take())
}

pub fn write_files(dir: &Path, files: &[(String, String)]) {
    for (rel, text) in files {
        let p = dir.join(rel);
        if let Some(parent) = p.parent() {
            std::fs::create_dir_all(parent).ok();
        }
        std::fs::write(&p, text).expect("write case file");
    }
}

pub fn subst(dir: &Path, s: &str) -> String {
    s.replace("{DIR}", dir.to_str().unwrap())
}

pub fn full_args(input: &BgInput, dir: &Path) -> Vec<String> {
    let mut args: Vec<String> = vec!["bindgen".into()];
    args.extend(input.flags.iter().map(|f| subst(dir, f)));
    // all but the last header are passed the way the CLI documents: `-include` after `--`
    let n = input.headers.len();
    let abs = |h: &String| {
        if Path::new(h).is_absolute() {
            h.clone()
        } else {
            dir.join(h).to_str().unwrap().to_string()
        }
    };
    if n > 0 {
        args.push(abs(&input.headers[n - 1]));
    }
    args.push("--".into());
    for h in &input.headers[..n.saturating_sub(1)] {
        args.push("-include".into());
        args.push(abs(h));
    }
    args.extend(input.clang_args.iter().map(|f| subst(dir, f)));
    args
}

/// Build a `bindgen::Builder` for the input. clap exits the process on malformed flags,
/// so only call this with flags produced by a sound generator (or inside a worker).
pub fn builder_for(input: &BgInput, dir: &Path) -> Result<bindgen::Builder, String> {
    write_files(dir, &input.files);
    let args = full_args(input, dir);
    let (mut b, _out, _verbose) =
        bindgen::builder_from_flags(args.into_iter()).map_err(|e| format!("flags: {e}"))?;
    for cb in &input.callbacks {
        b = install_callback(b, cb)?;
    }
    Ok(b)
}

pub fn generate_with(b: bindgen::Builder) -> BgResult {
    take_last_panic();
    let r = std::panic::catch_unwind(std::panic::AssertUnwindSafe(|| {
        b.generate().map(|bindings| bindings.to_string())
    }));
    match r {
        Ok(Ok(s)) => BgResult::Ok(s),
        Ok(Err(e)) => BgResult::Err(format!("{e:?}")),
        Err(_) => BgResult::Panic(take_last_panic().unwrap_or_else(|| "?".into())),
    }
}

pub fn generate(input: &BgInput, dir: &Path) -> BgResult {
    match builder_for(input, dir) {
        Ok(b) => generate_with(b),
        Err(e) => BgResult::Err(e),
    }
}

// ---------------------------------------------------------------------------------------------
// Harness-side callbacks, addressed by name so that cases stay serialisable.

#[derive(Debug)]
struct Renamer {
    mode: &'static str,
    /// keyword renames are handed out once each, so that the callback stays injective
    used: Mutex<std::collections::BTreeMap<String, String>>,
}

impl Renamer {
    fn rename(&self, mode: &str, name: &str) -> Option<String> {
        if mode != "keyword" {
            return rename(mode, name);
        }
        let kw = rename(mode, name)?;
        let mut used = self.used.lock().unwrap();
        match used.get(&kw) {
            Some(owner) if owner == name => Some(kw),
            Some(_) => None,
            None => {
                used.insert(kw.clone(), name.to_string());
                Some(kw)
            }
        }
    }
}

fn rename(mode: &str, name: &str) -> Option<String> {
    match mode {
        "prefix" => Some(format!("bgv_{name}")),
        "suffix" => Some(format!("{name}_bgv")),
        // maps some names onto Rust keywords / awkward identifiers
        "keyword" => {
            let kws = ["type", "match", "fn", "gen", "try", "dyn", "Self", "crate", "async", "loop"];
            let h = crate::engine::fnv(name) as usize;
            if h % 3 == 0 {
                Some(kws[(h / 3) % kws.len()].to_string())
            } else {
                None
            }
        }
        _ => None,
    }
}

impl bindgen::callbacks::ParseCallbacks for Renamer {
    fn item_name(&self, info: bindgen::callbacks::ItemInfo) -> Option<String> {
        // modules keep their names (the root module is referred to as `root` by bindgen itself)
        if matches!(info.kind, bindgen::callbacks::ItemKind::Module) {
            return None;
        }
        if self.mode.starts_with("item:") {
            self.rename(&self.mode[5..], info.name)
        } else {
            None
        }
    }
    fn field_name(&self, info: bindgen::callbacks::FieldInfo<'_>) -> Option<String> {
        if self.mode.starts_with("field:") {
            // per-struct scope: key the keyword hand-out by (type, field)
            if &self.mode[6..] == "keyword" {
                // one owner per (type, keyword): two fields of a struct never get the same name
                let kw = rename("keyword", info.field_name)?;
                let slot = format!("{}::{kw}", info.type_name);
                let mut used = self.used.lock().unwrap();
                return match used.get(&slot) {
                    Some(owner) if owner == info.field_name => Some(kw),
                    Some(_) => None,
                    None => {
                        used.insert(slot, info.field_name.to_string());
                        Some(kw)
                    }
                };
            }
            rename(&self.mode[6..], info.field_name)
        } else {
            None
        }
    }
    fn enum_variant_name(
        &self,
        _enum_name: Option<&str>,
        original: &str,
        _v: bindgen::callbacks::EnumVariantValue,
    ) -> Option<String> {
        if self.mode.starts_with("variant:") {
            self.rename(&self.mode[8..], original)
        } else {
            None
        }
    }
    fn generated_name_override(&self, info: bindgen::callbacks::ItemInfo<'_>) -> Option<String> {
        if self.mode.starts_with("fnvar:") {
            self.rename(&self.mode[6..], info.name)
        } else {
            None
        }
    }
}

/// Records header_file / include_file / read_env_var notifications.
#[derive(Debug, Clone, Default)]
pub struct Recorder {
    pub log: Arc<Mutex<Vec<String>>>,
}

impl bindgen::callbacks::ParseCallbacks for Recorder {
    fn header_file(&self, filename: &str) {
        self.log.lock().unwrap().push(format!("header_file {filename}"));
    }
    fn include_file(&self, filename: &str) {
        self.log.lock().unwrap().push(format!("include_file {filename}"));
    }
    fn read_env_var(&self, key: &str) {
        self.log.lock().unwrap().push(format!("read_env_var {key}"));
    }
}

pub fn install_callback(b: bindgen::Builder, name: &str) -> Result<bindgen::Builder, String> {
    const MODES: &[&str] = &[
        "item:prefix",
        "item:suffix",
        "item:keyword",
        "field:prefix",
        "field:suffix",
        "field:keyword",
        "variant:prefix",
        "variant:suffix",
        "variant:keyword",
        "fnvar:prefix",
        "fnvar:suffix",
    ];
    if let Some(m) = MODES.iter().find(|m| **m == name) {
        return Ok(b.parse_callbacks(Box::new(Renamer { mode: m, used: Mutex::new(Default::default()) })));
    }
    Err(format!("unknown callback {name}"))
}

#[allow(dead_code)]
fn _assert_rc_unused(_: Rc<()>) {}
