//! G-C: a typed model of C declarations, its proptest strategies and its renderer.
//! The model never computes sizes or offsets: those always come from clang.

use proptest::prelude::*;
use serde::{Deserialize, Serialize};
use std::collections::BTreeSet;

#[derive(Clone, Copy, Debug, Serialize, Deserialize, PartialEq, Eq, Hash, PartialOrd, Ord)]
pub enum Prim {
    Bool,
    Char,
    SChar,
    UChar,
    Short,
    UShort,
    Int,
    UInt,
    Long,
    ULong,
    LongLong,
    ULongLong,
    Float,
    Double,
    LongDouble,
    Int128,
    UInt128,
    WChar,
    SizeT,
}

impl Prim {
    pub fn c(self) -> &'static str {
        match self {
            Prim::Bool => "_Bool",
            Prim::Char => "char",
            Prim::SChar => "signed char",
            Prim::UChar => "unsigned char",
            Prim::Short => "short",
            Prim::UShort => "unsigned short",
            Prim::Int => "int",
            Prim::UInt => "unsigned int",
            Prim::Long => "long",
            Prim::ULong => "unsigned long",
            Prim::LongLong => "long long",
            Prim::ULongLong => "unsigned long long",
            Prim::Float => "float",
            Prim::Double => "double",
            Prim::LongDouble => "long double",
            Prim::Int128 => "__int128",
            Prim::UInt128 => "unsigned __int128",
            Prim::WChar => "__WCHAR_TYPE__",
            Prim::SizeT => "__SIZE_TYPE__",
        }
    }
    pub fn is_integer(self) -> bool {
        !matches!(self, Prim::Float | Prim::Double | Prim::LongDouble)
    }
    pub fn is_float(self) -> bool {
        !self.is_integer()
    }
    /// usable as a bit-field base type
    pub fn bitfield_base(self) -> bool {
        self.is_integer() && !matches!(self, Prim::Int128 | Prim::UInt128 | Prim::WChar | Prim::SizeT)
    }
    /// width in bits on LP64 (used only to bound generated bit-field widths)
    pub fn bits_lp64(self) -> u32 {
        match self {
            Prim::Bool | Prim::Char | Prim::SChar | Prim::UChar => 8,
            Prim::Short | Prim::UShort => 16,
            Prim::Int | Prim::UInt | Prim::Float | Prim::WChar => 32,
            Prim::Long | Prim::ULong | Prim::LongLong | Prim::ULongLong | Prim::Double | Prim::SizeT => 64,
            Prim::LongDouble | Prim::Int128 | Prim::UInt128 => 128,
        }
    }
    pub const COMMON: &'static [Prim] = &[
        Prim::Bool, Prim::Char, Prim::SChar, Prim::UChar, Prim::Short, Prim::UShort, Prim::Int, Prim::UInt, Prim::Long, Prim::ULong, Prim::LongLong, Prim::ULongLong, Prim::Float, Prim::Double,
    ];
    pub const EXOTIC: &'static [Prim] = &[Prim::LongDouble, Prim::Int128, Prim::UInt128, Prim::WChar, Prim::SizeT];
}

#[derive(Clone, Debug, Serialize, Deserialize, PartialEq, Eq, Hash)]
pub enum ArrLen {
    Fixed(u32),
    /// `[0]` (GNU)
    Zero,
    /// `[]` flexible array member (last member only)
    Flexible,
}

#[derive(Clone, Debug, Serialize, Deserialize, PartialEq, Eq, Hash)]
pub enum Ty {
    Void,
    Prim(Prim),
    Ptr { to: Box<Ty>, is_const: bool },
    FnPtr { ret: Box<Ty>, params: Vec<Ty>, variadic: bool },
    Array { of: Box<Ty>, dims: Vec<ArrLen> },
    /// reference to an earlier type declaration (comp, enum or typedef) by index in `Program::decls`
    Named(usize),
}

#[derive(Clone, Debug, Serialize, Deserialize, PartialEq, Eq, Hash)]
pub enum FieldTy {
    Ty(Ty),
    /// struct/union defined inline; `tag == None` and field name empty = C11 anonymous member
    Inline(Box<Comp>),
}

#[derive(Clone, Debug, Serialize, Deserialize, PartialEq, Eq, Hash)]
pub struct Field {
    /// empty = unnamed (anonymous struct/union member, or padding bit-field)
    pub name: String,
    pub ty: FieldTy,
    /// bit-field width; Some(0) = zero-width separator
    pub bits: Option<u8>,
    pub align: Option<u32>,
}

#[derive(Clone, Debug, Serialize, Deserialize, PartialEq, Eq, Hash)]
pub struct Comp {
    pub is_union: bool,
    pub tag: Option<String>,
    pub fields: Vec<Field>,
    pub packed: bool,
    pub aligned: Option<u32>,
    /// `#pragma pack(push, N)` around the definition (top-level comps only)
    pub pragma_pack: Option<u8>,
    /// `typedef struct { .. } Name;` (tag is None, name is the typedef)
    pub typedef_name: Option<String>,
}

#[derive(Clone, Debug, Serialize, Deserialize, PartialEq, Eq, Hash)]
pub struct EnumDecl {
    pub tag: Option<String>,
    /// (name, explicit value)
    pub variants: Vec<(String, Option<i128>)>,
    /// fixed underlying type (`enum E : T`), C++/C23 syntax accepted by clang 14 in C as extension
    pub underlying: Option<Prim>,
    pub typedef_name: Option<String>,
}

#[derive(Clone, Debug, Serialize, Deserialize, PartialEq, Eq, Hash)]
pub struct FuncDecl {
    pub name: String,
    pub ret: Ty,
    pub params: Vec<(String, Ty)>,
    pub variadic: bool,
    pub is_static_inline: bool,
}

#[derive(Clone, Debug, Serialize, Deserialize, PartialEq, Eq, Hash)]
pub enum Decl {
    Comp(Comp),
    Enum(EnumDecl),
    Typedef {
        name: String,
        ty: Ty,
        /// `typedef T name __attribute__((aligned(N)))` (scalars and pointers only)
        #[serde(default)]
        aligned: Option<u32>,
    },
    Func(FuncDecl),
    Var {
        name: String,
        ty: Ty,
        is_const: bool,
        /// `static const T name = (T)init;` — only for const variables of (typedef'd) arithmetic type
        #[serde(default)]
        init: Option<i32>,
    },
    Macro { name: String, body: String },
    /// `struct Tag;` forward declaration that is never completed
    Opaque { tag: String },
}

#[derive(Clone, Debug, Serialize, Deserialize, PartialEq, Eq, Hash)]
pub struct Program {
    pub decls: Vec<Decl>,
}

pub const RUST_KEYWORDS: &[&str] = &[
    "type", "match", "fn", "self", "Self", "crate", "super", "loop", "mod", "in", "impl", "trait", "use", "pub", "ref", "mut", "move", "box", "dyn", "async", "await", "try", "gen", "yield", "abstract", "become", "final", "macro", "override", "priv", "typeof", "unsized", "virtual", "where", "as", "let", "unsafe",
];

impl Decl {
    /// the C name with which later declarations mention this type
    pub fn c_use(&self) -> Option<String> {
        match self {
            Decl::Comp(c) => Some(c.c_use()),
            Decl::Enum(e) => Some(match (&e.typedef_name, &e.tag) {
                (Some(t), _) => t.clone(),
                (None, Some(tag)) => format!("enum {tag}"),
                _ => "int".into(),
            }),
            Decl::Typedef { name, .. } => Some(name.clone()),
            Decl::Opaque { tag } => Some(format!("struct {tag}")),
            _ => None,
        }
    }
    /// name bindgen gives the item (without --c-naming)
    pub fn rust_name(&self) -> Option<String> {
        match self {
            // `typedef struct Tag {..} Name;` is a struct `Tag` plus an alias `Name`
            Decl::Comp(c) => c.tag.clone().or(c.typedef_name.clone()),
            Decl::Enum(e) => e.tag.clone().or(e.typedef_name.clone()),
            Decl::Typedef { name, .. } => Some(name.clone()),
            Decl::Func(f) => Some(f.name.clone()),
            Decl::Var { name, .. } => Some(name.clone()),
            Decl::Macro { name, .. } => Some(name.clone()),
            Decl::Opaque { tag } => Some(tag.clone()),
        }
    }
    pub fn is_type(&self) -> bool {
        matches!(self, Decl::Comp(_) | Decl::Enum(_) | Decl::Typedef { .. } | Decl::Opaque { .. })
    }
    pub fn is_complete_type(&self) -> bool {
        matches!(self, Decl::Comp(_) | Decl::Enum(_) | Decl::Typedef { .. })
    }
}

impl Comp {
    pub fn c_use(&self) -> String {
        match (&self.typedef_name, &self.tag) {
            (Some(t), _) => t.clone(),
            (None, Some(tag)) => format!("{} {tag}", if self.is_union { "union" } else { "struct" }),
            _ => "int".into(),
        }
    }
    pub fn has_bitfields(&self) -> bool {
        self.fields.iter().any(|f| f.bits.is_some())
    }
    pub fn has_flexible(&self) -> bool {
        self.fields.iter().any(|f| matches!(&f.ty, FieldTy::Ty(Ty::Array { dims, .. }) if dims.contains(&ArrLen::Flexible)))
    }
}

impl Ty {
    pub fn named_refs(&self, out: &mut BTreeSet<usize>, by_value_only: bool) {
        match self {
            Ty::Named(i) => {
                out.insert(*i);
            }
            Ty::Ptr { to, .. } => {
                if !by_value_only {
                    to.named_refs(out, by_value_only)
                }
            }
            Ty::FnPtr { ret, params, .. } => {
                if !by_value_only {
                    ret.named_refs(out, false);
                    for p in params {
                        p.named_refs(out, false);
                    }
                }
            }
            Ty::Array { of, .. } => of.named_refs(out, by_value_only),
            _ => {}
        }
    }
    pub fn is_void(&self) -> bool {
        matches!(self, Ty::Void)
    }
}

// ---------------------------------------------------------------------------------------------
// rendering

/// C declarator: `int (*name[3])(void)` etc.
pub fn declare(p: &Program, ty: &Ty, name: &str) -> String {
    fn go(p: &Program, ty: &Ty, inner: String) -> String {
        match ty {
            Ty::Void => format!("void {inner}").trim_end().to_string(),
            Ty::Prim(pr) => format!("{} {inner}", pr.c()).trim_end().to_string(),
            Ty::Named(i) => format!("{} {inner}", p.decls.get(*i).and_then(|d| d.c_use()).unwrap_or_else(|| "int".into())).trim_end().to_string(),
            Ty::Ptr { to, is_const } => {
                let inner2 = format!("*{inner}");
                match &**to {
                    Ty::Array { .. } | Ty::FnPtr { .. } => go(p, to, format!("({inner2})")),
                    Ty::Ptr { .. } => go(p, to, inner2),
                    _ => {
                        // const applies to a non-pointer pointee only (see normalise)
                        let c = if *is_const { "const " } else { "" };
                        format!("{c}{}", go(p, to, inner2))
                    }
                }
            }
            Ty::FnPtr { ret, params, variadic } => {
                let mut ps: Vec<String> = params.iter().map(|t| go(p, t, String::new())).collect();
                if *variadic && !ps.is_empty() {
                    ps.push("...".into());
                }
                if ps.is_empty() {
                    ps.push("void".into());
                }
                go(p, ret, format!("(*{inner})({})", ps.join(", ")))
            }
            Ty::Array { of, dims } => {
                let mut d = String::new();
                for l in dims {
                    match l {
                        ArrLen::Fixed(n) => d.push_str(&format!("[{n}]")),
                        ArrLen::Zero => d.push_str("[0]"),
                        ArrLen::Flexible => d.push_str("[]"),
                    }
                }
                go(p, of, format!("{inner}{d}"))
            }
        }
    }
    go(p, ty, name.to_string())
}

fn comp_body(p: &Program, c: &Comp, indent: usize) -> String {
    let ind = "  ".repeat(indent);
    let mut s = String::from("{\n");
    for f in &c.fields {
        s.push_str(&ind);
        s.push_str("  ");
        match &f.ty {
            FieldTy::Ty(t) => {
                let mut d = declare(p, t, &f.name);
                if let Some(b) = f.bits {
                    d = format!("{d} : {b}");
                }
                if let Some(a) = f.align {
                    d = format!("{d} __attribute__((aligned({a})))");
                }
                s.push_str(&d);
            }
            FieldTy::Inline(ic) => {
                s.push_str(if ic.is_union { "union " } else { "struct " });
                if let Some(t) = &ic.tag {
                    s.push_str(t);
                    s.push(' ');
                }
                s.push_str(&comp_attrs_pre(ic));
                s.push_str(&comp_body(p, ic, indent + 1));
                s.push_str(&comp_attrs_post(ic));
                if !f.name.is_empty() {
                    s.push(' ');
                    s.push_str(&f.name);
                }
            }
        }
        s.push_str(";\n");
    }
    s.push_str(&ind);
    s.push('}');
    s
}

fn comp_attrs_pre(_c: &Comp) -> String {
    String::new()
}

fn comp_attrs_post(c: &Comp) -> String {
    let mut a = vec![];
    if c.packed {
        a.push("packed".to_string());
    }
    if let Some(n) = c.aligned {
        a.push(format!("aligned({n})"));
    }
    if a.is_empty() {
        String::new()
    } else {
        format!(" __attribute__(({}))", a.join(", "))
    }
}

pub fn render_decl(p: &Program, d: &Decl) -> String {
    match d {
        Decl::Comp(c) => {
            let mut s = String::new();
            if let Some(n) = c.pragma_pack {
                s.push_str(&format!("#pragma pack(push, {n})\n"));
            }
            let kw = if c.is_union { "union" } else { "struct" };
            if c.typedef_name.is_some() {
                s.push_str("typedef ");
            }
            s.push_str(kw);
            if let Some(t) = &c.tag {
                s.push(' ');
                s.push_str(t);
            }
            s.push(' ');
            s.push_str(&comp_body(p, c, 0));
            s.push_str(&comp_attrs_post(c));
            if let Some(t) = &c.typedef_name {
                s.push(' ');
                s.push_str(t);
            }
            s.push_str(";\n");
            if c.pragma_pack.is_some() {
                s.push_str("#pragma pack(pop)\n");
            }
            s
        }
        Decl::Enum(e) => {
            let mut s = String::new();
            if e.typedef_name.is_some() {
                s.push_str("typedef ");
            }
            s.push_str("enum");
            if let Some(t) = &e.tag {
                s.push(' ');
                s.push_str(t);
            }
            if let Some(u) = e.underlying {
                s.push_str(&format!(" : {}", u.c()));
            }
            s.push_str(" {\n");
            for (n, v) in &e.variants {
                match v {
                    Some(v) => {
                        let lit = if *v > i64::MAX as i128 { format!("{v}ULL") } else if *v < i32::MIN as i128 || *v > i32::MAX as i128 { format!("{v}LL") } else { format!("{v}") };
                        // INT64_MIN cannot be written as a literal
                        let lit = if *v == i64::MIN as i128 { "(-9223372036854775807LL-1)".to_string() } else { lit };
                        s.push_str(&format!("  {n} = {lit},\n"));
                    }
                    None => s.push_str(&format!("  {n},\n")),
                }
            }
            s.push('}');
            if let Some(t) = &e.typedef_name {
                s.push(' ');
                s.push_str(t);
            }
            s.push_str(";\n");
            s
        }
        Decl::Typedef { name, ty, aligned } => match aligned {
            Some(a) => format!("typedef {} __attribute__((aligned({a})));\n", declare(p, ty, name)),
            None => format!("typedef {};\n", declare(p, ty, name)),
        },
        Decl::Func(f) => {
            let mut ps: Vec<String> = f.params.iter().map(|(n, t)| declare(p, t, n)).collect();
            if f.variadic && !ps.is_empty() {
                ps.push("...".into());
            }
            if ps.is_empty() {
                ps.push("void".into());
            }
            let head = declare(p, &f.ret, &format!("{}({})", f.name, ps.join(", ")));
            if f.is_static_inline {
                format!("static inline {head};\n")
            } else {
                format!("{head};\n")
            }
        }
        Decl::Var { name, ty, is_const, init } => match (init, is_const, p.arithmetic(ty)) {
            (Some(v), true, true) => format!("static const {} = {v};\n", declare(p, ty, name)),
            _ => format!("extern {}{};\n", if *is_const { "const " } else { "" }, declare(p, ty, name)),
        },
        Decl::Macro { name, body } => format!("#define {name} {body}\n"),
        Decl::Opaque { tag } => format!("struct {tag};\n"),
    }
}

impl Program {
    /// a (typedef of a) non-void arithmetic scalar
    pub fn arithmetic(&self, t: &Ty) -> bool {
        match t {
            Ty::Prim(_) => true,
            Ty::Named(k) => match &self.decls[*k] {
                Decl::Typedef { ty, .. } => self.arithmetic(ty),
                _ => false,
            },
            _ => false,
        }
    }

    pub fn render(&self) -> String {
        let mut s = String::new();
        for d in &self.decls {
            s.push_str(&render_decl(self, d));
        }
        s
    }

    /// Fix up references so that the program is valid C by construction:
    /// * `Named(i)` must point to an earlier type declaration; by-value uses need a complete
    ///   type (otherwise the use degrades to `int`);
    /// * flexible arrays only as the last member of a top-level struct with another member;
    /// * bit-fields only on integer base types, width within the type;
    /// * names unique.
    pub fn normalise(&mut self) {
        let n = self.decls.len();
        for i in 0..n {
            let (before, rest) = self.decls.split_at_mut(i);
            let d = &mut rest[0];
            let complete = |k: usize| k < i && before[k].is_complete_type();
            let any_type = |k: usize| k < i && before[k].is_type();
            // a type that (transitively by value) contains a flexible array cannot be a member/array element
            let has_flex = |k: usize| -> bool { matches!(&before[k], Decl::Comp(c) if c.has_flexible()) };
            fn fix_ty(t: &mut Ty, by_value: bool, complete: &dyn Fn(usize) -> bool, any_type: &dyn Fn(usize) -> bool, has_flex: &dyn Fn(usize) -> bool) {
                match t {
                    Ty::Named(k) => {
                        let ok = if by_value { complete(*k) && !has_flex(*k) } else { any_type(*k) };
                        if !ok {
                            *t = Ty::Prim(Prim::Int);
                        }
                    }
                    Ty::Ptr { to, is_const } => {
                        fix_ty(to, false, complete, any_type, has_flex);
                        if matches!(**to, Ty::Ptr { .. } | Ty::Array { .. } | Ty::FnPtr { .. }) {
                            *is_const = false;
                        }
                    }
                    Ty::FnPtr { ret, params, .. } => {
                        // by-value aggregates in signatures need complete types
                        fix_ty(ret, true, complete, any_type, has_flex);
                        if matches!(**ret, Ty::Array { .. }) {
                            **ret = Ty::Prim(Prim::Int);
                        }
                        for p in params.iter_mut() {
                            fix_ty(p, true, complete, any_type, has_flex);
                            if p.is_void() {
                                *p = Ty::Prim(Prim::Int);
                            }
                        }
                    }
                    Ty::Array { of, dims } => {
                        fix_ty(of, true, complete, any_type, has_flex);
                        if of.is_void() || matches!(**of, Ty::Array { .. }) {
                            **of = Ty::Prim(Prim::Char);
                        }
                        if dims.is_empty() {
                            dims.push(ArrLen::Fixed(1));
                        }
                        // only the first dimension may be zero/flexible
                        for (k, dlen) in dims.iter_mut().enumerate() {
                            if k > 0 && !matches!(dlen, ArrLen::Fixed(_)) {
                                *dlen = ArrLen::Fixed(2);
                            }
                            if let ArrLen::Fixed(0) = dlen {
                                *dlen = ArrLen::Fixed(1);
                            }
                        }
                    }
                    _ => {}
                }
            }
            fn fix_comp(c: &mut Comp, top: bool, complete: &dyn Fn(usize) -> bool, any_type: &dyn Fn(usize) -> bool, has_flex: &dyn Fn(usize) -> bool, before: &[Decl]) {
                let nfields = c.fields.len();
                // a flexible array needs another *named* member in front of it
                let named_before_last = c.fields.iter().take(nfields.saturating_sub(1)).any(|f| !f.name.is_empty());
                for (fi, f) in c.fields.iter_mut().enumerate() {
                    match &mut f.ty {
                        FieldTy::Ty(t) => {
                            fix_ty(t, true, complete, any_type, has_flex);
                            if t.is_void() {
                                *t = Ty::Prim(Prim::Int);
                            }
                            // flexible array: last member of a top-level struct that has another member
                            if let Ty::Array { dims, .. } = t {
                                let last = fi + 1 == nfields;
                                if dims[0] == ArrLen::Flexible && !(top && last && nfields > 1 && named_before_last && !c.is_union) {
                                    dims[0] = ArrLen::Fixed(2);
                                }
                            }
                            if let Some(b) = f.bits {
                                // base type must be an integer (through typedefs/enums we do not look)
                                let base_bits = match t {
                                    Ty::Prim(p) if p.bitfield_base() => Some(p.bits_lp64()),
                                    Ty::Named(k) => match &before[*k] {
                                        Decl::Enum(e) if e.underlying.is_none() => Some(32),
                                        _ => None,
                                    },
                                    _ => None,
                                };
                                match base_bits {
                                    None => f.bits = None,
                                    Some(w) => {
                                        let w = if matches!(t, Ty::Prim(Prim::Bool)) { 1 } else { w };
                                        let mut b = (b as u32).min(w);
                                        if f.name.is_empty() {
                                            // unnamed: padding (>0) or separator (0)
                                        } else if b == 0 {
                                            b = 1;
                                        }
                                        f.bits = Some(b as u8);
                                    }
                                }
                                f.align = None;
                            }
                            if f.bits.is_none() && f.name.is_empty() {
                                f.name = format!("unnamed_{fi}");
                            }
                        }
                        FieldTy::Inline(ic) => {
                            f.bits = None;
                            ic.pragma_pack = None;
                            ic.typedef_name = None;
                            fix_comp(ic, false, complete, any_type, has_flex, before);
                            if ic.fields.is_empty() {
                                ic.fields.push(Field { name: "only".into(), ty: FieldTy::Ty(Ty::Prim(Prim::Int)), bits: None, align: None });
                            }
                            // a named tag with an empty field name would only declare a type
                            if ic.tag.is_some() && f.name.is_empty() {
                                f.name = format!("m{fi}");
                            }
                        }
                    }
                    if let Some(a) = f.align {
                        if !a.is_power_of_two() || a > 64 {
                            f.align = Some(8);
                        }
                    }
                }
                if c.fields.is_empty() {
                    c.fields.push(Field { name: "only".into(), ty: FieldTy::Ty(Ty::Prim(Prim::Int)), bits: None, align: None });
                }
                // a struct cannot consist of a flexible array plus only unnamed bit-fields
                if let Some(a) = c.aligned {
                    if !a.is_power_of_two() || a > 128 {
                        c.aligned = Some(16);
                    }
                }
                if let Some(pk) = c.pragma_pack {
                    if ![1u8, 2, 4, 8, 16].contains(&pk) {
                        c.pragma_pack = Some(2);
                    }
                }
                // unique field names within this comp (anonymous members share the namespace)
                let mut seen: BTreeSet<String> = BTreeSet::new();
                fn collect_anon(c: &Comp, seen: &mut BTreeSet<String>) {
                    for f in &c.fields {
                        if let FieldTy::Inline(ic) = &f.ty {
                            if f.name.is_empty() {
                                for g in &ic.fields {
                                    if !g.name.is_empty() {
                                        seen.insert(g.name.clone());
                                    }
                                }
                                collect_anon(ic, seen);
                            }
                        }
                    }
                }
                let mut anon_names = BTreeSet::new();
                collect_anon(c, &mut anon_names);
                for (fi, f) in c.fields.iter_mut().enumerate() {
                    if f.name.is_empty() {
                        continue;
                    }
                    if !seen.insert(f.name.clone()) || anon_names.contains(&f.name) {
                        f.name = format!("{}_{fi}", f.name.trim_end_matches(char::is_numeric));
                        seen.insert(f.name.clone());
                    }
                }
            }
            match d {
                Decl::Comp(c) => {
                    fix_comp(c, true, &complete, &any_type, &has_flex, before);
                    if c.tag.is_none() && c.typedef_name.is_none() {
                        c.tag = Some(format!("Anon{i}"));
                    }
                }
                Decl::Enum(e) => {
                    if e.variants.is_empty() {
                        e.variants.push((format!("E{i}_ONLY"), None));
                    }
                    if let Some(u) = e.underlying {
                        if !u.bitfield_base() || u == Prim::Bool {
                            e.underlying = Some(Prim::UInt);
                        }
                    }
                    // keep explicit values within the fixed underlying type / within 64 bits
                    let (lo, hi): (i128, i128) = match e.underlying {
                        Some(Prim::Char) | Some(Prim::SChar) => (-128, 127),
                        Some(Prim::UChar) => (0, 255),
                        Some(Prim::Short) => (-32768, 32767),
                        Some(Prim::UShort) => (0, 65535),
                        Some(Prim::Int) => (i32::MIN as i128, i32::MAX as i128),
                        Some(Prim::UInt) => (0, u32::MAX as i128),
                        Some(Prim::Long) | Some(Prim::LongLong) => (i64::MIN as i128, i64::MAX as i128),
                        Some(Prim::ULong) | Some(Prim::ULongLong) => (0, u64::MAX as i128),
                        _ => (i64::MIN as i128, u64::MAX as i128),
                    };
                    let mut has_neg = false;
                    let mut has_big = false;
                    for (_, v) in e.variants.iter_mut() {
                        if let Some(x) = v {
                            *x = (*x).clamp(lo, hi);
                            // a C enum cannot hold both negative values and values > INT64_MAX
                            if *x < 0 {
                                has_neg = true;
                            }
                            if *x > i64::MAX as i128 {
                                has_big = true;
                            }
                        }
                    }
                    if has_neg && has_big {
                        for (_, v) in e.variants.iter_mut() {
                            if let Some(x) = v {
                                if *x > i64::MAX as i128 {
                                    *x = i64::MAX as i128;
                                }
                            }
                        }
                    }
                    // implicit successor of the maximum would overflow
                    let top = if has_big || e.underlying.is_none() { hi } else { hi };
                    for k in 0..e.variants.len() {
                        if e.variants[k].1.is_none() && k > 0 {
                            if let Some(prev) = e.variants[k - 1].1 {
                                if prev >= top || prev == i64::MAX as i128 || prev == i32::MAX as i128 {
                                    e.variants[k].1 = Some(0.max(lo));
                                }
                            }
                        }
                    }
                    if e.tag.is_none() && e.typedef_name.is_none() {
                        e.tag = Some(format!("AnonE{i}"));
                    }
                }
                Decl::Typedef { ty, .. } => {
                    fix_ty(ty, true, &complete, &any_type, &has_flex);
                    if let Ty::Array { dims, .. } = ty {
                        if !matches!(dims[0], ArrLen::Fixed(_)) {
                            dims[0] = ArrLen::Fixed(3);
                        }
                    }
                }
                Decl::Func(f) => {
                    fix_ty(&mut f.ret, true, &complete, &any_type, &has_flex);
                    if matches!(f.ret, Ty::Array { .. }) {
                        f.ret = Ty::Prim(Prim::Int);
                    }
                    for (k, (n, t)) in f.params.iter_mut().enumerate() {
                        fix_ty(t, true, &complete, &any_type, &has_flex);
                        if t.is_void() {
                            *t = Ty::Prim(Prim::Int);
                        }
                        if let Ty::Array { dims, .. } = t {
                            // array parameters decay; `[0]` is fine, flexible `[]` too
                            if dims.len() > 1 {
                                for dl in dims.iter_mut().skip(1) {
                                    if !matches!(dl, ArrLen::Fixed(_)) {
                                        *dl = ArrLen::Fixed(2);
                                    }
                                }
                            }
                        }
                        if n.is_empty() {
                            *n = format!("a{k}");
                        }
                    }
                    let mut seen = BTreeSet::new();
                    for (k, (n, _)) in f.params.iter_mut().enumerate() {
                        if !seen.insert(n.clone()) {
                            *n = format!("{n}_{k}");
                        }
                    }
                    if f.params.is_empty() {
                        f.variadic = false;
                    }
                }
                Decl::Var { ty, .. } => {
                    fix_ty(ty, true, &complete, &any_type, &has_flex);
                    if ty.is_void() {
                        *ty = Ty::Prim(Prim::Int);
                    }
                    if let Ty::Array { dims, .. } = ty {
                        if dims[0] == ArrLen::Zero {
                            dims[0] = ArrLen::Fixed(1);
                        }
                    }
                }
                _ => {}
            }
        }
        // global uniqueness of top-level names (tags and ordinary identifiers kept apart by prefix)
        let mut seen: BTreeSet<String> = BTreeSet::new();
        for (i, d) in self.decls.iter_mut().enumerate() {
            let mut fix = |name: &mut String| {
                if !seen.insert(name.clone()) {
                    *name = format!("{name}_{i}");
                    seen.insert(name.clone());
                }
            };
            match d {
                Decl::Comp(c) => {
                    if let Some(t) = &mut c.tag {
                        fix(t)
                    }
                    if let Some(t) = &mut c.typedef_name {
                        fix(t)
                    }
                }
                Decl::Enum(e) => {
                    if let Some(t) = &mut e.tag {
                        fix(t)
                    }
                    if let Some(t) = &mut e.typedef_name {
                        fix(t)
                    }
                    for (n, _) in e.variants.iter_mut() {
                        fix(n);
                    }
                }
                Decl::Typedef { name, .. } | Decl::Var { name, .. } | Decl::Macro { name, .. } => fix(name),
                Decl::Func(f) => fix(&mut f.name),
                Decl::Opaque { tag } => fix(tag),
            }
        }
        // nested tags must be globally unique too (C has one tag namespace)
        fn fix_tags(c: &mut Comp, seen: &mut BTreeSet<String>, salt: &mut usize) {
            for f in c.fields.iter_mut() {
                if let FieldTy::Inline(ic) = &mut f.ty {
                    if let Some(t) = &mut ic.tag {
                        if !seen.insert(t.clone()) {
                            *salt += 1;
                            *t = format!("{t}_n{salt}");
                            seen.insert(t.clone());
                        }
                    }
                    fix_tags(ic, seen, salt);
                }
            }
        }
        let mut salt = 0usize;
        for d in self.decls.iter_mut() {
            if let Decl::Comp(c) = d {
                fix_tags(c, &mut seen, &mut salt);
            }
        }
        self.post_normalise();
    }

    /// Remove constructs for which bindgen is known to emit code rustc rejects (recorded as
    /// known findings under C01), so that layout exploration continues behind them:
    /// * a packed / pragma-packed struct that (transitively, by value) contains an explicitly
    ///   aligned member or type (E0588 / E0587);
    /// Returns the number of constructs removed.
    pub fn strip_unrepresentable(&mut self) -> usize {
        let mut removed = 0usize;
        // which top-level decls carry an explicit alignment somewhere (by value)
        let n = self.decls.len();
        let mut aligned = vec![false; n];
        fn comp_aligned(c: &Comp, aligned: &[bool]) -> bool {
            c.aligned.is_some()
                || c.fields.iter().any(|f| {
                    f.align.is_some()
                        || match &f.ty {
                            FieldTy::Inline(ic) => comp_aligned(ic, aligned),
                            FieldTy::Ty(t) => {
                                let mut r = BTreeSet::new();
                                t.named_refs(&mut r, true);
                                r.iter().any(|k| aligned[*k]) || has_prim16(t)
                            }
                        }
                })
        }
        // long double / __int128 members make bindgen emit repr(align(16)) on the container
        fn has_prim16(t: &Ty) -> bool {
            match t {
                Ty::Prim(Prim::LongDouble) | Ty::Prim(Prim::Int128) | Ty::Prim(Prim::UInt128) => true,
                Ty::Array { of, .. } => has_prim16(of),
                _ => false,
            }
        }
        fn scrub16(t: &mut Ty, removed: &mut usize) {
            match t {
                Ty::Prim(Prim::LongDouble) | Ty::Prim(Prim::Int128) | Ty::Prim(Prim::UInt128) => {
                    *t = Ty::Prim(Prim::Double);
                    *removed += 1;
                }
                Ty::Array { of, .. } => scrub16(of, removed),
                _ => {}
            }
        }
        for i in 0..n {
            aligned[i] = match &self.decls[i] {
                Decl::Comp(c) => comp_aligned(c, &aligned),
                Decl::Typedef { ty, aligned: a, .. } => {
                    let mut r = BTreeSet::new();
                    ty.named_refs(&mut r, true);
                    a.is_some() || r.iter().any(|k| aligned[*k])
                }
                _ => false,
            };
        }
        // known finding: an aligned typedef whose alignment is at most 8 is not reproduced
        for d in self.decls.iter_mut() {
            if let Decl::Typedef { aligned: a, .. } = d {
                if matches!(a, Some(x) if *x <= 8) {
                    *a = None;
                    removed += 1;
                }
            }
        }
        fn unpack_nested(c: &mut Comp, removed: &mut usize) {
            for f in c.fields.iter_mut() {
                if let FieldTy::Inline(ic) = &mut f.ty {
                    if ic.packed {
                        ic.packed = false;
                        *removed += 1;
                    }
                    unpack_nested(ic, removed);
                }
            }
        }
        fn strip(c: &mut Comp, in_packed: bool, aligned: &[bool], removed: &mut usize) {
            // the pragma also governs structs defined inside the region
            if c.pragma_pack.map(|n| n > 1).unwrap_or(false) {
                unpack_nested(c, removed);
            }
            let packed_here = in_packed || c.packed || c.pragma_pack.is_some();
            // known finding (C02): `__attribute__((packed))` inside `#pragma pack(N)`, N > 1, is
            // emitted as repr(packed(N)) although the members are byte-packed
            if c.pragma_pack.map(|n| n > 1).unwrap_or(false) && c.packed {
                c.pragma_pack = None;
                *removed += 1;
            }
            // known finding (C02): inside `#pragma pack(N)`, N < 16, a member whose own alignment
            // is 16 keeps that alignment in the bindings
            if c.pragma_pack.is_some() {
                fn no16(c: &mut Comp, removed: &mut usize) {
                    for f in c.fields.iter_mut() {
                        match &mut f.ty {
                            FieldTy::Ty(t) => {
                                fn scrub(t: &mut Ty, removed: &mut usize) {
                                    match t {
                                        Ty::Prim(Prim::LongDouble) | Ty::Prim(Prim::Int128) | Ty::Prim(Prim::UInt128) => {
                                            *t = Ty::Prim(Prim::Double);
                                            *removed += 1;
                                        }
                                        Ty::Array { of, .. } => scrub(of, removed),
                                        _ => {}
                                    }
                                }
                                scrub(t, removed);
                            }
                            FieldTy::Inline(ic) => no16(ic, removed),
                        }
                    }
                }
                no16(c, removed);
            }
            if in_packed && c.aligned.is_some() {
                c.aligned = None;
                *removed += 1;
            }
            if packed_here && c.aligned.is_some() && (c.packed || c.pragma_pack.is_some()) {
                c.aligned = None;
                *removed += 1;
            }
            // known finding (C02): a zero-width bit-field only aligns the next member when bindgen
            // knows that member's offset; an anonymous struct/union member has none
            let mut k = 0usize;
            while k + 1 < c.fields.len() {
                if c.fields[k].bits == Some(0) && c.fields[k + 1].name.is_empty() && matches!(c.fields[k + 1].ty, FieldTy::Inline(_)) {
                    c.fields.remove(k);
                    *removed += 1;
                } else {
                    k += 1;
                }
            }
            // known finding (C03): the allocation unit of a union's bit-fields is sized by the
            // last field of a run and emptied by a zero-width member: widest last, no `:0`
            if c.is_union {
                let n0 = c.fields.len();
                c.fields.retain(|f| f.bits != Some(0));
                *removed += n0 - c.fields.len();
                let mut k = 0usize;
                while k < c.fields.len() {
                    if c.fields[k].bits.is_none() {
                        k += 1;
                        continue;
                    }
                    let start = k;
                    while k < c.fields.len() && c.fields[k].bits.is_some() {
                        k += 1;
                    }
                    let last = k - 1;
                    let widest = (start..=last).max_by_key(|i| (c.fields[*i].bits.unwrap(), *i)).unwrap();
                    if c.fields[widest].bits != c.fields[last].bits {
                        c.fields.swap(widest, last);
                        *removed += 1;
                    }
                }
                if c.fields.is_empty() {
                    c.fields.push(Field { name: "only".into(), ty: FieldTy::Ty(Ty::Prim(Prim::Int)), bits: None, align: None });
                }
            }
            for f in c.fields.iter_mut() {
                if packed_here && f.align.is_some() {
                    f.align = None;
                    *removed += 1;
                }
                match &mut f.ty {
                    FieldTy::Inline(ic) => strip(ic, packed_here, aligned, removed),
                    FieldTy::Ty(t) => {
                        if packed_here {
                            scrub16(t, removed);
                            let mut r = BTreeSet::new();
                            t.named_refs(&mut r, true);
                            if r.iter().any(|k| aligned[*k]) {
                                *t = Ty::Prim(Prim::Int);
                                *removed += 1;
                            }
                        }
                    }
                }
            }
        }
        for i in 0..n {
            if let Decl::Comp(c) = &mut self.decls[i] {
                strip(c, false, &aligned, &mut removed);
            }
        }
        if removed > 0 {
            self.normalise();
        }
        removed
    }

    fn resolves_to_array(&self, t: &Ty) -> bool {
        match t {
            Ty::Array { .. } => true,
            Ty::Named(k) => match &self.decls[*k] {
                Decl::Typedef { ty, .. } => self.resolves_to_array(ty),
                _ => false,
            },
            _ => false,
        }
    }

    /// Post-pass of `normalise`: functions cannot return arrays (also not through typedefs), and
    /// member names must be unique across anonymous members sharing one scope.
    fn post_normalise(&mut self) {
        // (1) function return types
        let snapshot = self.clone();
        fn fix_ret(t: &mut Ty, snap: &Program) {
            match t {
                Ty::FnPtr { ret, params, .. } => {
                    if snap.resolves_to_array(ret) {
                        **ret = Ty::Prim(Prim::Int);
                    }
                    fix_ret(ret, snap);
                    for p in params.iter_mut() {
                        fix_ret(p, snap);
                    }
                }
                Ty::Ptr { to, .. } => fix_ret(to, snap),
                Ty::Array { of, .. } => fix_ret(of, snap),
                _ => {}
            }
        }
        fn fix_comp_rets(c: &mut Comp, snap: &Program) {
            for f in c.fields.iter_mut() {
                match &mut f.ty {
                    FieldTy::Ty(t) => fix_ret(t, snap),
                    FieldTy::Inline(ic) => fix_comp_rets(ic, snap),
                }
            }
        }
        for d in self.decls.iter_mut() {
            match d {
                Decl::Comp(c) => fix_comp_rets(c, &snapshot),
                Decl::Typedef { ty, .. } | Decl::Var { ty, .. } => fix_ret(ty, &snapshot),
                Decl::Func(f) => {
                    if snapshot.resolves_to_array(&f.ret) {
                        f.ret = Ty::Prim(Prim::Int);
                    }
                    fix_ret(&mut f.ret, &snapshot);
                    for (_, t) in f.params.iter_mut() {
                        fix_ret(t, &snapshot);
                    }
                }
                _ => {}
            }
        }
        // (2) scopes: an anonymous member shares the scope of its parent
        fn uniq(c: &mut Comp, scope: &mut BTreeSet<String>, counter: &mut usize) {
            for f in c.fields.iter_mut() {
                if !f.name.is_empty() && !scope.insert(f.name.clone()) {
                    *counter += 1;
                    f.name = format!("{}_d{counter}", f.name);
                    scope.insert(f.name.clone());
                }
            }
            for f in c.fields.iter_mut() {
                if let FieldTy::Inline(ic) = &mut f.ty {
                    if f.name.is_empty() {
                        uniq(ic, scope, counter);
                    } else {
                        let mut inner = BTreeSet::new();
                        uniq(ic, &mut inner, counter);
                    }
                }
            }
        }
        let mut counter = 0usize;
        for d in self.decls.iter_mut() {
            if let Decl::Comp(c) = d {
                let mut scope = BTreeSet::new();
                uniq(c, &mut scope, &mut counter);
            }
        }
        // (3) aligned typedefs: scalars and pointers only, never an array element (clang rejects
        // an element alignment larger than the element), not even through an alias chain
        let mut elem: BTreeSet<usize> = BTreeSet::new();
        fn elems(t: &Ty, out: &mut BTreeSet<usize>) {
            match t {
                Ty::Array { of, .. } => {
                    let mut inner: &Ty = of;
                    while let Ty::Array { of, .. } = inner {
                        inner = of;
                    }
                    if let Ty::Named(k) = inner {
                        out.insert(*k);
                    }
                    elems(inner, out);
                }
                Ty::Ptr { to, .. } => elems(to, out),
                Ty::FnPtr { ret, params, .. } => {
                    elems(ret, out);
                    for p in params {
                        elems(p, out);
                    }
                }
                _ => {}
            }
        }
        fn comp_elems(c: &Comp, out: &mut BTreeSet<usize>) {
            for f in &c.fields {
                match &f.ty {
                    FieldTy::Ty(t) => elems(t, out),
                    FieldTy::Inline(ic) => comp_elems(ic, out),
                }
            }
        }
        for d in &self.decls {
            match d {
                Decl::Comp(c) => comp_elems(c, &mut elem),
                Decl::Typedef { ty, .. } | Decl::Var { ty, .. } => elems(ty, &mut elem),
                Decl::Func(f) => {
                    elems(&f.ret, &mut elem);
                    for (_, t) in &f.params {
                        elems(t, &mut elem);
                    }
                }
                _ => {}
            }
        }
        // close over alias chains (later typedefs name earlier ones)
        for i in (0..self.decls.len()).rev() {
            if elem.contains(&i) {
                if let Decl::Typedef { ty: Ty::Named(k), .. } = &self.decls[i] {
                    elem.insert(*k);
                }
            }
        }
        for (i, d) in self.decls.iter_mut().enumerate() {
            if let Decl::Typedef { ty, aligned, .. } = d {
                let scalar = matches!(ty, Ty::Prim(_) | Ty::Ptr { .. });
                if !scalar || elem.contains(&i) {
                    *aligned = None;
                }
            }
        }
    }

    pub fn type_indices(&self) -> Vec<usize> {
        (0..self.decls.len()).filter(|i| self.decls[*i].is_type()).collect()
    }
}

// ---------------------------------------------------------------------------------------------
// strategies

#[derive(Clone, Debug)]
pub struct GenCfg {
    pub max_decls: usize,
    pub min_decls: usize,
    pub bitfields: bool,
    pub packed_aligned: bool,
    pub flexible: bool,
    pub exotic_prims: bool,
    pub enums: bool,
    pub functions: bool,
    pub vars: bool,
    pub macros: bool,
    pub keyword_names: bool,
    pub fn_ptrs: bool,
    pub opaque_fwd: bool,
    pub max_depth: u32,
    pub unions: bool,
    /// weight of bit-field members (0..=10)
    pub bitfield_weight: u32,
    pub big_arrays: bool,
}

impl GenCfg {
    pub fn data_types() -> GenCfg {
        GenCfg {
            max_decls: 14,
            min_decls: 3,
            bitfields: true,
            packed_aligned: true,
            flexible: true,
            exotic_prims: true,
            enums: true,
            functions: false,
            vars: false,
            macros: false,
            keyword_names: true,
            fn_ptrs: true,
            opaque_fwd: true,
            max_depth: 3,
            unions: true,
            bitfield_weight: 2,
            big_arrays: true,
        }
    }
    pub fn everything() -> GenCfg {
        GenCfg { functions: true, vars: true, macros: true, max_decls: 20, ..GenCfg::data_types() }
    }
}

const FIELD_NAMES: &[&str] = &["a", "b", "c", "x", "y", "len", "data", "next", "flags", "value", "id", "ptr", "count", "buf", "lo", "hi"];
const AWKWARD_FIELD_NAMES: &[&str] = &["type", "match", "fn", "self", "loop", "mod", "in", "impl", "use", "ref", "mut", "move", "box", "dyn", "async", "try", "gen", "yield", "u8", "str", "i32", "Self", "crate", "super", "as", "where", "abstract", "final", "override", "priv", "unsafe", "trait", "bool_", "_1", "__x", "$d"];

fn prim_strategy(cfg: &GenCfg) -> BoxedStrategy<Prim> {
    let common = (0..Prim::COMMON.len()).prop_map(|i| Prim::COMMON[i]);
    if cfg.exotic_prims {
        prop_oneof![12 => common, 1 => (0..Prim::EXOTIC.len()).prop_map(|i| Prim::EXOTIC[i])].boxed()
    } else {
        common.boxed()
    }
}

fn arr_len(cfg: &GenCfg) -> BoxedStrategy<ArrLen> {
    let lens: Vec<u32> = if cfg.big_arrays { vec![1, 2, 3, 4, 7, 16, 31, 32, 33, 64, 65] } else { vec![1, 2, 3, 4, 7] };
    prop_oneof![12 => (0..lens.len()).prop_map(move |i| ArrLen::Fixed(lens[i])), 1 => Just(ArrLen::Zero), 1 => Just(ArrLen::Flexible)].boxed()
}

pub fn ty_strategy(cfg: &GenCfg, max_named: usize) -> BoxedStrategy<Ty> {
    let prim = prim_strategy(cfg).prop_map(Ty::Prim);
    let named = (0..max_named.max(1)).prop_map(Ty::Named);
    let leaf = prop_oneof![6 => prim, 4 => named];
    let cfg2 = cfg.clone();
    leaf.prop_recursive(3, 8, 3, move |inner| {
        let cfg = cfg2.clone();
        // around the 12-parameter limit of the standard library's impls for function pointers
        let many = (11usize..16).prop_map(|n| (0..n).map(|k| Ty::Prim(if k % 3 == 0 { Prim::Int } else if k % 3 == 1 { Prim::Double } else { Prim::UChar })).collect::<Vec<Ty>>());
        let fnptr = (prop_oneof![1 => Just(Ty::Void), 3 => inner.clone()], prop_oneof![7 => proptest::collection::vec(inner.clone(), 0..4), 1 => many], proptest::bool::weighted(0.1))
            .prop_map(|(ret, params, variadic)| Ty::FnPtr { ret: Box::new(ret), params, variadic });
        let ptr = (prop_oneof![1 => Just(Ty::Void), 5 => inner.clone()], proptest::bool::weighted(0.3)).prop_map(|(to, is_const)| Ty::Ptr { to: Box::new(to), is_const });
        let arr = (inner.clone(), proptest::collection::vec(arr_len(&cfg), 1..3)).prop_map(|(of, dims)| Ty::Array { of: Box::new(of), dims });
        if cfg.fn_ptrs {
            prop_oneof![4 => ptr, 3 => arr, 1 => fnptr].boxed()
        } else {
            prop_oneof![4 => ptr, 3 => arr].boxed()
        }
    })
    .boxed()
}

fn field_name(cfg: &GenCfg) -> BoxedStrategy<String> {
    let plain = (0..FIELD_NAMES.len(), 0u8..4).prop_map(|(i, k)| if k == 0 { FIELD_NAMES[i].to_string() } else { format!("{}{k}", FIELD_NAMES[i]) });
    if cfg.keyword_names {
        prop_oneof![8 => plain, 1 => (0..AWKWARD_FIELD_NAMES.len()).prop_map(|i| AWKWARD_FIELD_NAMES[i].to_string())].boxed()
    } else {
        plain.boxed()
    }
}

fn comp_strategy(cfg: &GenCfg, max_named: usize, depth: u32, idx: usize) -> BoxedStrategy<Comp> {
    let cfg = cfg.clone();
    let plain_field = (field_name(&cfg), ty_strategy(&cfg, max_named), prop_oneof![12 => Just(None), 1 => prop_oneof![Just(2u32), Just(4), Just(8), Just(16), Just(32)].prop_map(Some)])
        .prop_map(|(name, ty, align)| Field { name, ty: FieldTy::Ty(ty), bits: None, align });
    let bf_prims: Vec<Prim> = Prim::COMMON.iter().copied().filter(|p| p.bitfield_base()).collect();
    let bit_field = (field_name(&cfg), (0..bf_prims.len()), prop_oneof![1 => Just(0u8), 14 => (1u8..=64)], prop_oneof![8 => Just(true), 1 => Just(false)])
        .prop_map(move |(name, p, bits, named)| Field { name: if named { name } else { String::new() }, ty: FieldTy::Ty(Ty::Prim(bf_prims[p])), bits: Some(bits), align: None });
    let mut choices: Vec<(u32, BoxedStrategy<Field>)> = vec![(10, plain_field.boxed())];
    if cfg.bitfields && cfg.bitfield_weight > 0 {
        choices.push((cfg.bitfield_weight, bit_field.boxed()));
    }
    if depth < cfg.max_depth {
        let inner = comp_strategy(&cfg, max_named, depth + 1, idx);
        let inline = (field_name(&cfg), inner, prop_oneof![Just(0u8), Just(1), Just(2)]).prop_map(move |(name, mut c, mode)| {
            // mode 0: anonymous member; 1: anonymous type with field name; 2: named tag with field name
            c.typedef_name = None;
            c.pragma_pack = None;
            match mode {
                0 => {
                    c.tag = None;
                    Field { name: String::new(), ty: FieldTy::Inline(Box::new(c)), bits: None, align: None }
                }
                1 => {
                    c.tag = None;
                    Field { name, ty: FieldTy::Inline(Box::new(c)), bits: None, align: None }
                }
                _ => Field { name, ty: FieldTy::Inline(Box::new(c)), bits: None, align: None },
            }
        });
        choices.push((2, inline.boxed()));
    }
    let field = proptest::strategy::Union::new_weighted(choices);
    let pa = cfg.packed_aligned;
    (
        proptest::bool::weighted(if cfg.unions { 0.2 } else { 0.0 }),
        proptest::collection::vec(field, 1..7),
        proptest::bool::weighted(if pa { 0.15 } else { 0.0 }),
        prop_oneof![10 => Just(None), 1 => prop_oneof![Just(2u32), Just(4), Just(8), Just(16), Just(32), Just(64)].prop_map(Some)],
        prop_oneof![10 => Just(None), 1 => prop_oneof![Just(1u8), Just(2), Just(4), Just(8)].prop_map(Some)],
        0u8..5,
        0u32..1000,
    )
        .prop_map(move |(is_union, fields, packed, aligned, pragma_pack, naming, salt)| {
            let base = format!("{}{idx}_{salt}", if is_union { "U" } else { "S" });
            let (tag, typedef_name) = match naming {
                0 => (None, Some(format!("{base}_t"))),
                1 => (Some(base.clone()), Some(format!("{base}_t"))),
                _ => (Some(base.clone()), None),
            };
            Comp { is_union, tag, fields, packed, aligned: if pa { aligned } else { None }, pragma_pack: if pa { pragma_pack } else { None }, typedef_name }
        })
        .boxed()
}

/// Rust keywords (and other names bindgen has to mangle) that are ordinary identifiers in C and C++
pub const KEYWORD_ENUMERATORS: &[&str] = &["type", "match", "fn", "loop", "mod", "in", "impl", "trait", "use", "pub", "ref", "move", "dyn", "async", "await", "gen", "yield", "where", "as", "let", "unsafe", "Self", "self", "super", "crate", "box", "priv", "u8", "i32", "usize", "f64", "str"];

fn enum_strategy(idx: usize, keyword_names: bool) -> BoxedStrategy<EnumDecl> {
    let val = prop_oneof![
        6 => Just(None),
        4 => (-5i128..40).prop_map(Some),
        // small pool: repeated values are common
        3 => (0i128..3).prop_map(Some),
        1 => prop_oneof![Just(i32::MAX as i128), Just(i32::MIN as i128), Just(u32::MAX as i128), Just(i64::MAX as i128), Just(i64::MIN as i128), Just(u64::MAX as i128), Just(1i128 << 32), Just(-1i128), Just(255), Just(256)].prop_map(Some),
    ];
    let int_prims: Vec<Prim> = vec![Prim::UChar, Prim::SChar, Prim::Short, Prim::UShort, Prim::Int, Prim::UInt, Prim::Long, Prim::ULong, Prim::LongLong, Prim::ULongLong, Prim::Char];
    (
        proptest::collection::vec((val, if keyword_names { proptest::option::weighted(0.12, 0..KEYWORD_ENUMERATORS.len()).boxed() } else { Just(None::<usize>).boxed() }), 1..6),
        prop_oneof![5 => Just(None), 1 => (0..int_prims.len()).prop_map(move |i| Some(int_prims[i]))],
        0u8..4,
        0u32..1000,
    )
        .prop_map(move |(vals, underlying, naming, salt)| {
            let base = format!("E{idx}_{salt}");
            let variants = vals
                .into_iter()
                .enumerate()
                .map(|(k, (v, kw))| {
                    (
                        match kw {
                            Some(i) => KEYWORD_ENUMERATORS[i].to_string(),
                            None => format!("{base}_V{k}"),
                        },
                        v,
                    )
                })
                .collect();
            let (tag, typedef_name) = match naming {
                0 => (None, Some(format!("{base}_t"))),
                _ => (Some(base.clone()), None),
            };
            EnumDecl { tag, variants, underlying, typedef_name }
        })
        .boxed()
}

pub fn decl_strategy(cfg: &GenCfg, idx: usize, n: usize) -> BoxedStrategy<Decl> {
    let mut choices: Vec<(u32, BoxedStrategy<Decl>)> = vec![];
    choices.push((10, comp_strategy(cfg, n, 0, idx).prop_map(Decl::Comp).boxed()));
    if cfg.enums {
        choices.push((3, enum_strategy(idx, cfg.keyword_names).prop_map(Decl::Enum).boxed()));
    }
    choices.push((
        3,
        (ty_strategy(cfg, n), 0u32..1000, prop_oneof![12 => Just(None), 3 => prop_oneof![Just(16u32), Just(32), Just(64)].prop_map(Some), 1 => Just(Some(8u32))])
            .prop_map(move |(ty, s, aligned)| Decl::Typedef { name: format!("T{idx}_{s}"), ty, aligned })
            .boxed(),
    ));
    if cfg.opaque_fwd {
        choices.push((1, (0u32..1000).prop_map(move |s| Decl::Opaque { tag: format!("Fwd{idx}_{s}") }).boxed()));
    }
    if cfg.functions {
        let f = (
            prop_oneof![1 => Just(Ty::Void), 4 => ty_strategy(cfg, n)],
            proptest::collection::vec((field_name(cfg), ty_strategy(cfg, n)), 0..5),
            proptest::bool::weighted(0.1),
            0u32..1000,
        )
            .prop_map(move |(ret, params, variadic, s)| Decl::Func(FuncDecl { name: format!("f{idx}_{s}"), ret, params, variadic, is_static_inline: false }));
        choices.push((4, f.boxed()));
    }
    if cfg.vars {
        choices.push((2, (ty_strategy(cfg, n), any::<bool>(), 0u32..1000).prop_map(move |(ty, is_const, s)| Decl::Var { name: format!("g{idx}_{s}"), ty, is_const, init: if s % 2 == 0 { Some((s as i32 % 200) - 20) } else { None } }).boxed()));
    }
    if cfg.macros {
        let body = prop_oneof![Just("1".to_string()), Just("0x7fffffff".to_string()), Just("(1u << 31)".to_string()), Just("-5".to_string()), Just("\"text\"".to_string()), Just("3.5".to_string()), Just("'c'".to_string()), Just("(2 + 3 * 4)".to_string())];
        choices.push((2, (body, 0u32..1000).prop_map(move |(body, s)| Decl::Macro { name: format!("M{idx}_{s}"), body }).boxed()));
    }
    proptest::strategy::Union::new_weighted(choices).boxed()
}

pub fn program_strategy(cfg: GenCfg) -> BoxedStrategy<Program> {
    (cfg.min_decls..=cfg.max_decls)
        .prop_flat_map(move |n| {
            let ds: Vec<BoxedStrategy<Decl>> = (0..n).map(|i| decl_strategy(&cfg, i, n)).collect();
            ds
        })
        .prop_map(|decls| {
            let mut p = Program { decls };
            p.normalise();
            p
        })
        .boxed()
}
