//! The repository's own test headers (bindgen-tests/tests/headers) as inputs.

use crate::bg::BgInput;
use std::path::{Path, PathBuf};

pub const HEADERS_DIR: &str = "/repo/bindgen-tests/tests/headers";

#[derive(Clone, Debug)]
pub struct RepoHeader {
    pub name: String,
    pub path: PathBuf,
    pub text: String,
    /// flags before `--` (from the `// bindgen-flags:` lines), without the test-suite prefix
    pub flags: Vec<String>,
    pub clang_args: Vec<String>,
    pub parse_callbacks: Option<String>,
    pub is_cpp: bool,
}

fn fix_path(a: &str) -> String {
    if let Some(rest) = a.strip_prefix("-Itests/") {
        format!("-I/repo/bindgen-tests/tests/{rest}")
    } else if a.starts_with("tests/headers") {
        format!("/repo/bindgen-tests/{a}")
    } else {
        a.to_string()
    }
}

pub fn load_one(path: &Path) -> Option<RepoHeader> {
    let text = std::fs::read_to_string(path).ok()?;
    let mut all: Vec<String> = vec![];
    let mut cb = None;
    for line in text.lines() {
        if !line.starts_with("// bindgen") {
            continue;
        }
        if line.contains("bindgen-flags: ") {
            let extra = line.split("bindgen-flags: ").last().and_then(shlex::split)?;
            all.extend(extra);
        } else if line.contains("bindgen-parse-callbacks: ") {
            cb = Some(line.split("bindgen-parse-callbacks: ").last().unwrap().trim().to_string());
        }
    }
    let (flags, mut clang_args): (Vec<String>, Vec<String>) = match all.iter().position(|f| f == "--") {
        Some(i) => (all[..i].to_vec(), all[i + 1..].to_vec()),
        None => (all, vec![]),
    };
    if !clang_args.iter().any(|a| a.starts_with("--target=")) && !flags.iter().any(|a| a.starts_with("--target=")) {
        clang_args.push("--target=x86_64-unknown-linux".into());
    }
    let name = path.file_name()?.to_str()?.to_string();
    let is_cpp = name.ends_with(".hpp") || clang_args.iter().any(|a| a.contains("c++"));
    Some(RepoHeader {
        name,
        path: path.to_path_buf(),
        text,
        flags: flags.iter().map(|f| fix_path(f)).collect(),
        clang_args: clang_args.iter().map(|f| fix_path(f)).collect(),
        parse_callbacks: cb,
        is_cpp,
    })
}

pub fn load_all() -> Vec<RepoHeader> {
    let mut v: Vec<PathBuf> = std::fs::read_dir(HEADERS_DIR)
        .map(|rd| rd.filter_map(|e| e.ok()).map(|e| e.path()).collect())
        .unwrap_or_default();
    v.retain(|p| {
        p.is_file() && matches!(p.extension().and_then(|e| e.to_str()), Some("h") | Some("hpp"))
    });
    v.sort();
    v.iter().filter_map(|p| load_one(p)).collect()
}

impl RepoHeader {
    /// The invocation the test-suite uses (minus rustfmt), reading the header in place.
    pub fn input(&self) -> BgInput {
        let mut flags: Vec<String> = vec![
            "--formatter=none".into(),
            "--with-derive-default".into(),
            "--disable-header-comment".into(),
            "--vtable-generation".into(),
        ];
        flags.extend(self.flags.iter().cloned());
        if self.flags.iter().any(|f| f == "--wrap-static-fns")
            && !self.flags.iter().any(|f| f.starts_with("--wrap-static-fns-path"))
        {
            flags.push("--wrap-static-fns-path".into());
            flags.push("{DIR}/extern".into());
        }
        BgInput {
            files: vec![],
            headers: vec![self.path.to_str().unwrap().to_string()],
            flags,
            clang_args: self.clang_args.clone(),
            callbacks: vec![],
        }
    }
    /// Same invocation on a (possibly modified) copy of the text placed in the scratch dir.
    pub fn input_with_text(&self, text: &str) -> BgInput {
        let mut i = self.input();
        let fname = format!("in_{}", self.name);
        i.files = vec![(fname.clone(), text.to_string())];
        i.headers = vec![fname];
        // keep includes relative to the original directory working
        i.clang_args.push(format!("-I{HEADERS_DIR}"));
        i
    }
}
