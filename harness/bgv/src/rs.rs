//! Rust-source observers: token flattening and the syn inventory.

use proc_macro2::{TokenStream, TokenTree};
use std::str::FromStr;

fn flatten(ts: TokenStream, out: &mut Vec<String>) {
    for tt in ts {
        match tt {
            TokenTree::Group(g) => {
                let (o, c) = match g.delimiter() {
                    proc_macro2::Delimiter::Parenthesis => ("(", ")"),
                    proc_macro2::Delimiter::Brace => ("{", "}"),
                    proc_macro2::Delimiter::Bracket => ("[", "]"),
                    proc_macro2::Delimiter::None => ("", ""),
                };
                if !o.is_empty() {
                    out.push(o.into());
                }
                flatten(g.stream(), out);
                if !c.is_empty() {
                    out.push(c.into());
                }
            }
            TokenTree::Punct(p) => {
                // join multi-char punctuation the way rustc lexes it
                if p.spacing() == proc_macro2::Spacing::Joint {
                    out.push(format!("{}\u{1}", p.as_char()));
                } else {
                    out.push(p.as_char().to_string());
                }
            }
            TokenTree::Ident(i) => out.push(i.to_string()),
            TokenTree::Literal(l) => out.push(l.to_string()),
        }
    }
}

/// Flatten Rust source text to a token sequence (comments and whitespace vanish; doc
/// comments become `#[doc = ".."]` attributes as in rustc).
pub fn flat_tokens(text: &str) -> Vec<String> {
    let Ok(ts) = TokenStream::from_str(text) else { return vec!["<<lex error>>".into()] };
    let mut raw = vec![];
    flatten(ts, &mut raw);
    // merge joint punctuation
    let mut out: Vec<String> = vec![];
    let mut pending = String::new();
    for t in raw {
        if let Some(c) = t.strip_suffix('\u{1}') {
            pending.push_str(c);
        } else if !pending.is_empty() {
            pending.push_str(&t);
            out.push(std::mem::take(&mut pending));
        } else {
            out.push(t);
        }
    }
    if !pending.is_empty() {
        out.push(pending);
    }
    out
}

pub fn lexes(text: &str) -> bool {
    TokenStream::from_str(text).is_ok()
}
