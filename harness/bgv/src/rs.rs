//! Rust-source observers: token flattening and the syn inventory.

use proc_macro2::{TokenStream, TokenTree};
use std::str::FromStr;

fn flatten(ts: TokenStream, out: &mut Vec<String>) {
    for tt in ts {
        match tt {
            TokenTree::Group(g) => {
                let (o, c) = match g.delimiter() {
                    proc_macro2::Delimiter::Parenthesis => ("(", ")"),
                    proc_macro2::Delimiter::Brace => ("{", "}"),
                    proc_macro2::Delimiter::Bracket => ("[", "]"),
                    proc_macro2::Delimiter::None => ("", ""),
                };
                if !o.is_empty() {
                    out.push(o.into());
                }
                flatten(g.stream(), out);
                if !c.is_empty() {
                    out.push(c.into());
                }
            }
            TokenTree::Punct(p) => {
                // join multi-char punctuation the way rustc lexes it
                if p.spacing() == proc_macro2::Spacing::Joint {
                    out.push(format!("{}\u{1}", p.as_char()));
                } else {
                    out.push(p.as_char().to_string());
                }
            }
            TokenTree::Ident(i) => out.push(i.to_string()),
            TokenTree::Literal(l) => out.push(l.to_string()),
        }
    }
}

/// Flatten Rust source text to a token sequence (comments and whitespace vanish; doc
/// comments become `#[doc = ".."]` attributes as in rustc).
pub fn flat_tokens(text: &str) -> Vec<String> {
    let Ok(ts) = TokenStream::from_str(text) else { return vec!["<<lex error>>".into()] };
    let mut raw = vec![];
    flatten(ts, &mut raw);
    // merge joint punctuation, but only into real multi-character operators: spacing of other
    // punctuation (`#!` vs `# !`) is not significant
    const OPS: &[&str] = &[
        "::", "->", "=>", "==", "!=", "<=", ">=", "&&", "||", "<<", ">>", "+=", "-=", "*=", "/=", "%=", "^=", "&=", "|=", "<<=", ">>=", "..", "...", "..=",
    ];
    let mut out: Vec<String> = vec![];
    let mut pending = String::new();
    let flush = |pending: &mut String, out: &mut Vec<String>| {
        if pending.is_empty() {
            return;
        }
        // greedy longest-match split of the run into operators, else single characters
        let chars: Vec<char> = pending.chars().collect();
        let mut i = 0;
        while i < chars.len() {
            let mut taken = 1;
            for len in (2..=3usize).rev() {
                if i + len <= chars.len() {
                    let cand: String = chars[i..i + len].iter().collect();
                    if OPS.contains(&cand.as_str()) {
                        taken = len;
                        break;
                    }
                }
            }
            out.push(chars[i..i + taken].iter().collect());
            i += taken;
        }
        pending.clear();
    };
    for t in raw {
        if let Some(c) = t.strip_suffix('\u{1}') {
            pending.push_str(c);
        } else if !pending.is_empty() && t.chars().count() == 1 && !t.chars().next().unwrap().is_alphanumeric() && t != "(" && t != ")" && t != "[" && t != "]" && t != "{" && t != "}" && t != "_" {
            pending.push_str(&t);
            flush(&mut pending, &mut out);
        } else {
            flush(&mut pending, &mut out);
            out.push(t);
        }
    }
    flush(&mut pending, &mut out);
    out
}

/// Token sequence modulo what formatters treat as layout: trailing commas before a closing
/// delimiter and the spelling of string literals (`///` comments re-lex as raw strings).
pub fn layout_neutral_tokens(text: &str) -> Vec<String> {
    let mut toks: Vec<String> = vec![];
    for t in flat_tokens(text) {
        match t.as_str() {
            // closing generic brackets lex as shift operators when adjacent
            ">>" => toks.extend([">".to_string(), ">".to_string()]),
            "<<" => toks.extend(["<".to_string(), "<".to_string()]),
            ">>=" => toks.extend([">".to_string(), ">".to_string(), "=".to_string()]),
            _ => toks.push(t),
        }
    }
    let mut out: Vec<String> = Vec::with_capacity(toks.len());
    for (i, t) in toks.iter().enumerate() {
        if t == "," {
            if let Some(n) = toks.get(i + 1) {
                if n == ")" || n == "]" || n == "}" || n == ">" {
                    continue;
                }
            }
        }
        if t.starts_with("r\"") || t.starts_with("r#") || t.starts_with('"') {
            if let Ok(l) = syn::parse_str::<syn::LitStr>(t) {
                out.push(format!("{:?}", l.value()));
                continue;
            }
        }
        out.push(t.clone());
    }
    out
}

pub fn lexes(text: &str) -> bool {
    TokenStream::from_str(text).is_ok()
}

// ---------------------------------------------------------------------------------------------
// syn inventory

use quote::ToTokens;
use std::collections::BTreeMap;

pub fn norm<T: ToTokens>(t: &T) -> String {
    flat_tokens(&t.to_token_stream().to_string()).join(" ")
}

#[derive(Clone, Debug, Default, PartialEq, Eq)]
pub struct Field {
    pub name: String,
    pub vis: String,
    pub ty: String,
}

#[derive(Clone, Debug, Default, PartialEq, Eq)]
pub struct Item {
    /// module path, "" for the root
    pub module: String,
    /// struct union enum type const static fn foreign_fn foreign_static impl use mod_decl macro other
    pub kind: String,
    pub name: String,
    /// normalised token text of the whole item (for foreign items: the item inside the block)
    pub text: String,
    pub derives: Vec<String>,
    pub reprs: Vec<String>,
    /// all outer attributes, normalised (incl. doc)
    pub attrs: Vec<String>,
    pub generics: Vec<String>,
    pub fields: Vec<Field>,
    /// enum variants (name, discriminant expr)
    pub variants: Vec<(String, String)>,
    /// const/static: type and value expression
    pub ty: String,
    pub value: String,
    pub mutable: bool,
    /// foreign items: block abi, block attrs, block unsafety, index of the block in its module
    pub abi: String,
    pub block_attrs: Vec<String>,
    pub block_unsafe: bool,
    pub block_index: usize,
    /// impl blocks
    pub impl_trait: String,
    pub impl_self: String,
    pub methods: Vec<String>,
    /// fn signature (foreign or not)
    pub sig: String,
    /// position within its module
    pub index: usize,
}

#[derive(Clone, Debug, Default, PartialEq, Eq)]
pub struct LayoutAssert {
    pub module: String,
    /// type expression tokens, normalised ("A", "W < :: std :: os :: raw :: c_int >")
    pub ty: String,
    pub size: Option<u64>,
    pub align: Option<u64>,
    pub offsets: Vec<(String, u64)>,
    /// true for the old `#[test] fn` form
    pub test_fn: bool,
    pub messages: Vec<String>,
}

#[derive(Clone, Debug, Default)]
pub struct Inventory {
    pub items: Vec<Item>,
    pub asserts: Vec<LayoutAssert>,
}

fn attr_strings(attrs: &[syn::Attribute]) -> (Vec<String>, Vec<String>, Vec<String>) {
    let mut all = vec![];
    let mut derives = vec![];
    let mut reprs = vec![];
    for a in attrs {
        all.push(norm(a));
        if a.path().is_ident("derive") {
            if let Ok(list) = a.parse_args_with(
                syn::punctuated::Punctuated::<syn::Path, syn::Token![,]>::parse_terminated,
            ) {
                for p in list {
                    derives.push(norm(&p).replace(' ', ""));
                }
            }
        }
        if a.path().is_ident("repr") {
            if let syn::Meta::List(l) = &a.meta {
                let s = flat_tokens(&l.tokens.to_string());
                // split on top-level commas
                let mut cur = String::new();
                let mut depth = 0;
                for t in s {
                    if t == "(" {
                        depth += 1;
                    }
                    if t == ")" {
                        depth -= 1;
                    }
                    if t == "," && depth == 0 {
                        reprs.push(std::mem::take(&mut cur));
                    } else {
                        cur.push_str(&t);
                    }
                }
                if !cur.is_empty() {
                    reprs.push(cur);
                }
            }
        }
    }
    (all, derives, reprs)
}

fn generics_of(g: &syn::Generics) -> Vec<String> {
    g.params.iter().map(|p| norm(p)).collect()
}

fn fields_of(f: &syn::Fields) -> Vec<Field> {
    f.iter()
        .enumerate()
        .map(|(i, f)| Field {
            name: f.ident.as_ref().map(|i| i.to_string()).unwrap_or_else(|| i.to_string()),
            vis: norm(&f.vis),
            ty: norm(&f.ty),
        })
        .collect()
}

fn usize_lit(t: &str) -> Option<u64> {
    t.strip_suffix("usize").and_then(|n| n.parse().ok())
}

/// Extract the tokens of a generic argument list starting at `toks[i] == "<"`; returns (text, index after ">")
fn angle_group(toks: &[String], i: usize) -> Option<(String, usize)> {
    if toks.get(i).map(|s| s.as_str()) != Some("<") {
        return None;
    }
    let mut depth = 0i32;
    let mut j = i;
    let mut inner = vec![];
    while j < toks.len() {
        let t = toks[j].as_str();
        match t {
            "<" => {
                depth += 1;
                if depth > 1 {
                    inner.push(t.to_string());
                }
            }
            ">" => {
                depth -= 1;
                if depth == 0 {
                    return Some((inner.join(" "), j + 1));
                }
                inner.push(t.to_string());
            }
            ">>" => {
                depth -= 2;
                if depth <= 0 {
                    if depth == 0 {
                        inner.push(">".into());
                    }
                    return Some((inner.join(" "), j + 1));
                }
                inner.push(t.to_string());
            }
            "->" | "=>" => inner.push(t.to_string()),
            _ => inner.push(t.to_string()),
        }
        j += 1;
    }
    None
}

/// Decode a layout assertion block (either form) from the flat tokens of its body.
fn decode_asserts(toks: &[String], module: &str, test_fn: bool) -> Option<LayoutAssert> {
    let mut la = LayoutAssert { module: module.to_string(), test_fn, ..Default::default() };
    let mut i = 0;
    let mut saw = false;
    while i < toks.len() {
        let t = toks[i].as_str();
        if (t == "size_of" || t == "align_of") && toks.get(i + 1).map(|s| s.as_str()) == Some("::") {
            if let Some((ty, after)) = angle_group(toks, i + 2) {
                // expect "(" ")" then "-" N (const form) or "," N (test form)
                let n = toks.get(after + 3).and_then(|s| usize_lit(s));
                let sep = toks.get(after + 2).map(|s| s.as_str());
                if toks.get(after).map(|s| s.as_str()) == Some("(") && (sep == Some("-") || sep == Some(",")) {
                    if let Some(n) = n {
                        if la.ty.is_empty() {
                            la.ty = ty.clone();
                        }
                        if ty == la.ty {
                            if t == "size_of" {
                                la.size = Some(n);
                            } else {
                                la.align = Some(n);
                            }
                            saw = true;
                        }
                    }
                }
                i = after;
                continue;
            }
        }
        if t == "offset_of" && toks.get(i + 1).map(|s| s.as_str()) == Some("!") && toks.get(i + 2).map(|s| s.as_str()) == Some("(") {
            // offset_of ! ( TYPE , field ) - N usize
            let mut j = i + 3;
            let mut depth = 1;
            let mut parts: Vec<String> = vec![];
            while j < toks.len() && depth > 0 {
                match toks[j].as_str() {
                    "(" => depth += 1,
                    ")" => depth -= 1,
                    _ => {}
                }
                if depth > 0 {
                    parts.push(toks[j].clone());
                }
                j += 1;
            }
            if let Some(comma) = parts.iter().rposition(|p| p == ",") {
                let field = parts[comma + 1..].join("");
                if toks.get(j).map(|s| s.as_str()) == Some("-") {
                    if let Some(n) = toks.get(j + 1).and_then(|s| usize_lit(s)) {
                        la.offsets.push((field, n));
                        saw = true;
                    }
                }
            }
            i = j;
            continue;
        }
        if t == "addr_of" && toks.get(i + 1).map(|s| s.as_str()) == Some("!") {
            // addr_of ! ( ( * ptr ) . f ) as usize - ptr as usize } , N usize
            let mut j = i + 2;
            let mut field = String::new();
            while j < toks.len() && toks[j] != "}" {
                if toks[j] == "." {
                    field = toks.get(j + 1).cloned().unwrap_or_default();
                }
                j += 1;
            }
            if toks.get(j + 1).map(|s| s.as_str()) == Some(",") {
                if let Some(n) = toks.get(j + 2).and_then(|s| usize_lit(s)) {
                    la.offsets.push((field, n));
                    saw = true;
                }
            }
            i = j;
            continue;
        }
        if t.starts_with('"') && (t.contains("Size of") || t.contains("Align") || t.contains("Offset of")) {
            la.messages.push(t.trim_matches('"').to_string());
        }
        i += 1;
    }
    if saw {
        Some(la)
    } else {
        None
    }
}

struct Walker {
    inv: Inventory,
}

impl Walker {
    fn walk(&mut self, items: &[syn::Item], module: &str) {
        let mut block_index = 0usize;
        for (index, it) in items.iter().enumerate() {
            let mut item = Item { module: module.to_string(), index, text: norm(it), ..Default::default() };
            match it {
                syn::Item::Struct(s) => {
                    item.kind = "struct".into();
                    item.name = s.ident.to_string();
                    (item.attrs, item.derives, item.reprs) = attr_strings(&s.attrs);
                    item.generics = generics_of(&s.generics);
                    item.fields = fields_of(&s.fields);
                }
                syn::Item::Union(s) => {
                    item.kind = "union".into();
                    item.name = s.ident.to_string();
                    (item.attrs, item.derives, item.reprs) = attr_strings(&s.attrs);
                    item.generics = generics_of(&s.generics);
                    item.fields = s
                        .fields
                        .named
                        .iter()
                        .map(|f| Field { name: f.ident.as_ref().unwrap().to_string(), vis: norm(&f.vis), ty: norm(&f.ty) })
                        .collect();
                }
                syn::Item::Enum(e) => {
                    item.kind = "enum".into();
                    item.name = e.ident.to_string();
                    (item.attrs, item.derives, item.reprs) = attr_strings(&e.attrs);
                    item.variants = e
                        .variants
                        .iter()
                        .map(|v| (v.ident.to_string(), v.discriminant.as_ref().map(|d| norm(&d.1)).unwrap_or_default()))
                        .collect();
                }
                syn::Item::Type(t) => {
                    item.kind = "type".into();
                    item.name = t.ident.to_string();
                    (item.attrs, _, _) = attr_strings(&t.attrs);
                    item.generics = generics_of(&t.generics);
                    item.ty = norm(&*t.ty);
                }
                syn::Item::Const(c) => {
                    item.kind = "const".into();
                    item.name = c.ident.to_string();
                    (item.attrs, _, _) = attr_strings(&c.attrs);
                    item.ty = norm(&*c.ty);
                    item.value = norm(&*c.expr);
                    if item.name == "_" {
                        let toks = flat_tokens(&c.expr.to_token_stream().to_string());
                        if let Some(la) = decode_asserts(&toks, module, false) {
                            item.kind = "layout_assert".into();
                            item.name = la.ty.clone();
                            self.inv.asserts.push(la);
                        }
                    }
                }
                syn::Item::Static(s) => {
                    item.kind = "static".into();
                    item.name = s.ident.to_string();
                    (item.attrs, _, _) = attr_strings(&s.attrs);
                    item.ty = norm(&*s.ty);
                    item.mutable = matches!(s.mutability, syn::StaticMutability::Mut(_));
                }
                syn::Item::Fn(f) => {
                    item.kind = "fn".into();
                    item.name = f.sig.ident.to_string();
                    (item.attrs, _, _) = attr_strings(&f.attrs);
                    item.sig = norm(&f.sig);
                    let is_test = f.attrs.iter().any(|a| a.path().is_ident("test"));
                    if is_test && (item.name.starts_with("bindgen_test_layout_") || item.name.starts_with("__bindgen_test_layout_")) {
                        let toks = flat_tokens(&f.block.to_token_stream().to_string());
                        if let Some(la) = decode_asserts(&toks, module, true) {
                            item.kind = "layout_assert".into();
                            self.inv.asserts.push(la);
                        }
                    }
                }
                syn::Item::Impl(im) => {
                    item.kind = "impl".into();
                    item.impl_self = norm(&*im.self_ty);
                    item.impl_trait = im.trait_.as_ref().map(|t| norm(&t.1)).unwrap_or_default();
                    item.generics = generics_of(&im.generics);
                    item.name = if item.impl_trait.is_empty() { item.impl_self.clone() } else { format!("{} for {}", item.impl_trait, item.impl_self) };
                    (item.attrs, _, _) = attr_strings(&im.attrs);
                    item.methods = im
                        .items
                        .iter()
                        .filter_map(|i| match i {
                            syn::ImplItem::Fn(f) => Some(f.sig.ident.to_string()),
                            syn::ImplItem::Const(c) => Some(c.ident.to_string()),
                            _ => None,
                        })
                        .collect();
                }
                syn::Item::Use(u) => {
                    item.kind = "use".into();
                    item.name = norm(&u.tree);
                }
                syn::Item::Mod(m) => {
                    let name = m.ident.to_string();
                    let path = if module.is_empty() { name.clone() } else { format!("{module}::{name}") };
                    if let Some((_, content)) = &m.content {
                        // a module is recorded as a declaration (without content) and walked
                        item.kind = "mod".into();
                        item.name = name;
                        (item.attrs, _, _) = attr_strings(&m.attrs);
                        item.text = format!("mod {}", item.name);
                        self.inv.items.push(item);
                        self.walk(content, &path);
                        continue;
                    }
                    item.kind = "mod_decl".into();
                    item.name = name;
                }
                syn::Item::ForeignMod(fm) => {
                    let abi = fm.abi.name.as_ref().map(|n| n.value()).unwrap_or_else(|| "C".into());
                    let (battrs, _, _) = attr_strings(&fm.attrs);
                    for fi in &fm.items {
                        let mut f = Item {
                            module: module.to_string(),
                            index,
                            text: norm(fi),
                            abi: abi.clone(),
                            block_attrs: battrs.clone(),
                            block_unsafe: fm.unsafety.is_some(),
                            block_index,
                            ..Default::default()
                        };
                        match fi {
                            syn::ForeignItem::Fn(ff) => {
                                f.kind = "foreign_fn".into();
                                f.name = ff.sig.ident.to_string();
                                (f.attrs, _, _) = attr_strings(&ff.attrs);
                                f.sig = norm(&ff.sig);
                            }
                            syn::ForeignItem::Static(fs) => {
                                f.kind = "foreign_static".into();
                                f.name = fs.ident.to_string();
                                (f.attrs, _, _) = attr_strings(&fs.attrs);
                                f.ty = norm(&*fs.ty);
                                f.mutable = matches!(fs.mutability, syn::StaticMutability::Mut(_));
                            }
                            syn::ForeignItem::Type(ft) => {
                                f.kind = "foreign_type".into();
                                f.name = ft.ident.to_string();
                            }
                            _ => {
                                f.kind = "foreign_other".into();
                            }
                        }
                        self.inv.items.push(f);
                    }
                    block_index += 1;
                    continue;
                }
                syn::Item::Trait(t) => {
                    item.kind = "trait".into();
                    item.name = t.ident.to_string();
                }
                syn::Item::TraitAlias(t) => {
                    item.kind = "trait_alias".into();
                    item.name = t.ident.to_string();
                }
                syn::Item::ExternCrate(c) => {
                    item.kind = "extern_crate".into();
                    item.name = c.ident.to_string();
                }
                syn::Item::Verbatim(_) => {
                    item.kind = "verbatim".into();
                }
                syn::Item::Macro(m) => {
                    item.kind = "macro".into();
                    item.name = norm(&m.mac.path);
                }
                _ => {
                    item.kind = "other".into();
                }
            }
            self.inv.items.push(item);
        }
    }
}

pub fn inventory(text: &str) -> Result<Inventory, String> {
    let file = syn::parse_file(text).map_err(|e| format!("syn: {e}"))?;
    let mut w = Walker { inv: Inventory::default() };
    w.walk(&file.items, "");
    Ok(w.inv)
}

pub const HELPER_TYPES: &[&str] = &[
    "__BindgenBitfieldUnit",
    "__BindgenUnionField",
    "__IncompleteArrayField",
    "__BindgenOpaqueArray",
    "__BindgenOpaqueArray8",
    "__BindgenComplex",
    "__BindgenFloat16",
    "__BindgenLongDouble",
];

impl Inventory {
    pub fn is_helper(name: &str) -> bool {
        HELPER_TYPES.iter().any(|h| name == *h || name.starts_with(&format!("{h} "))) || name.ends_with("__bindgen_vtable")
    }
    pub fn types(&self) -> impl Iterator<Item = &Item> {
        self.items.iter().filter(|i| matches!(i.kind.as_str(), "struct" | "union" | "enum" | "type"))
    }
    pub fn find(&self, kind: &str, name: &str) -> Option<&Item> {
        self.items.iter().find(|i| i.kind == kind && i.name == name)
    }
    pub fn find_type(&self, name: &str) -> Option<&Item> {
        self.types().find(|i| i.name == name)
    }
    pub fn assert_for(&self, module: &str, ty: &str) -> Vec<&LayoutAssert> {
        self.asserts.iter().filter(|a| a.module == module && a.ty == ty).collect()
    }
    /// name -> canonical description used by order-independence comparisons
    pub fn type_facts(&self) -> BTreeMap<String, String> {
        let mut m = BTreeMap::new();
        for t in self.types() {
            if Self::is_helper(&t.name) {
                continue;
            }
            let key = format!("{}::{}", t.module, t.name);
            let fields: Vec<String> = t.fields.iter().map(|f| format!("{}:{}", f.name, f.ty)).collect();
            let asserts: Vec<String> = self
                .assert_for(&t.module, &t.name)
                .iter()
                .map(|a| format!("size={:?} align={:?} offsets={:?}", a.size, a.align, a.offsets))
                .collect();
            let mut impls: Vec<String> = self
                .items
                .iter()
                .filter(|i| i.kind == "impl" && i.module == t.module && (i.impl_self == t.name || i.impl_self.starts_with(&format!("{} <", t.name))))
                .map(|i| format!("impl {} [{}]", i.name, i.methods.join(",")))
                .collect();
            impls.sort();
            let mut derives = t.derives.clone();
            derives.sort();
            m.insert(
                key,
                format!(
                    "kind={} derives={:?} reprs={:?} generics={:?} fields={:?} variants={:?} alias={} asserts={:?} impls={:?}",
                    t.kind, derives, t.reprs, t.generics, fields, t.variants, t.ty, asserts, impls
                ),
            );
        }
        m
    }
}
