//! Isolated worker processes (DESIGN 1.4): the driver re-executes itself as `bgv worker`,
//! one JSON request per line on stdin, one JSON reply per line on a private fd.  Generation
//! runs on the worker's main thread (8 MiB stack like the CLI).  Death by signal, `exit()`
//! inside clap, stack overflow or a watchdog timeout are outcomes attributed to the in-flight
//! request; the worker is restarted.

use serde_json::{json, Value};
use std::cell::RefCell;
use std::io::{BufRead, BufReader, Read, Write};
use std::os::unix::io::FromRawFd;
use std::os::unix::process::ExitStatusExt;
use std::process::{Child, ChildStdin, Command, Stdio};
use std::sync::mpsc::{channel, Receiver, RecvTimeoutError};
use std::time::Duration;

pub enum Reply {
    Ok(Value),
    /// worker process ended while serving the request
    Died { status: Option<i32>, signal: Option<i32>, stderr: String, stdout: String },
    Timeout,
}

impl Reply {
    pub fn describe(&self) -> String {
        match self {
            Reply::Ok(v) => format!("ok {}", v.to_string().chars().take(200).collect::<String>()),
            Reply::Died { status, signal, stderr, .. } => {
                format!("worker died status={status:?} signal={signal:?} stderr={}", stderr.chars().take(600).collect::<String>())
            }
            Reply::Timeout => "timeout".into(),
        }
    }
}

pub struct Worker {
    child: Child,
    stdin: ChildStdin,
    rx: Receiver<String>,
    err_path: std::path::PathBuf,
    out_path: std::path::PathBuf,
}

static WORKER_SEQ: std::sync::atomic::AtomicUsize = std::sync::atomic::AtomicUsize::new(0);

impl Worker {
    pub fn spawn() -> std::io::Result<Worker> {
        // a harness binary that was rebuilt while this run is in progress shows up as
        // "<path> (deleted)": the rebuilt file at the same path speaks the same protocol
        let exe = std::env::current_exe()?;
        let exe = match exe.to_str().and_then(|s| s.strip_suffix(" (deleted)")) {
            Some(p) => std::path::PathBuf::from(p),
            None => exe,
        };
        let n = WORKER_SEQ.fetch_add(1, std::sync::atomic::Ordering::SeqCst);
        // under the run's own scratch area (removed when the run ends), not under /tmp
        let wdir = std::path::Path::new(crate::engine::VERIF).join("work").join(format!("workers-{}", std::process::id()));
        let _ = std::fs::create_dir_all(&wdir);
        let base = wdir.join(format!("w{n}"));
        let err_path = base.with_extension("err");
        let out_path = base.with_extension("out");
        let errf = std::fs::OpenOptions::new().create(true).append(true).open(&err_path)?;
        let mut cmd = Command::new(exe);
        cmd.arg("worker")
            .env("BGV_WORKER_STDOUT", &out_path)
            .stdin(Stdio::piped())
            .stdout(Stdio::piped())
            .stderr(errf);
        for v in ["BINDGEN_EXTRA_CLANG_ARGS", "TARGET", "CLANG_PATH"] {
            cmd.env_remove(v);
        }
        let mut child = cmd.spawn()?;
        let stdin = child.stdin.take().unwrap();
        let stdout = child.stdout.take().unwrap();
        let (tx, rx) = channel();
        std::thread::spawn(move || {
            let r = BufReader::new(stdout);
            for line in r.lines() {
                match line {
                    Ok(l) => {
                        if tx.send(l).is_err() {
                            break;
                        }
                    }
                    Err(_) => break,
                }
            }
        });
        Ok(Worker { child, stdin, rx, err_path, out_path })
    }

    fn tail(path: &std::path::Path) -> String {
        let mut s = Vec::new();
        if let Ok(mut f) = std::fs::File::open(path) {
            let _ = f.read_to_end(&mut s);
        }
        let t = String::from_utf8_lossy(&s);
        let n = t.len();
        t[n.saturating_sub(4000)..].to_string()
    }

    /// Send one request; on death/timeout the worker is dead afterwards (caller respawns).
    pub fn call(&mut self, req: &Value, timeout: Duration) -> Reply {
        let line = format!("{}\n", req);
        // per-request stderr: the child appends, so truncating here is safe
        if let Ok(f) = std::fs::OpenOptions::new().write(true).open(&self.err_path) {
            let _ = f.set_len(0);
        }
        if self.stdin.write_all(line.as_bytes()).and_then(|_| self.stdin.flush()).is_err() {
            return self.died();
        }
        match self.rx.recv_timeout(timeout) {
            Ok(l) => match serde_json::from_str::<Value>(&l) {
                Ok(v) => Reply::Ok(v),
                Err(_) => Reply::Ok(json!({"garbled": l})),
            },
            Err(RecvTimeoutError::Timeout) => {
                let _ = self.child.kill();
                let _ = self.child.wait();
                Reply::Timeout
            }
            Err(RecvTimeoutError::Disconnected) => self.died(),
        }
    }

    fn died(&mut self) -> Reply {
        let st = self.child.wait().ok();
        Reply::Died {
            status: st.and_then(|s| s.code()),
            signal: st.and_then(|s| s.signal()),
            stderr: Self::tail(&self.err_path),
            stdout: Self::tail(&self.out_path),
        }
    }

    pub fn alive(&mut self) -> bool {
        matches!(self.child.try_wait(), Ok(None))
    }
}

impl Drop for Worker {
    fn drop(&mut self) {
        let _ = self.child.kill();
        let _ = self.child.wait();
        let _ = std::fs::remove_file(&self.err_path);
        let _ = std::fs::remove_file(&self.out_path);
    }
}

thread_local! {
    static TL_WORKER: RefCell<Option<Worker>> = const { RefCell::new(None) };
}

/// Call through this thread's worker, (re)spawning as needed.
pub fn call(req: &Value, timeout_s: u64) -> Reply {
    TL_WORKER.with(|w| {
        let mut w = w.borrow_mut();
        let need = match w.as_mut() {
            Some(x) => !x.alive(),
            None => true,
        };
        if need {
            *w = match Worker::spawn() {
                Ok(x) => Some(x),
                // the harness could not even start a worker (e.g. its own binary was replaced while
                // running): nothing was observed, which callers treat like a watchdog expiry (inconclusive)
                Err(_) => return Reply::Timeout,
            };
        }
        let r = w.as_mut().unwrap().call(req, Duration::from_secs(timeout_s));
        // a worker that announced its exit must not receive the next request
        let leaving = matches!(&r, Reply::Ok(v) if v.get("_exit").is_some());
        if !matches!(r, Reply::Ok(_)) || leaving {
            *w = None;
        }
        r
    })
}

// ---------------------------------------------------------------------------------------------
// server side

pub struct ServerIo {
    reply: std::fs::File,
    captured_stdout: Option<std::path::PathBuf>,
}

impl ServerIo {
    /// Move the reply channel to a private fd and point fd 1 at a capture file, so that
    /// anything bindgen prints on stdout (cargo directives, dumps) cannot corrupt replies.
    pub fn setup() -> ServerIo {
        unsafe {
            let reply_fd = libc::dup(1);
            let captured = std::env::var_os("BGV_WORKER_STDOUT").map(std::path::PathBuf::from);
            if let Some(p) = &captured {
                if let Ok(f) = std::fs::File::create(p) {
                    use std::os::unix::io::IntoRawFd;
                    let fd = f.into_raw_fd();
                    libc::dup2(fd, 1);
                    libc::close(fd);
                }
            }
            ServerIo { reply: std::fs::File::from_raw_fd(reply_fd), captured_stdout: captured }
        }
    }
    /// Text printed to stdout since the last call.
    pub fn take_stdout(&mut self) -> String {
        let _ = std::io::stdout().flush();
        let Some(p) = &self.captured_stdout else { return String::new() };
        let text = std::fs::read_to_string(p).unwrap_or_default();
        // truncate for the next request
        unsafe {
            libc::ftruncate(1, 0);
            libc::lseek(1, 0, libc::SEEK_SET);
        }
        text
    }
    pub fn send(&mut self, v: &Value) {
        let line = format!("{}\n", v);
        let _ = self.reply.write_all(line.as_bytes());
        let _ = self.reply.flush();
    }
}

pub fn serve(mut handler: impl FnMut(&Value, &mut ServerIo) -> Value) {
    let mut io = ServerIo::setup();
    let stdin = std::io::stdin();
    let mut line = String::new();
    loop {
        line.clear();
        match stdin.lock().read_line(&mut line) {
            Ok(0) | Err(_) => break,
            Ok(_) => {}
        }
        let Ok(req) = serde_json::from_str::<Value>(&line) else {
            io.send(&json!({"error": "bad request"}));
            continue;
        };
        let resp = handler(&req, &mut io);
        io.send(&resp);
        // a handler that left a thread behind (hang detection) asks for a fresh process
        if resp.get("_exit").is_some() {
            std::process::exit(0);
        }
    }
}
