//! C probe / Rust probe pair for layout facts (DESIGN 1.6): sizes, alignments, member offsets,
//! member widths and integer signedness, observed independently through clang and through
//! rustc on the generated bindings.

use crate::cmodel::*;
use crate::rs::{Inventory, Item};
use std::collections::BTreeMap;

/// One fact key -> value, e.g. "size:3" -> "24", "off:3:a.b" -> "8".
pub type Facts = BTreeMap<String, String>;

pub fn parse_facts(out: &str) -> Facts {
    let mut m = Facts::new();
    for l in out.lines() {
        if let Some((k, v)) = l.rsplit_once(' ') {
            if k.starts_with("size:") || k.starts_with("align:") || k.starts_with("off:") || k.starts_with("width:") || k.starts_with("signed:") {
                m.insert(k.to_string(), v.to_string());
            }
        }
    }
    m
}

fn prim_of<'a>(p: &'a Program, t: &'a Ty) -> Option<Prim> {
    match t {
        Ty::Prim(pr) => Some(*pr),
        Ty::Named(i) => match &p.decls[*i] {
            Decl::Typedef { ty, .. } => prim_of(p, ty),
            _ => None,
        },
        _ => None,
    }
}

pub struct Leaf {
    /// C member designator relative to the top-level type ("a.b.c")
    pub c_path: String,
    pub is_flexible: bool,
    pub integer: bool,
}

/// Named non-bit-field leaves of a comp, C view.
pub fn c_leaves(p: &Program, c: &Comp, prefix: &str, out: &mut Vec<Leaf>) {
    for f in &c.fields {
        if f.bits.is_some() {
            continue;
        }
        match &f.ty {
            FieldTy::Ty(t) => {
                if f.name.is_empty() {
                    continue;
                }
                let flexible = matches!(t, Ty::Array { dims, .. } if dims[0] == ArrLen::Flexible);
                out.push(Leaf { c_path: format!("{prefix}{}", f.name), is_flexible: flexible, integer: prim_of(p, t).map(|x| x.is_integer()).unwrap_or(false) });
            }
            FieldTy::Inline(ic) => {
                if f.name.is_empty() {
                    c_leaves(p, ic, prefix, out);
                } else {
                    // the member itself, then its leaves
                    out.push(Leaf { c_path: format!("{prefix}{}", f.name), is_flexible: false, integer: false });
                    c_leaves(p, ic, &format!("{prefix}{}.", f.name), out);
                }
            }
        }
    }
}

/// A typedef that is, or names through a chain of typedefs, an aligned typedef.
pub fn alias_of_aligned(p: &Program, d: &Decl) -> bool {
    match d {
        Decl::Typedef { aligned: Some(_), .. } => true,
        Decl::Typedef { ty: Ty::Named(k), .. } => alias_of_aligned(p, &p.decls[*k]),
        _ => false,
    }
}

/// C translation unit printing the facts of every type declaration of the program.
pub fn c_probe_source(p: &Program, header: &str) -> String {
    let mut s = String::new();
    s.push_str(&format!("#include \"{header}\"\n#include <stdio.h>\n#include <stddef.h>\n"));
    s.push_str("#define SG(T) ((int)(((T)-1) < (T)0))\n");
    s.push_str("int main(void) {\n");
    for (i, d) in p.decls.iter().enumerate() {
        let Some(t) = d.c_use() else { continue };
        match d {
            Decl::Opaque { .. } => continue,
            Decl::Typedef { ty, .. } => {
                if matches!(ty, Ty::Void) {
                    continue;
                }
            }
            _ => {}
        }
        s.push_str(&format!("  printf(\"size:{i} %zu\\n\", sizeof({t}));\n"));
        // a Rust type alias cannot carry an alignment of its own; what an aligned typedef does to
        // the types that use it is checked through their layouts
        if !alias_of_aligned(p, d) {
            s.push_str(&format!("  printf(\"align:{i} %zu\\n\", (size_t)_Alignof({t}));\n"));
        }
        match d {
            Decl::Comp(c) => {
                let mut leaves = vec![];
                c_leaves(p, c, "", &mut leaves);
                for l in leaves {
                    s.push_str(&format!("  printf(\"off:{i}:{} %zu\\n\", offsetof({t}, {}));\n", l.c_path, l.c_path));
                    if !l.is_flexible {
                        s.push_str(&format!("  printf(\"width:{i}:{} %zu\\n\", sizeof((({t}*)0)->{}));\n", l.c_path, l.c_path));
                    }
                    if l.integer {
                        s.push_str(&format!("  printf(\"signed:{i}:{} %d\\n\", SG(__typeof__((({t}*)0)->{})));\n", l.c_path, l.c_path));
                    }
                }
            }
            Decl::Enum(_) => {
                s.push_str(&format!("  printf(\"signed:{i}: %d\\n\", SG({t}));\n"));
            }
            Decl::Typedef { ty, .. } => {
                if prim_of(p, ty).map(|x| x.is_integer()).unwrap_or(false) {
                    s.push_str(&format!("  printf(\"signed:{i}: %d\\n\", SG({t}));\n"));
                }
            }
            _ => {}
        }
    }
    s.push_str("  return 0;\n}\n");
    s
}

#[derive(Default)]
pub struct RustWalk {
    /// prefix of anonymous member fields (`--anon-fields-prefix`)
    pub anon_prefix: String,
    /// statements printing facts
    pub stmts: Vec<String>,
    /// (signature, message)
    pub problems: Vec<(String, String)>,
    /// decl indices whose Rust type is an opaque blob (fields not exposed)
    pub opaque_types: Vec<usize>,
    /// fact keys the Rust side deliberately does not print (with reason class)
    pub skipped: Vec<(String, String)>,
}

/// First identifier of a type token string that names the element type:
/// `[ [ T ; 2usize ] ; 3usize ]` -> `T`, `__BindgenUnionField < T >` -> `T`.
pub fn element_type(ty: &str) -> String {
    let mut t = ty.trim().replace("root :: ", "");
    loop {
        let tt = t.trim().to_string();
        if let Some(rest) = tt.strip_prefix("[ ") {
            // strip "[ X ; N ]"
            if let Some(pos) = rest.rfind(" ; ") {
                t = rest[..pos].to_string();
                continue;
            }
        }
        for w in ["__BindgenUnionField < ", "__IncompleteArrayField < ", ":: std :: mem :: ManuallyDrop < ", ":: core :: mem :: ManuallyDrop < "] {
            if let Some(rest) = tt.strip_prefix(w) {
                if let Some(inner) = rest.strip_suffix(" >") {
                    t = inner.to_string();
                }
            }
        }
        if t.trim() == tt {
            return tt;
        }
    }
}

pub fn is_wrapper(ty: &str, w: &str) -> bool {
    ty.trim().trim_start_matches("root :: ").starts_with(w)
}

fn find_field<'a>(item: &'a Item, c_name: &str) -> Option<&'a crate::rs::Field> {
    let cands = [c_name.to_string(), format!("{c_name}_"), c_name.replace('$', "_"), format!("{}_", c_name.replace('$', "_"))];
    item.fields.iter().find(|f| cands.contains(&f.name))
}

fn is_opaque_item(item: &Item) -> bool {
    item.fields.iter().any(|f| f.name == "_bindgen_opaque_blob") || (item.fields.len() == 1 && item.fields[0].name == "_address")
}

impl RustWalk {
    fn walk_comp(&mut self, inv: &Inventory, module: &str, idx: usize, c: &Comp, rust_ty: &str, c_prefix: &str, base_off: &str) {
        // typedef aliases and newtype wrappers (`pub struct Alias(pub Inner);`) stand for their target
        // flexible-array DSTs are generic over the array type with a sized default: the bare name
        // names the default instantiation
        let mut rust_ty = rust_ty.split('<').next().unwrap_or(rust_ty).trim().to_string();
        let mut hops = 0;
        let item = loop {
            let found = inv.items.iter().find(|i| matches!(i.kind.as_str(), "struct" | "union" | "type") && i.name == rust_ty && i.module == module);
            match found {
                Some(i) if i.kind == "type" && hops < 8 => {
                    rust_ty = element_type(&i.ty);
                    hops += 1;
                }
                Some(i) if i.kind == "struct" && i.fields.len() == 1 && i.fields[0].name == "0" && hops < 8 => {
                    rust_ty = element_type(&i.fields[0].ty);
                    hops += 1;
                }
                Some(i) => break i,
                None => {
                    self.problems.push(("rust-type-missing".into(), format!("decl {idx}: no struct/union `{rust_ty}` in module `{module}`")));
                    return;
                }
            }
        };
        let rust_ty = rust_ty.as_str();
        if is_opaque_item(item) {
            if c_prefix.is_empty() {
                self.opaque_types.push(idx);
            }
            self.skipped.push((format!("{idx}:{c_prefix}*"), "opaque-blob".into()));
            return;
        }
        let mut anon = 0usize;
        for f in &c.fields {
            if f.bits.is_some() {
                continue;
            }
            match &f.ty {
                FieldTy::Ty(t) => {
                    if f.name.is_empty() {
                        continue;
                    }
                    let key = format!("{idx}:{c_prefix}{}", f.name);
                    let Some(rf) = find_field(item, &f.name) else {
                        self.problems.push(("rust-field-missing".into(), format!("decl {idx}: `{rust_ty}` has no field for C member `{}` (fields: {:?})", f.name, item.fields.iter().map(|x| x.name.as_str()).collect::<Vec<_>>())));
                        continue;
                    };
                    self.stmts.push(format!("println!(\"off:{key} {{}}\", {base_off} + ::core::mem::offset_of!({rust_ty}, {}));", raw_ident(&rf.name)));
                    let flexible = matches!(t, Ty::Array { dims, .. } if dims[0] == ArrLen::Flexible);
                    if !flexible {
                        let ty = if is_wrapper(&rf.ty, "__BindgenUnionField <") || is_wrapper(&rf.ty, ":: std :: mem :: ManuallyDrop <") { unwrap_one(&rf.ty) } else { rf.ty.clone() };
                        if is_wrapper(&ty, "__IncompleteArrayField <") {
                            // `[0]` arrays are represented by a zero-sized marker
                            self.stmts.push(format!("println!(\"width:{key} {{}}\", ::core::mem::size_of::<{ty}>());"));
                        } else {
                            self.stmts.push(format!("println!(\"width:{key} {{}}\", ::core::mem::size_of::<{ty}>());"));
                            self.stmts.push(format!("if let Some(s) = Probe::<{ty}>(::core::marker::PhantomData).sgv() {{ println!(\"signed:{key} {{}}\", s); }}"));
                        }
                    }
                }
                FieldTy::Inline(ic) => {
                    let (rf_name, key_prefix) = if f.name.is_empty() {
                        anon += 1;
                        (format!("{}{anon}", self.anon_prefix), c_prefix.to_string())
                    } else {
                        (f.name.clone(), format!("{c_prefix}{}.", f.name))
                    };
                    let rf = if f.name.is_empty() { item.fields.iter().find(|x| x.name == rf_name) } else { find_field(item, &f.name) };
                    let Some(rf) = rf else {
                        self.problems.push(("rust-field-missing".into(), format!("decl {idx}: `{rust_ty}` has no field `{rf_name}` (fields: {:?})", item.fields.iter().map(|x| x.name.as_str()).collect::<Vec<_>>())));
                        continue;
                    };
                    let off = format!("{base_off} + ::core::mem::offset_of!({rust_ty}, {})", raw_ident(&rf.name));
                    if !f.name.is_empty() {
                        let key = format!("{idx}:{c_prefix}{}", f.name);
                        self.stmts.push(format!("println!(\"off:{key} {{}}\", {off});"));
                        let ty = if is_wrapper(&rf.ty, "__BindgenUnionField <") || is_wrapper(&rf.ty, ":: std :: mem :: ManuallyDrop <") { unwrap_one(&rf.ty) } else { rf.ty.clone() };
                        self.stmts.push(format!("println!(\"width:{key} {{}}\", ::core::mem::size_of::<{ty}>());"));
                    }
                    let inner_ty = element_type(&rf.ty);
                    self.walk_comp(inv, module, idx, ic, &inner_ty, &key_prefix, &off);
                }
            }
        }
    }

    pub fn run(p: &Program, inv: &Inventory, module: &str, c_naming: bool) -> RustWalk {
        Self::run_with(p, inv, module, c_naming, "__bindgen_anon_")
    }

    pub fn run_with(p: &Program, inv: &Inventory, module: &str, c_naming: bool, anon_prefix: &str) -> RustWalk {
        let mut w = RustWalk { anon_prefix: anon_prefix.to_string(), ..Default::default() };
        for (i, d) in p.decls.iter().enumerate() {
            let Some(mut name) = d.rust_name() else { continue };
            match d {
                Decl::Comp(c) => {
                    if c_naming {
                        name = format!("{}_{}", if c.is_union { "union" } else { "struct" }, name);
                    }
                    if inv.items.iter().any(|x| (x.kind == "struct" || x.kind == "union") && x.name == name && x.module == module) {
                        w.stmts.push(format!("println!(\"size:{i} {{}}\", ::core::mem::size_of::<{name}>());"));
                        w.stmts.push(format!("println!(\"align:{i} {{}}\", ::core::mem::align_of::<{name}>());"));
                    }
                    w.walk_comp(inv, module, i, c, &name, "", "0usize");
                }
                Decl::Enum(e) => {
                    if c_naming {
                        name = format!("enum_{name}");
                    }
                    match inv.items.iter().find(|x| matches!(x.kind.as_str(), "type" | "enum" | "struct") && x.name == name && x.module == module) {
                        None => {
                            // under the module-of-constants style the type is `name::Type`
                            if inv.items.iter().any(|x| x.kind == "mod" && x.name == name) {
                                w.stmts.push(format!("println!(\"size:{i} {{}}\", ::core::mem::size_of::<{name}::Type>());"));
                                w.stmts.push(format!("println!(\"align:{i} {{}}\", ::core::mem::align_of::<{name}::Type>());"));
                                w.stmts.push(format!("if let Some(s) = Probe::<{name}::Type>(::core::marker::PhantomData).sgv() {{ println!(\"signed:{i}: {{}}\", s); }}"));
                            } else {
                                w.problems.push(("rust-type-missing".into(), format!("decl {i}: no item for enum `{name}`")));
                            }
                        }
                        Some(_) => {
                            w.stmts.push(format!("println!(\"size:{i} {{}}\", ::core::mem::size_of::<{name}>());"));
                            w.stmts.push(format!("println!(\"align:{i} {{}}\", ::core::mem::align_of::<{name}>());"));
                            w.stmts.push(format!("if let Some(s) = Probe::<{name}>(::core::marker::PhantomData).sgv() {{ println!(\"signed:{i}: {{}}\", s); }}"));
                        }
                    }
                }
                Decl::Typedef { ty, .. } => {
                    if matches!(ty, Ty::Void) {
                        continue;
                    }
                    let as_use = inv.items.iter().any(|x| x.kind == "use" && x.module == module && x.name.ends_with(&format!(" as {name}")));
                    match inv.items.iter().find(|x| matches!(x.kind.as_str(), "type" | "struct") && x.name == name && x.module == module) {
                        None if as_use => {
                            // `pub use self::E as T;` (typedef of an enum)
                            w.stmts.push(format!("println!(\"size:{i} {{}}\", ::core::mem::size_of::<{name}>());"));
                            w.stmts.push(format!("println!(\"align:{i} {{}}\", ::core::mem::align_of::<{name}>());"));
                        }
                        // names bindgen maps to builtin types by name have no alias item
                        None if ["size_t", "ssize_t", "intptr_t", "uintptr_t", "ptrdiff_t", "int8_t", "uint8_t", "int16_t", "uint16_t", "int32_t", "uint32_t", "int64_t", "uint64_t", "wchar_t"].contains(&name.as_str()) => {}
                        None => w.problems.push(("rust-type-missing".into(), format!("decl {i}: no item for typedef `{name}`"))),
                        Some(_) => {
                            w.stmts.push(format!("println!(\"size:{i} {{}}\", ::core::mem::size_of::<{name}>());"));
                            w.stmts.push(format!("println!(\"align:{i} {{}}\", ::core::mem::align_of::<{name}>());"));
                            w.stmts.push(format!("if let Some(s) = Probe::<{name}>(::core::marker::PhantomData).sgv() {{ println!(\"signed:{i}: {{}}\", s); }}"));
                        }
                    }
                }
                _ => {}
            }
        }
        w
    }
}

fn unwrap_one(ty: &str) -> String {
    let t = ty.trim();
    if let Some(lt) = t.find('<') {
        if let Some(inner) = t[lt + 1..].trim().strip_suffix('>') {
            return inner.trim().to_string();
        }
    }
    t.to_string()
}

pub fn raw_ident(name: &str) -> String {
    const KW: &[&str] = &["as", "break", "const", "continue", "else", "enum", "extern", "false", "fn", "for", "if", "impl", "in", "let", "loop", "match", "mod", "move", "mut", "pub", "ref", "return", "static", "struct", "trait", "true", "type", "unsafe", "use", "where", "while", "async", "await", "dyn", "abstract", "become", "box", "do", "final", "macro", "override", "priv", "typeof", "unsized", "virtual", "yield", "try", "gen"];
    if KW.contains(&name) {
        format!("r#{name}")
    } else {
        name.to_string()
    }
}

pub const RUST_PROBE_PRELUDE: &str = r#"
pub struct Probe<T>(pub ::core::marker::PhantomData<T>);
pub trait SgFallback { fn sgv(&self) -> Option<i32> { None } }
impl<T> SgFallback for Probe<T> {}
macro_rules! sg_impl { ($($t:ty => $v:expr),*) => { $( impl Probe<$t> { pub fn sgv(&self) -> Option<i32> { Some($v) } } )* } }
sg_impl!(i8 => 1, i16 => 1, i32 => 1, i64 => 1, i128 => 1, isize => 1, u8 => 0, u16 => 0, u32 => 0, u64 => 0, u128 => 0, usize => 0, bool => 0);
"#;

/// Rust program: includes the bindings and prints the facts of `walk`.
pub fn rust_probe_source(bindings_file: &str, walk: &RustWalk, use_root: bool) -> String {
    let mut s = String::from("#![allow(warnings)]\n");
    s.push_str(&format!("include!(\"{bindings_file}\");\n"));
    if use_root {
        s.push_str("use root::*;\n");
    }
    s.push_str(RUST_PROBE_PRELUDE);
    s.push_str("fn main() {\n");
    for st in &walk.stmts {
        s.push_str("    ");
        s.push_str(&st);
        s.push('\n');
    }
    s.push_str("}\n");
    s
}

/// One crate holding several bindings variants, each in its own module with its own probe.
/// `parts` = (module name, bindings file, walk, use_root). Output lines are prefixed `@<mod> `.
pub fn rust_probe_source_multi(parts: &[(String, String, &RustWalk, bool)]) -> String {
    let mut s = String::from("#![allow(warnings)]\n");
    for (m, file, walk, use_root) in parts {
        s.push_str(&format!("pub mod {m} {{\n    include!(\"{file}\");\n"));
        if *use_root {
            s.push_str("    use self::root::*;\n");
        }
        s.push_str(RUST_PROBE_PRELUDE);
        s.push_str("    pub fn run() {\n");
        for st in &walk.stmts {
            s.push_str("        ");
            s.push_str(&st.replace("println!(\"", &format!("println!(\"@{m} ")));
            s.push('\n');
        }
        s.push_str("    }\n}\n");
    }
    s.push_str("fn main() {\n");
    for (m, ..) in parts {
        s.push_str(&format!("    {m}::run();\n"));
    }
    s.push_str("}\n");
    s
}

/// Split the output of a multi probe into per-module fact maps.
pub fn parse_facts_multi(out: &str, module: &str) -> Facts {
    let prefix = format!("@{module} ");
    let mut text = String::new();
    for l in out.lines() {
        if let Some(rest) = l.strip_prefix(&prefix) {
            text.push_str(rest);
            text.push('\n');
        }
    }
    parse_facts(&text)
}

/// Compare two fact maps; returns (key, c value, rust value) of disagreements on common keys
/// and the keys only C has.
pub fn compare(c: &Facts, r: &Facts) -> (Vec<(String, String, String)>, Vec<String>) {
    let mut diffs = vec![];
    let mut only_c = vec![];
    for (k, v) in c {
        match r.get(k) {
            Some(rv) => {
                if rv != v {
                    diffs.push((k.clone(), v.clone(), rv.clone()));
                }
            }
            None => only_c.push(k.clone()),
        }
    }
    (diffs, only_c)
}
