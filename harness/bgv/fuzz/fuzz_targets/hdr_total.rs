//! C12, coverage-guided tier: header text + option selector -> generation must end with
//! `Ok(bindings)` or `Err(error value)`; never a panic.
//!
//! Input layout: byte 0 = language and option-set selector, rest = header text (lossy UTF-8).
//! Oracle inside the target: a panic whose message is not on the allow-list of known findings
//! (known_findings.json, status "known") writes a C12 `Text` replay and aborts; an error value
//! other than clang diagnostics for a header does the same (classified later by the replay).
//! Everything else (accept/reject agreement with clang) is the proptest tier's business.
#![no_main]
use libfuzzer_sys::fuzz_target;
use std::path::PathBuf;
use std::sync::{Mutex, Once, OnceLock};

/// option sets (the header and `--` arguments are appended)
const OPTION_SETS: &[&[&str]] = &[
    &[],
    &["--with-derive-default", "--with-derive-hash", "--with-derive-partialeq", "--with-derive-partialord", "--with-derive-eq", "--with-derive-ord", "--impl-debug", "--impl-partialeq"],
    &["--enable-cxx-namespaces", "--sort-semantically", "--merge-extern-blocks", "--conservative-inline-namespaces"],
    &["--rust-target", "1.64", "--no-derive-copy", "--no-derive-debug", "--explicit-padding", "--no-prepend-enum-name"],
    &["--default-enum-style", "rust", "--bitfield-enum", ".*[02468]", "--newtype-enum", ".*[a-m]", "--constified-enum-module", ".*_t", "--default-alias-style", "new_type_deref", "--default-non-copy-union-style", "manually_drop"],
    &["--allowlist-type", ".*[a-z]", "--allowlist-function", "f.*", "--no-recursive-allowlist", "--blocklist-type", ".*[0-3]"],
    &["--experimental", "--wrap-static-fns", "--generate-inline-functions", "--generate-cstr", "--wrap-unsafe-ops", "--c-naming", "--generate", "functions,types,vars,methods,constructors,destructors"],
    &["--opaque-type", ".*[A-Z]", "--no-layout-tests", "--vtable-generation", "--fit-macro-constant-types", "--use-array-pointers-in-arguments", "--default-macro-constant-type", "signed", "--use-core", "--dynamic-loading", "lib"],
];

static LAST_PANIC: Mutex<Option<String>> = Mutex::new(None);
static DIR: OnceLock<PathBuf> = OnceLock::new();
static INIT: Once = Once::new();

/// panic messages of findings listed as known (never extended at run time)
/// (panic message contains, header text contains, header text must have non-ASCII characters)
fn known() -> &'static Vec<(String, String, bool)> {
    static K: OnceLock<Vec<(String, String, bool)>> = OnceLock::new();
    K.get_or_init(|| {
        let mut v = vec![];
        if let Ok(t) = std::fs::read_to_string("/verif/known_findings.json") {
            if let Ok(j) = serde_json::from_str::<serde_json::Value>(&t) {
                for f in j["findings"].as_array().cloned().unwrap_or_default() {
                    if f["property"] == "C12" && f["status"] == "known" {
                        for t in f["fuzz_tolerate"].as_array().cloned().unwrap_or_default() {
                            if let Some(m) = t["message_contains"].as_str() {
                                v.push((m.to_string(), t["text_contains"].as_str().unwrap_or("").to_string(), t["text_non_ascii"].as_bool().unwrap_or(false)));
                            }
                        }
                    }
                }
            }
        }
        v
    })
}

fn setup() {
    INIT.call_once(|| {
        let d = PathBuf::from(std::env::var("BGV_FUZZ_DIR").unwrap_or_else(|_| "/verif/work/fuzz".into())).join(format!("p{}", std::process::id()));
        std::fs::create_dir_all(&d).expect("scratch dir");
        let _ = DIR.set(d);
        // replaces libfuzzer-sys' abort-on-panic hook: the verdict is taken after catch_unwind
        std::panic::set_hook(Box::new(|info| {
            let loc = info.location().map(|l| format!("{}:{}", l.file(), l.line())).unwrap_or_default();
            let msg = if let Some(s) = info.payload().downcast_ref::<&str>() {
                s.to_string()
            } else if let Some(s) = info.payload().downcast_ref::<String>() {
                s.clone()
            } else {
                "?".into()
            };
            *LAST_PANIC.lock().unwrap() = Some(format!("{loc}: {msg}"));
        }));
    });
}

fn report(kind: &str, detail: &str, name: &str, text: &str, flags: &[String], clang_args: &[String]) -> ! {
    let case = serde_json::json!({"property": "C12", "signature": format!("fuzz/{kind}"), "detail": detail,
        "case": {"Text": {"name": name, "text": text, "flags": flags, "clang_args": clang_args}}});
    let mut h: u64 = 0xcbf29ce484222325;
    for b in text.bytes().chain(flags.iter().flat_map(|f| f.bytes())) {
        h = (h ^ b as u64).wrapping_mul(0x100000001b3);
    }
    let out = PathBuf::from(std::env::var("BGV_FUZZ_FOUND").unwrap_or_else(|_| "/verif/replays/C12/found".into()));
    let _ = std::fs::create_dir_all(&out);
    let p = out.join(format!("fuzz-{h:016x}.json"));
    let _ = std::fs::write(&p, serde_json::to_string_pretty(&case).unwrap());
    eprintln!("FUZZ-FINDING kind={kind} replay={} detail={}", p.display(), detail.chars().take(300).collect::<String>());
    std::process::abort();
}

fuzz_target!(|data: &[u8]| {
    if data.len() < 2 {
        return;
    }
    setup();
    let sel = data[0];
    let cpp = sel & 1 == 1;
    let set = OPTION_SETS[((sel >> 1) as usize) % OPTION_SETS.len()];
    // known finding excluded by construction: characters clang 14 accepts in identifiers (C11
    // Annex D) that Rust has no identifier syntax for make bindgen panic; what is left of that
    // class (alphabetic symbols such as circled letters) is attributed by C12's evaluator
    let text: String = String::from_utf8_lossy(&data[1..]).chars().map(|c| if c.is_ascii() || c.is_alphabetic() { c } else { '_' }).collect();
    let name = if cpp { "in.hpp" } else { "in.h" };
    let dir = DIR.get().unwrap();
    let path = dir.join(name);
    if std::fs::write(&path, &text).is_err() {
        return;
    }
    let mut flags: Vec<String> = vec!["--formatter=none".into(), "--no-include-path-detection".into()];
    flags.extend(set.iter().map(|s| s.to_string()));
    let mut args: Vec<String> = vec!["bindgen".into()];
    for f in &flags {
        args.push(f.clone());
        if f == "--wrap-static-fns" {
            args.push("--wrap-static-fns-path".into());
            args.push(dir.join("extern").to_str().unwrap().to_string());
        }
    }
    args.push(path.to_str().unwrap().to_string());
    let clang_args: Vec<String> = if cpp { vec!["-x".into(), "c++".into(), "-std=c++17".into()] } else { vec!["-x".into(), "c".into(), "-std=gnu11".into()] };
    args.push("--".into());
    args.extend(clang_args.iter().cloned());
    if let Ok(out) = std::env::var("BGV_FUZZ_CONVERT") {
        // no generation: write the decoded input as a C12 replay (used for artifacts of
        // crashes the target could not report itself: signals, aborts, timeouts)
        let case = serde_json::json!({"property": "C12", "signature": "fuzz/artifact", "case": {"Text": {"name": name, "text": text, "flags": flags, "clang_args": clang_args}}});
        let mut h: u64 = 0xcbf29ce484222325;
        for b in text.bytes().chain(flags.iter().flat_map(|f| f.bytes())) {
            h = (h ^ b as u64).wrapping_mul(0x100000001b3);
        }
        let _ = std::fs::create_dir_all(&out);
        let p = PathBuf::from(out).join(format!("fuzz-{h:016x}.json"));
        if !p.exists() {
            let _ = std::fs::write(p, serde_json::to_string_pretty(&case).unwrap());
        }
        return;
    }
    *LAST_PANIC.lock().unwrap() = None;
    let r = std::panic::catch_unwind(std::panic::AssertUnwindSafe(|| {
        let (b, _, _) = bindgen::builder_from_flags(args.into_iter()).map_err(|e| format!("flags: {e}"))?;
        b.generate().map(|x| x.to_string()).map_err(|e| format!("{e:?}"))
    }));
    match r {
        Ok(Ok(_)) => {}
        Ok(Err(e)) => {
            if !(e.starts_with("ClangDiagnostic") || e.starts_with("flags:")) {
                // error values other than clang's verdict on the header: let the replay classify
                if !e.starts_with("Codegen") {
                    report("unexpected-error-value", &e, name, &text, &flags, &clang_args);
                }
            }
        }
        Err(_) => {
            let p = LAST_PANIC.lock().unwrap().clone().unwrap_or_else(|| "?".into());
            if known().iter().any(|(m, t, na)| p.contains(m.as_str()) && text.contains(t.as_str()) && (!*na || !text.is_ascii())) {
                return;
            }
            report("panic", &p, name, &text, &flags, &clang_args);
        }
    }
});
