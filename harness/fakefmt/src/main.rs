//! fakefmt — a scriptable stand-in for rustfmt (C15). Behaviour comes from $FAKEFMT_MODE:
//!   echo                      read stdin, write it back, exit 0
//!   exit:<code>:<nothing|half|all>   read stdin, write that much of it, exit <code>
//!   signal:<KILL|SEGV|PIPE|ABRT>:<nothing|half>  read stdin, write part, kill self
//!   badutf8[:<code>]          read stdin, write it back with 0xFF bytes spliced in, exit <code> (default 0)
//!   close-stdin:<code>        close stdin at once, exit <code> without output
//!   never-read:<code>         never read stdin, wait 150 ms, exit <code>
//!   never-read-flood:<code>   never read stdin, write 2 MiB to stdout, exit <code>
//!   slow-reader               read stdin in small chunks with pauses, echo, exit 0
//!   write-before-read         write 2 MiB of comment lines, then echo stdin, exit 0
//!   real                      exec the real rustfmt with the same arguments
use std::io::{Read, Write};

fn part(input: &[u8], how: &str) -> Vec<u8> {
    match how {
        "nothing" => vec![],
        "half" => {
            // cut at a char boundary so that the text stays valid UTF-8
            let mut n = input.len() / 2;
            while n > 0 && (input[n] & 0xC0) == 0x80 {
                n -= 1;
            }
            input[..n].to_vec()
        }
        _ => marked(input),
    }
}

/// The "formatted" text: the input plus a token-neutral marker, so that the caller can tell
/// whether the formatter's output or the unformatted fallback was used.
fn marked(input: &[u8]) -> Vec<u8> {
    let mut v = input.to_vec();
    v.extend_from_slice(b"\n// fakefmt-was-here\n");
    v
}

fn read_all() -> Vec<u8> {
    let mut v = Vec::new();
    let _ = std::io::stdin().read_to_end(&mut v);
    v
}

fn write_out(data: &[u8]) {
    let mut out = std::io::stdout();
    let _ = out.write_all(data);
    let _ = out.flush();
}

fn main() {
    let mode = std::env::var("FAKEFMT_MODE").unwrap_or_else(|_| "echo".into());
    let parts: Vec<&str> = mode.split(':').collect();
    match parts[0] {
        "echo" => {
            let i = read_all();
            write_out(&marked(&i));
        }
        "exit" => {
            let code: i32 = parts[1].parse().unwrap_or(1);
            let i = read_all();
            write_out(&part(&i, parts.get(2).copied().unwrap_or("all")));
            std::process::exit(code);
        }
        "signal" => {
            let sig = match parts[1] {
                "KILL" => libc::SIGKILL,
                "SEGV" => libc::SIGSEGV,
                "PIPE" => libc::SIGPIPE,
                _ => libc::SIGABRT,
            };
            let i = read_all();
            write_out(&part(&i, parts.get(2).copied().unwrap_or("nothing")));
            unsafe {
                libc::signal(sig, libc::SIG_DFL);
                libc::raise(sig);
            }
            std::process::exit(99);
        }
        "badutf8" => {
            let mut i = marked(&read_all());
            let n = i.len() / 2;
            i.insert(n, 0xFF);
            i.push(0xC0);
            write_out(&i);
            std::process::exit(parts.get(1).and_then(|c| c.parse().ok()).unwrap_or(0));
        }
        "close-stdin" => {
            unsafe {
                libc::close(0);
            }
            std::process::exit(parts.get(1).and_then(|c| c.parse().ok()).unwrap_or(1));
        }
        "never-read" => {
            std::thread::sleep(std::time::Duration::from_millis(150));
            std::process::exit(parts.get(1).and_then(|c| c.parse().ok()).unwrap_or(1));
        }
        "never-read-flood" => {
            let line = b"// flood flood flood flood flood flood flood flood flood flood\n";
            let mut buf = Vec::new();
            while buf.len() < 2 << 20 {
                buf.extend_from_slice(line);
            }
            write_out(&buf);
            std::process::exit(parts.get(1).and_then(|c| c.parse().ok()).unwrap_or(1));
        }
        "slow-reader" => {
            let mut all = Vec::new();
            let mut chunk = vec![0u8; 4096];
            let mut stdin = std::io::stdin();
            let mut n_reads = 0u32;
            loop {
                match stdin.read(&mut chunk) {
                    Ok(0) | Err(_) => break,
                    Ok(n) => all.extend_from_slice(&chunk[..n]),
                }
                n_reads += 1;
                if n_reads % 16 == 0 && n_reads < 4000 {
                    std::thread::sleep(std::time::Duration::from_micros(300));
                }
            }
            write_out(&marked(&all));
        }
        "write-before-read" => {
            let line = b"// written before stdin was read ..............................\n";
            let mut buf = Vec::new();
            while buf.len() < 2 << 20 {
                buf.extend_from_slice(line);
            }
            write_out(&buf);
            let i = read_all();
            write_out(&marked(&i));
        }
        "real" => {
            use std::os::unix::process::CommandExt;
            let args: Vec<String> = std::env::args().skip(1).collect();
            let real = std::env::var("FAKEFMT_REAL").unwrap_or_else(|_| "rustfmt".into());
            let e = std::process::Command::new(real).args(args).exec();
            eprintln!("fakefmt: exec failed: {e}");
            std::process::exit(127);
        }
        _ => std::process::exit(64),
    }
}
