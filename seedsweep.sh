#!/bin/bash
# runs every stored seeded defect against the quick tier of its own property; writes seeded/results.json
cd /verif
out=seeded/results.jsonl; : > $out
for d in seeded/C*-[12]; do
  name=$(basename $d); id=${name%-*}
  line=$(./seedtest.sh $name $id quick 2>&1)
  ex=$(echo "$line" | grep -o "exit=[0-9]*" | head -1 | cut -d= -f2)
  secs=$(echo "$line" | grep -o "secs=[0-9]*" | head -1 | cut -d= -f2)
  sig=$(echo "$line" | grep "signature:" | head -1 | sed 's/.*signature: //')
  python3 - "$name" "$id" "$ex" "$secs" "$sig" >> $out <<'PY'
import json,sys
n,i,e,s,g=sys.argv[1:6]
m={}
try: m=json.load(open(f'/verif/seeded/{n}/meta.json'))
except Exception: pass
print(json.dumps({"seed":n,"property":i,"summary":m.get("summary",""),"quick_exit":int(e or -1),"caught":e=="1","seconds":int(s or 0),"first_signature":g}))
PY
done
echo sweep-done
