#!/bin/bash
# Offline build of the verification harness (MANIFEST.setup_cmd). Nothing is fetched.
set -e
cd "$(dirname "$0")/harness"
export CARGO_NET_OFFLINE=true
cargo build --release --offline
