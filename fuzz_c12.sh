#!/bin/bash
# Coverage-guided tier of C12 (libFuzzer through cargo-fuzz): header text + option selector.
# usage: fuzz_c12.sh <seconds> <jobs> <outdir>
# Writes <outdir>/cases/*.json (C12 `Text` replays of everything the campaign flagged) and
# <outdir>/stats.json. Never decides anything itself: the cases are judged by C12's evaluator.
set -u
SECS="${1:?seconds}"; JOBS="${2:?jobs}"; OUT="${3:?outdir}"
export CARGO_NET_OFFLINE=true
cd /verif/harness/bgv || exit 2
rm -rf "$OUT"; mkdir -p "$OUT/corpus" "$OUT/art" "$OUT/cases" "$OUT/scratch"
if ! cargo +nightly fuzz build -s none hdr_total --target-dir /verif/target/fuzz >"$OUT/build.log" 2>&1; then
  echo "fuzz build failed (see $OUT/build.log)"; exit 2
fi
BIN=/verif/target/fuzz/x86_64-unknown-linux-gnu/release/hdr_total
# seed corpus: the repository's headers (<= 4000 bytes) with varying option sets, plus an empty input
python3 - "$OUT/corpus" <<'PY'
import os,glob,sys
out=sys.argv[1]
hs=sorted(glob.glob('/repo/bindgen-tests/tests/headers/*.h')+glob.glob('/repo/bindgen-tests/tests/headers/*.hpp'))
for i,h in enumerate(hs):
    b=open(h,'rb').read()
    if len(b)>4000: continue
    sel=((i%8)<<1)|(1 if h.endswith('.hpp') else 0)
    open(os.path.join(out,os.path.basename(h)),'wb').write(bytes([sel])+b)
open(os.path.join(out,'empty'),'wb').write(b'\0\n')
PY
SEEDS=$(ls "$OUT/corpus" | wc -l)
export BGV_FUZZ_DIR="$OUT/scratch" BGV_FUZZ_FOUND="$OUT/cases"
SEED="${VERIF_SEED:-1}"; [ "$SEED" = 0 ] && SEED=1
T0=$(date +%s)
"$BIN" "$OUT/corpus" -dict=/verif/harness/bgv/fuzz/dict/c.dict -max_len=4096 -len_control=0 -timeout=30 -rss_limit_mb=6144 \
   -fork="$JOBS" -ignore_crashes=1 -ignore_timeouts=1 -ignore_ooms=1 -max_total_time="$SECS" -seed="$SEED" \
   -artifact_prefix="$OUT/art/" >"$OUT/fuzz.log" 2>&1
T1=$(date +%s)
# artifacts the target did not report itself (signals, aborts, timeouts, ooms) -> replays
ARTS=$(find "$OUT/art" -type f \( -name 'crash-*' -o -name 'timeout-*' -o -name 'oom-*' \) | sort)
if [ -n "$ARTS" ]; then
  BGV_FUZZ_CONVERT="$OUT/cases" "$BIN" $ARTS >"$OUT/convert.log" 2>&1
fi
python3 - "$OUT" "$SEEDS" "$((T1-T0))" "$JOBS" "$SEED" <<'PY'
import sys,re,os,json,glob
out,seeds,secs,jobs,seed=sys.argv[1],int(sys.argv[2]),int(sys.argv[3]),int(sys.argv[4]),int(sys.argv[5])
log=open(os.path.join(out,'fuzz.log'),errors='replace').read()
execs=cov=ft=corp=0
for m in re.finditer(r'#(\d+): cov: (\d+) ft: (\d+) corp: (\d+)',log):
    execs,cov,ft,corp=map(int,m.groups())
arts={k:len(glob.glob(os.path.join(out,'art',k+'-*'))) for k in ('crash','timeout','oom')}
json.dump({"engine":"libFuzzer (cargo-fuzz 0.13, -fork)","seconds":secs,"jobs":jobs,"seed":seed,"seed_corpus_files":seeds,
 "executions":execs,"coverage_edges":cov,"features":ft,"final_corpus":corp,"artifacts":arts,
 "reported_by_target":len(glob.glob(os.path.join(out,'cases','fuzz-*.json'))),"cases":len(glob.glob(os.path.join(out,'cases','*.json')))},
 open(os.path.join(out,'stats.json'),'w'),indent=1)
PY
rm -rf "$OUT/scratch"
cat "$OUT/stats.json"
