#!/bin/bash
# usage: seedtest.sh <seed-dir-name> <ID> [tier]   — applies seeded/<name>/patch.diff to /repo, runs the check, reverts.
# Scratch evidence/replays produced while a seed is applied are discarded.
name=$1; id=$2; tier=${3:-quick}
cd /verif
git -C /repo apply /verif/seeded/$name/patch.diff || { echo "apply failed"; exit 3; }
cp evidence/$id.json /tmp/ev-$id.bak 2>/dev/null
start=$(date +%s)
VERIF_SEED=${VERIF_SEED:-1} ./run $id $tier > /tmp/seedtest-$name-$id.log 2>&1
code=$?
end=$(date +%s)
git -C /repo checkout -- .
cp /tmp/ev-$id.bak evidence/$id.json 2>/dev/null
# drop replays written by the run against the seeded tree
git -C /verif status --short replays/$id/found 2>/dev/null | awk '{print $2}' | while read f; do rm -rf "/verif/$f"; done
echo "seed=$name check=$id tier=$tier exit=$code secs=$((end-start))"
grep -E "^VIOLATION|signature:" /tmp/seedtest-$name-$id.log | head -6
