#!/usr/bin/env python3
"""ddmin over the header text of a C12 `Text` replay, keeping the same failure signature.
usage: minimise_text.py <replay.json> <out.json>"""
import json, subprocess, sys, os, tempfile
src, dst = sys.argv[1], sys.argv[2]
case = json.load(open(src))
tmp = dst + ".tmp.json"
def sig_of(text):
    c = json.loads(json.dumps(case)); c['case']['Text']['text'] = text
    json.dump(c, open(tmp, 'w'))
    r = subprocess.run(['/verif/target/release/bgv', 'replay', 'C12', tmp], capture_output=True, text=True,
                       env=dict(os.environ, BGV_FAKEFMT='/verif/target/release/fakefmt'))
    for l in r.stdout.splitlines():
        if l.strip().startswith('signature:'):
            return l.split('signature:')[1].strip()
    return None
text = case['case']['Text']['text']
want = sig_of(text)
if not want:
    print("does not fail"); sys.exit(1)
def ddmin(units, join):
    n = 2
    while len(units) >= 2:
        chunk = max(1, len(units) // n); removed = False
        i = 0
        while i < len(units):
            cand = units[:i] + units[i + chunk:]
            if cand and sig_of(join(cand)) == want:
                units = cand; removed = True; n = max(n - 1, 2)
            else:
                i += chunk
        if not removed:
            if chunk == 1: break
            n = min(len(units), n * 2)
    return units
lines = ddmin(text.splitlines(True), lambda u: ''.join(u))
text = ''.join(lines)
import re
toks = re.findall(r'\s+|\w+|[^\w\s]', text)
toks = ddmin(toks, lambda u: ''.join(u))
text = ''.join(toks)
case['case']['Text']['text'] = text; case['signature'] = want
json.dump(case, open(dst, 'w'), indent=1)
os.remove(tmp)
print(want); print(text)
