#!/usr/bin/env python3
"""Regenerates /verif/MANIFEST.json from the table below (keeps it schema-valid at all times)."""
import json, subprocess, sys

HOOK_COMMITS = []  # filled from `git -C /repo log --grep '^verif-hook:'`
try:
    out = subprocess.run(["git", "-C", "/repo", "log", "--format=%h", "--grep", "^verif-hook:"],
                         capture_output=True, text=True).stdout.split()
    HOOK_COMMITS = list(reversed(out))
except Exception:
    pass

# id -> (technique, level category, level text, level note, design ref)
CHECKS = {
    "C07": (
        "proptest-generated declaration DAGs x enumerated/sampled linear extensions x work-list schedules; hook invariant + metamorphic order/schedule independence",
        "exploration",
        "All repository headers and generated C/C++ declaration graphs are generated in-process under the default schedule and seeded work-list permutations with the fix-point sweep hook on: no analysis fact that still changes under re-application may be consulted, the output must be byte-identical across schedules, and the per-type facts (derives, generics, fields, reprs, layout assertions, impls) must be identical across every explored declaration order. Exploration is the right level: the quantifier is over programs and schedules, and the hook turns masked non-convergence into an observable event.",
        "Trusts the sweep hook (re-applies bindgen's own rules to a clone) and the syn inventory; schedules are emulated by permuting the initial work-list; generated graphs are bounded to <=9 top-level declarations.",
        "DESIGN.md section 2 / C07",
    ),
    "C13": (
        "proptest sequences of builder calls + exhaustive singles/boolean pairs; round-trip (b1 -> flags -> b2 -> flags') and differential generate(b1) vs generate(b2), flag vs method, and a metamorphic equivalent-spelling relation for the CLI-only custom-derive flags",
        "exploration",
        "Each configuration is built from a table of all CLI-expressible Builder methods (checked against options/mod.rs at run time), converted to flags, parsed back in an isolated worker (clap's exit is an outcome), converted again and both builders generate bindings for a feature-triggering C or C++ header: flag lists must be equal as lists and bindings byte-identical; every table row's documented flag must equal its method in flags and bindings; for the CLI-only REGEX=DERIVES flags (no builder method) a regex alternative containing '=' must have the same effect as the spelling without it. Singles are exhaustive over enumerated values; pairs and random sequences explore interactions.",
        "Two fixed input headers; string arguments come from fixed pools (names, regexes, awkward strings, leading dashes); methods that cannot be expressed on the CLI by design are excluded and listed in evidence.",
        "DESIGN.md section 2 / C13",
    ),
    "C14": (
        "exhaustive enumeration of (target spelling, edition) x trigger headers against an independent feature table, plus proptest spot pairs for shrinking",
        "exploration",
        "Every selectable target spelling (1.51 .. newest+2, patch levels, -beta, -nightly, nightly) x every edition x 10 trigger headers is generated in-process and scanned for each gated construct; presence is compared with an independent introduction table (both directions), monotonicity, ABI omission, edition rejection and default-target equivalence are checked. The space is finite and enumerated completely, which is the right level for a table-driven feature gate.",
        "Trusts the harness's feature table and token-pattern recognisers; only the 10 trigger headers exercise the gates.",
        "DESIGN.md section 2 / C14",
    ),
}

CHECKS["C18"] = (
    "proptest-generated extern-heavy C/C++ programs + all repository headers, four pass combinations; multiset / merge / sort invariants over the syn inventory, idempotence via hook, rustc",
    "exploration",
    "For every input the unprocessed, merged, sorted and merged+sorted outputs are generated in-process and compared per module: equal multisets of non-foreign items and of foreign items flattened with (block attributes, ABI, unsafety); merged blocks have pairwise distinct keys and keep the relative order of their items; sorted modules group each syn item kind contiguously in one global kind order and keep the order within a kind; re-applying the passes (hook H4) to processed output changes nothing and applying them to the unprocessed text reproduces the processed output; processed outputs compile whenever the unprocessed one does.",
    "Trusts syn's parse of the emitted text and token-string equality of items; the kind order is inferred from the outputs (bindgen documents only 'a predefined manner').",
    "DESIGN.md section 2 / C18",
)

CHECKS["C15"] = (
    "fault enumeration of the formatter child process x size classes x settings, plus proptest sequences of faults over consecutive write() calls; token-sequence oracle",
    "fault_enumeration",
    "A scripted stand-in formatter reproduces every listed failure (absent/directory/non-executable/empty file, exit codes after nothing/half/all output, four signals, invalid UTF-8, closed or never-read stdin with and without flooding stdout, slow reader, output before input, exit 3 with complete output) on tiny, ~200 KB and >= 4 MB bindings; Bindings::write must return Ok in a watched worker and the text must carry the header comment once, the raw lines once and in order, and tokenise (modulo trailing commas and literal spelling) to the unformatted token sequence; output of a failed formatter must not be used and output of a succeeding one must be. The three real formatters are compared the same way. The fault list is finite and enumerated completely.",
    "The child is a harness binary (fakefmt), not rustfmt. A write() that does not return is a violation (write-hangs/*) only when the same formatter, fed the same text by a reference pipe driver that drains its output, terminates, and write() is still stuck after max(60 s, 50 x that time); otherwise a watchdog expiry is inconclusive.",
    "DESIGN.md section 2 / C15",
)

CHECKS["C16"] = (
    "proptest-generated static/static-inline function libraries (C04 model) x suffix/path/language/header-passing modes; validity of the wrapper source (clang), symbol set of the wrapper object (nm), differential execution through the wrappers with the C04 digest oracle",
    "exploration",
    "Every function of a generated C04 library is defined `static` or `static inline` in the header (a third first declared without parameter names; optionally one function taking a va_list). bindgen runs with --wrap-static-fns (default or custom suffix, default or custom path; header by path, as two input headers, or as in-memory contents; C or C++). The wrapper source must compile against the header with the same flags; in C its object must define exactly the symbols `<name><suffix>` of the bound functions and nothing else; variadic static functions must not be bound; the C04 caller, linked against the wrapper object, must reproduce digest, return value, returned aggregates and pointee side effects of every wrapped function.",
    "host target; in C++ the symbol check is link success; an option dimension (--c-naming, --enable-cxx-namespaces, --merge-extern-blocks --sort-semantically) must not change which wrappers exist; known findings excluded by construction and counted: declarators the serialiser cannot spell (pointer to function returning a function pointer, functions returning function pointers, pointer-to-array and 2-D array parameters, arrays of callbacks, const callbacks in C++), a parameter named like its function, functions with their own calling convention.",
    "DESIGN.md section 2 / C16",
)

CHECKS["C17"] = (
    "proptest-generated include trees; differential against `clang -M` on the same command line, depfile round-trip parse, callback log vs cargo lines",
    "exploration",
    "Generated include DAGs (five include forms, active and inactive preprocessor regions, repeated inclusion, awkward file names, symlinked search directory, one to three input headers, relative inputs) are written to disk; the realpath-normalised set clang reads must equal the set bindgen reports through each channel (depfile prerequisites, header_file/include_file notifications, cargo:rerun-if-changed lines captured from an isolated worker's stdout); the depfile must re-parse to the configured target and the same paths; rerun-if-env-changed lines must match the documented lookup chain for TARGET / BINDGEN_EXTRA_CLANG_ARGS*, none twice.",
    "clang -M (binary, same front end as libclang) is the reference; the generator's own reachability model cross-checks the reference parse; colliding file names are left to clang alone (the model does not resolve search paths); command-line `-- -include` files are generated; header_contents inputs are not.",
    "DESIGN.md section 2 / C17",
)

CHECKS["C12"] = (
    "proptest token/line mutants of repository headers + nesting families + attribute zoo + option sets + path faults, classified by `clang -fsyntax-only`; isolated worker with watchdog; totality oracle; thorough tier: preceded by a coverage-guided libFuzzer campaign (cargo-fuzz target hdr_total) whose flagged inputs are judged by the same evaluator",
    "exploration",
    "Every generation runs in a separate worker process so that panics, aborts, stack overflows, exit() and hangs are observable. Inputs: all repository headers as written, token- and line-level mutants of them (classified accepted/rejected by the clang binary with the same arguments), 14 nesting families up to depth 200, compositions of unusual declarations (calling conventions, vector/complex/bit-precise types, GNU extensions, C++ template corner cases), repository headers under random builder calls, file-system faults on the input path, and target/edition pairs. Required: Ok for accepted headers, Err(ClangDiagnostic) for rejected ones, the specific error for each path fault and unsupported pair, never a panic or process death.",
    "clang 14 binary vs libclang 14 classification is assumed equal (missing-include disagreements are inconclusive); hangs are bounded by a 300 s watchdog and reported as inconclusive; option values that are pasted as Rust tokens are generated syntactically valid; the libFuzzer stage is time-bounded (BGV_FUZZ_SECS, default 900 s x 16 jobs), so it is reproducible only up to its saved inputs; panics are attributed by differential re-runs (non-XID identifier characters, malformed annotations).",
    "DESIGN.md section 2 / C12",
)

CHECKS["C11"] = (
    "stateful proptest histories (sequential / repeated-builder / concurrent / schedule-change steps) in one worker process vs references from fresh processes; invariant over the history",
    "exploration",
    "For each drawn pool of inputs (repository headers, generated declaration graphs and extern-heavy programs, some with depfile or static-function wrappers) the bindings text, depfile, wrapper source and callback notification sequence are taken in several fresh processes under two work-list schedules and must coincide; then a generated history of up to 50 steps runs in one further process, including clones of one builder generating repeatedly and 2..16 threads generating the same or different inputs at once, and every produced output must equal its input's reference. In history steps the side files (depfile, wrapper source) start out as long leftovers of an earlier generation at the same path and must be replaced; C++ pool inputs are also generated repeatedly under an old --rust-target (test-function names carry counters).",
    "Thread interleavings and libclang-internal state are explored by stress only (the harness does not own the schedule); per-process randomness is whatever the OS and std provide across worker processes.",
    "DESIGN.md section 2 / C11",
)

CHECKS["C02"] = (
    "proptest-generated C type graphs x presentation option sets; differential probe pair (clang-compiled C program vs rustc-compiled Rust program over the bindings)",
    "exploration",
    "For each generated type graph the sizes, alignments, member offsets, member widths and integer signedness that clang computes (a compiled and executed C probe) are compared with what rustc computes for the bindings (a compiled and executed Rust probe that walks the same member paths through the emitted field names), under the default option set and two drawn presentation option sets; the embedded layout assertions are compiled along the way. Differential execution against the real compilers is the right level because the property is about agreement with the C compiler, which no model should replace.",
    "Host target only; types emitted as opaque blobs are compared by size/alignment; constructs for which bindgen is known to emit uncompilable or mis-laid-out code (known_findings.json) are excluded by construction and counted; bit-field members themselves belong to C03.",
    "DESIGN.md section 2 / C02",
)

CHECKS["C03"] = (
    "(a) exhaustive sweep of the bit-field unit arithmetic against a bit-vector reference model; (b) proptest-generated bit-field structs and unions, differential execution: clang-compiled C program vs rustc-compiled Rust program over the bindings, identical test vectors",
    "exploration",
    "(a) every fitting (storage size 1..16, bit offset, width 1..64) triple with boundary and pseudo-random storages and values through the four run-time entry points, and a grid of monomorphic instantiations of the four const-generic entry points, is compared with a bit-vector model after every call (no bit outside the field may change); the crate include!s the very file bindgen pastes into bindings. (b) for generated structs with runs of bit-fields of all integer base types, :0 separators, unnamed padding fields, interleaved plain members and packed/pragma-pack/aligned variants, a C program and a Rust program apply the same loads, stores (8 values x 3 object patterns per field) and constructor combinations and print the object bytes; the transcripts must be identical, raw and safe accessors must agree.",
    "Little-endian x86-64 host only; the run-time sweep is exhaustive, the const-generic grid and part (b) are samples; enum-typed bit-fields are not generated; unions (15 % of generated aggregates, also under --disable-untagged-union) are compared per accessor without whole-object constructors, with the two known sizing defects of union allocation units excluded by construction.",
    "DESIGN.md section 2 / C03",
)

CHECKS["C04"] = (
    "proptest-generated C libraries (functions folding their arguments into per-function digests, globals) x options; differential execution: one executable links the clang-compiled definitions with a rustc-compiled caller that includes the bindings, calls every function with boundary/random values and recomputes digests, return values and side effects",
    "exploration",
    "Each generated function owns a digest slot in a global array: it folds the canonical 64-bit image of every argument (scalars of all 14 kinds, typedef'd scalars, enum, pointees of const and non-const pointers, every leaf of structs/unions passed by value or by pointer, array parameters, results of calling callbacks and callback factories, variadic tails) into an FNV-style digest, stores it, increments non-const pointees and builds its return value (scalar, enum, struct, pointer) from the digest. The generated Rust caller declares its own values with std::os::raw types, calls through the bindings three times per function, recomputes the digest with the same algorithm and compares slot, return value, returned struct members, returned pointer identity and pointee side effects; globals are read, written and read back through a C accessor, and their mutability is compared with constness. Bindings are located by link_name first (the symbol the binding refers to), every declared symbol must be defined in the object file (nm), and a caller that does not type-check against the bindings is a violation.",
    "host target only (no Mach-O/Win32 symbol text); C only; noreturn functions are linked, not called.",
    "DESIGN.md section 2 / C04",
)

CHECKS["C05"] = (
    "proptest-generated headers of macros (typed C expression grammar made UB-free by a C-typed evaluator), enums and const variables x option sets; differential of every emitted constant between a clang-compiled C probe and a rustc-compiled Rust probe",
    "exploration",
    "The generator draws macro bodies from a typed expression grammar (all literal radixes and suffixes, unary and binary operators, ?:, casts, sizeof, character constants, references to earlier macros), float expressions, character and string literals with escapes/concatenation, non-constant macros, enums in five declaration forms with boundary values, and const variables of every scalar type, in C and C++. The C value of every macro, enumerator and variable is printed by a clang-compiled probe; the emitted constants are printed (value as i128 / f64 bits / bytes, size and signedness of the carrier type) by a rustc-compiled probe that includes the bindings for two option sets per header. Emitted constants must agree; omission of a macro is allowed; enumerators must all be present and the enum carrier must have C's size and signedness under all seven enum styles.",
    "host target only; character constants compared modulo 256; stated float tolerances; classes behind the four known findings (untyped 64-bit macro arithmetic, redefinition after #undef, unsigned 64-bit values through the clang fallback, arithmetic on f/L-suffixed float literals) are decided from the input alone, not compared, and counted.",
    "DESIGN.md section 2 / C05",
)

CHECKS["C08"] = (
    "proptest-generated C type graphs x subsets of the 10 derive/impl options x per-type exclusions; reference model = direct recursive specification of derivability over the generator's model, observed through rustc trait probes; executed behaviour checks of default()/eq()/fmt()",
    "exploration",
    "For every top-level struct/union and each of Copy(+Clone), Debug, Default, Hash, PartialEq, PartialOrd, Eq, Ord, a specification written from the documented rules (floats: no Hash/Eq/Ord; pointers and enums: no Default; arrays over 32: Default only by hand; zero-length/flexible arrays: no Copy/Hash/PartialEq; function pointers over 12 parameters; Rust unions: Copy only; packed types need Copy; option gating; per-type exclusions propagating to containers; hand-written Default/Debug impls) says whether the trait must be present. Presence is read off a compiled probe that reports `T: Trait` at run time through autoref specialisation, so both directions are checked: no trait where a member cannot support it (such a derive would not even compile) and none withheld. default() must leave every scalar member zero, fmt() must not panic on a zeroed object, == must hold for zeroed objects and fail after a one-bit change in any scalar member.",
    "latest Rust target; C only (destructors, vtables and base classes are C++: derives through bases are only judged by C01's compile check); function-pointer members are also spelled through typedef'd function types (metamorphic); types under #pragma pack that are not Copy are not compared; padding bytes cannot be observed after a move, so the all-zero check covers scalar members; cases whose plain bindings fall in C01's known classes are not compared (when Copy is disabled the generator removes packing instead, counted).",
    "DESIGN.md section 2 / C08",
)

CHECKS["C09"] = (
    "proptest-generated C declaration graphs with a known reference relation x generated root patterns (seven regular-expression forms, five allowlist kinds, blocklists, --no-recursive-allowlist); reference model (regex crate + generator's closure) for roots and minimality, token identity against the full bindings, differential rustc validity of the allowlisted module",
    "exploration",
    "Programs are renamed so that many names are proper prefixes of others. Expected roots are computed with the `regex` crate on whole names per kind; the closure with the generator's reference relation (walking through blocklisted items, as bindgen documents, but never emitting them). Checks: every matching item that the full bindings contain is emitted; every emitted item is owned by a declaration in the closure (or matches a pattern itself); no blocklisted item is emitted; each emitted item and layout assertion is token-identical to the one in the full bindings (modulo derive lists under --no-recursive-allowlist); in recursive mode the allowlisted module compiles on its own whenever the full one does.",
    "C only (namespaces/methods are not generated); reference edges that the random programs reach rarely (vector elements, function types, bit-field types, initialised constants, `this` parameters ..) come from snippets, each item of which is also a single-root case; known finding excluded by construction: patterns of the form `.*NN` can match id-derived internal names of anonymous types, so suffix patterns are generated as `[A-Z][0-9]*NN`.",
    "DESIGN.md section 2 / C09",
)

CHECKS["C10"] = (
    "proptest-generated C programs with a generated hidden set (blocklist by type/item/function/var/file, opaque by option/annotation); inventory predicates + rustc validity with harness-supplied blob definitions + C-vs-Rust layout differential of every visible type; metamorphic baseline (same program, nothing hidden) for compile errors",
    "exploration",
    "For each generated program 1..4 declarations are hidden in one of five ways (plus a leading run of declarations hidden as a file). The bindings must not define any blocklisted name (types, enumerators, functions, variables, layout assertions); opaque types must consist of blob fields only and expose no inherent methods; a struct that contains a blocklisted type by value (not through an opaque type) must derive nothing. The module is then compiled together with user definitions of the blocklisted types (structs of clang's size and alignment, modules for moduleconsts enums, aliases for typedef+tag pairs) and a probe compares size, alignment, member offsets/widths/signedness of every visible type, and size/alignment of opaque ones, with a clang-compiled C probe. A compile error that the same program shows with nothing hidden is C01's subject and is not reported here.",
    "C only; the quantifier's bases/template arguments are C++ (not generated here). Known findings excluded by construction and counted: PartialOrd/Ord with opaque types, opaque types inside packed types, --impl-debug and --no-derive-copy with packed types.",
    "DESIGN.md section 2 / C10",
)

CHECKS["C06"] = (
    "proptest-generated C type graphs and C++ template graphs x targets x assertion forms; completeness predicate over the syn inventory + differential of every asserted number against a `clang --target=T` constant table",
    "exploration",
    "Both emitted assertion forms (const blocks and #[test] functions) are decoded from the bindings into (type, size, alignment, offsets). Completeness: every concrete struct/union in the emitted inventory has exactly one block with size, alignment and an offset for each exposed named field, and each instantiation with concrete arguments used as a member (also const-qualified, also inside a class template) or as a base has a size/alignment block. Numbers: each asserted number equals the entry of a constant table (sizeof/_Alignof/offsetof expressions over the same header) that clang compiles for the same target, for the host and two drawn targets out of eight incl. 32-bit, Windows and wasm. Off switch: with --no-layout-tests the inventory minus assertion items is identical and no assertion remains.",
    "clang binary vs libclang agreement per target; anonymous-member types are checked for completeness and relative offsets only; widths portable to ILP32/LLP64 are generated (no __int128, long bit-fields <= 32).",
    "DESIGN.md section 2 / C06",
)

CHECKS["C01"] = (
    "proptest-generated C programs, C++ graphs, unusual-declaration compositions and clang-accepted mutants of repository headers x option groups x renaming callbacks; validity predicate = rustc accepts the emitted module",
    "exploration",
    "Every generated (header, option set, callback) triple (plus systematic grids: enum forms x styles, alias styles, helper types inside namespaces, chains of class templates with every derive) is run through bindgen in-process and the emitted text is compiled with rustc (metadata-only library build in the selected edition: parsing, name resolution, type checking of derives and impls, evaluation of every const assertion); old-style layout test functions are built with --test and executed. All usable repository headers are compiled as written. A validity predicate over generated programs is the right level: there are many acceptable outputs and the property only demands that rustc accepts them.",
    "rustc 1.95 judges all --rust-target values; nightly-only output is not compiled; options documented as non-self-contained are not drawn; constructs behind the known findings (packed+aligned combinations, unions emitted as structs inside packed types, derives through packed non-Copy members, classes derived from classes with virtual bases, non-POD base tail padding, templates with bit-fields, virtual bases or nested classes, alias templates under newtype style, ABI overrides unavailable at the target) are reported as KNOWN-FINDING and partly excluded by construction.",
    "DESIGN.md section 2 / C01",
)

NOT_YET = {}

def main():
    props = [json.loads(l) for l in open("/verif/properties.jsonl")]
    checks = []
    na = []
    for p in props:
        pid = p["id"]
        if pid in CHECKS:
            tech, cat, text, note, ref = CHECKS[pid]
            checks.append({
                "property_id": pid,
                "quick_cmd": f"./run {pid} quick",
                "thorough_cmd": f"./run {pid} thorough",
                "evidence_file": f"evidence/{pid}.json",
                "replay_cmd_template": f"./run {pid} --replay {{path}}",
                "engine": "bgv",
                "level_claimed": {"category": cat, "text": text, "design_ref": ref},
                "level_note": note,
                "technique": tech,
            })
        else:
            na.append({"property_id": pid,
                       "reason": NOT_YET.get(pid, "check not built yet (work in progress; planned in DESIGN.md section 2)")})
    m = {
        "version": 1,
        "setup_cmd": "./setup.sh",
        "hooks": {
            "guard": "--cfg bindgen_verif",
            "enable": "harness/.cargo/config.toml sets rustflags = [\"--cfg\", \"bindgen_verif\"] for the harness build (target dir /verif/target); hooks are additionally inert unless BINDGEN_VERIF_LOG / BINDGEN_VERIF_WL_SEED are set",
            "baseline_off_cmd": "cd /repo && cargo test --workspace --no-fail-fast --offline",
            "source_commits": HOOK_COMMITS,
            "add_only": True,
        },
        "engines": [{
            "name": "bgv",
            "path": "harness/bgv",
            "serves_properties": sorted(CHECKS.keys()),
            "kind_free_text": "Rust driver: proptest strategies (fixed seed from VERIF_SEED), 16-thread evaluation, shrinking to replay JSON, oracles built on clang, rustc, syn and in-process bindgen built from /repo by path",
        }],
        "checks": checks,
        "not_applicable": na,
        "notes": "Every command rebuilds the harness, and with it bindgen from /repo's working tree, before running. Exit 0 held / 1 VIOLATION line / 2 inconclusive. Known findings: known_findings.json.",
    }
    json.dump(m, open("/verif/MANIFEST.json", "w"), indent=1)
    print("MANIFEST.json:", len(checks), "checks,", len(na), "not claimed")

main()
